//! instrprobe: bounded stand-in `instr_reference` for C05 (adapted from the demo written by the independent mutation
//! sub-agent for C05: reference semantics of the field / comparison / u32 / stack-manipulation / push instructions written from
//! docs/src/user_docs/assembly; the tolerance for the since-repaired deviation D1 = F36 is switched off; machine-readable
//! FAILCASE / SUMMARY lines added).
//! C05 demonstration: Miden assembly instruction semantics vs. an independent reference model.
//!
//! The reference model in `mod reference` is written from the instruction reference in
//! `docs/src/user_docs/assembly/{field_operations,u32_operations,stack_manipulation,io_operations}.md`
//! and knows nothing about the VM operations an instruction is expanded to.  Every test case is a
//! tiny program `begin <instr> [<instr> ...] end` plus an initial stack (depth 0..40).  It is
//! assembled with the real assembler, executed with the real processor, and the *complete* final
//! stack (all elements, including those below position 15) and the failure behaviour are compared
//! with the reference model.
//!
//! Exit code 0 and a final `RESULT: PASS` line if everything agrees, exit code 1 and
//! `RESULT: FAIL` otherwise.

use miden_assembly::Assembler;
use miden_core::Felt;
use miden_processor::{DefaultHost, ExecutionError, ExecutionOptions, StackInputs};
use std::collections::BTreeMap;
use std::panic::{catch_unwind, AssertUnwindSafe};
use std::sync::atomic::{AtomicBool, Ordering};

/// set while the real assembler / processor runs, so that caught panics are not echoed
static QUIET: AtomicBool = AtomicBool::new(false);

// ================================================================================================
// REFERENCE MODEL (from the docs)
// ================================================================================================
mod reference {
    /// p = 2^64 - 2^32 + 1
    pub const P: u64 = 0xFFFF_FFFF_0000_0001;
    pub const U32: u64 = 1 << 32;

    #[derive(Clone, Debug, PartialEq, Eq)]
    pub enum Fail {
        /// failed assertion with the given error code
        Assert(u32),
        /// division by zero / inverse of zero
        DivZero,
        /// non-binary operand of a boolean / conditional instruction
        NotBinary,
        /// non-u32 operand of a checked u32 instruction (with error code)
        NotU32(u32),
        /// docs only say "fails"
        Any,
        /// must be rejected by the assembler
        Asm,
        /// the docs call the result "undefined" for these operands: nothing to compare
        Undefined,
    }
    type R = Result<(), Fail>;

    thread_local! {
        /// When set, the model reproduces a behaviour of the UNCHANGED code base which deviates
        /// from the docs (found by this sweep, reported separately as D1): `mul.0` and `exp.0`
        /// are assembled as DROP PAD [INCR], so on a stack of depth 16 a zero is shifted in by
        /// the DROP *before* the PAD pushes, and the stack ends up one element deeper (an extra 0
        /// at the bottom) instead of keeping its depth as documented ([a, ...] -> [c, ...]).
        pub static MODEL_D1: std::cell::Cell<bool> = std::cell::Cell::new(false);
    }

    // --- field arithmetic ---------------------------------------------------------------------
    pub fn fadd(a: u64, b: u64) -> u64 {
        ((a as u128 + b as u128) % P as u128) as u64
    }
    pub fn fsub(a: u64, b: u64) -> u64 {
        ((a as u128 + P as u128 - b as u128) % P as u128) as u64
    }
    pub fn fmul(a: u64, b: u64) -> u64 {
        ((a as u128 * b as u128) % P as u128) as u64
    }
    pub fn fneg(a: u64) -> u64 {
        fsub(0, a)
    }
    pub fn fpow(a: u64, mut e: u64) -> u64 {
        let mut base = a;
        let mut acc = 1u64;
        while e > 0 {
            if e & 1 == 1 {
                acc = fmul(acc, base);
            }
            base = fmul(base, base);
            e >>= 1;
        }
        acc
    }
    pub fn finv(a: u64) -> u64 {
        fpow(a, P - 2)
    }

    // quadratic extension, irreducible polynomial x^2 - x + 2, element (a0, a1) = a0 + a1*x
    fn e2mul(a: (u64, u64), b: (u64, u64)) -> (u64, u64) {
        let a0b0 = fmul(a.0, b.0);
        let a1b1 = fmul(a.1, b.1);
        let c0 = fsub(a0b0, fmul(2, a1b1));
        let c1 = fadd(fadd(fmul(a.0, b.1), fmul(a.1, b.0)), a1b1);
        (c0, c1)
    }
    fn e2inv(a: (u64, u64)) -> (u64, u64) {
        // conj(a0 + a1 x) = (a0 + a1) - a1 x ; norm = a0^2 + a0 a1 + 2 a1^2
        let norm = fadd(fadd(fmul(a.0, a.0), fmul(a.0, a.1)), fmul(2, fmul(a.1, a.1)));
        let ninv = finv(norm);
        (fmul(fadd(a.0, a.1), ninv), fmul(fneg(a.1), ninv))
    }

    // --- the stack ----------------------------------------------------------------------------
    /// Operand stack, top at index 0.  Depth never drops below 16 (zeros are shifted in).
    #[derive(Clone, Debug)]
    pub struct St {
        pub s: Vec<u64>,
    }
    impl St {
        pub fn new(init_top_first: &[u64]) -> Self {
            let mut s = init_top_first.to_vec();
            while s.len() < 16 {
                s.push(0);
            }
            St { s }
        }
        /// Removes the top element.  The zero which is shifted in at the bottom when the depth
        /// would drop below 16 is added once the whole instruction is done (see `step`), because
        /// the docs describe the net stack transition of an instruction.
        pub fn pop(&mut self) -> u64 {
            self.s.remove(0)
        }
        fn pad16(&mut self) {
            while self.s.len() < 16 {
                self.s.push(0);
            }
        }
        pub fn push(&mut self, v: u64) {
            self.s.insert(0, v);
        }
        fn popw(&mut self) -> [u64; 4] {
            [self.pop(), self.pop(), self.pop(), self.pop()]
        }
        /// push a word so that w[0] ends up on top
        fn pushw(&mut self, w: [u64; 4]) {
            for i in (0..4).rev() {
                self.push(w[i]);
            }
        }
    }

    // --- parameter parsing ----------------------------------------------------------------------
    fn dec(s: &str) -> Option<u64> {
        if s.is_empty() || !s.bytes().all(|c| c.is_ascii_digit()) {
            return None;
        }
        s.parse::<u64>().ok()
    }
    fn imm_felt(parts: &[&str]) -> Result<Option<u64>, Fail> {
        match parts.len() {
            1 => Ok(None),
            2 => match dec(parts[1]) {
                Some(v) if v < P => Ok(Some(v)),
                _ => Err(Fail::Asm),
            },
            _ => Err(Fail::Asm),
        }
    }
    fn imm_u32(parts: &[&str]) -> Result<Option<u64>, Fail> {
        match imm_felt(parts)? {
            Some(v) if v >= U32 => Err(Fail::Asm),
            x => Ok(x),
        }
    }
    fn imm_idx(parts: &[&str], lo: u64, hi: u64, default: Option<u64>) -> Result<usize, Fail> {
        match parts.len() {
            1 => default.map(|v| v as usize).ok_or(Fail::Asm),
            2 => match dec(parts[1]) {
                Some(v) if v >= lo && v <= hi => Ok(v as usize),
                _ => Err(Fail::Asm),
            },
            _ => Err(Fail::Asm),
        }
    }
    fn err_code(parts: &[&str]) -> Result<u32, Fail> {
        match parts.len() {
            1 => Ok(0),
            2 => {
                let c = parts[1].strip_prefix("err=").ok_or(Fail::Asm)?;
                match dec(c) {
                    Some(v) if v < U32 => Ok(v as u32),
                    _ => Err(Fail::Asm),
                }
            }
            _ => Err(Fail::Asm),
        }
    }
    fn no_params(parts: &[&str]) -> R {
        if parts.len() == 1 {
            Ok(())
        } else {
            Err(Fail::Asm)
        }
    }
    /// one `push` parameter: decimal, or short big-endian hex
    fn push_value(s: &str) -> Result<u64, Fail> {
        if let Some(h) = s.strip_prefix("0x") {
            if h.is_empty() || h.len() > 16 || h.len() % 2 != 0 {
                return Err(Fail::Asm);
            }
            let v = u64::from_str_radix(h, 16).map_err(|_| Fail::Asm)?;
            if v >= P {
                return Err(Fail::Asm);
            }
            Ok(v)
        } else {
            match dec(s) {
                Some(v) if v < P => Ok(v),
                _ => Err(Fail::Asm),
            }
        }
    }

    fn u32pair(a: u64, b: u64) -> R {
        if a >= U32 || b >= U32 {
            Err(Fail::Undefined)
        } else {
            Ok(())
        }
    }

    /// Execute one instruction on the reference stack.
    pub fn step(ins: &str, st: &mut St) -> R {
        st.pad16();
        let r = step_inner(ins, st);
        st.pad16();
        r
    }

    fn step_inner(ins: &str, st: &mut St) -> R {
        let parts: Vec<&str> = ins.split('.').collect();
        let name = parts[0];
        match name {
            // ---------------------------------------------------------------- assertions
            "assert" => {
                let code = err_code(&parts)?;
                if st.pop() != 1 {
                    return Err(Fail::Assert(code));
                }
            }
            "assertz" => {
                let code = err_code(&parts)?;
                if st.pop() != 0 {
                    return Err(Fail::Assert(code));
                }
            }
            "assert_eq" => {
                let code = err_code(&parts)?;
                let b = st.pop();
                let a = st.pop();
                if a != b {
                    return Err(Fail::Assert(code));
                }
            }
            "assert_eqw" => {
                let code = err_code(&parts)?;
                let b = st.popw();
                let a = st.popw();
                if a != b {
                    return Err(Fail::Assert(code));
                }
            }
            // ---------------------------------------------------------------- field arithmetic
            "add" | "sub" | "mul" | "div" => {
                let imm = imm_felt(&parts)?;
                if name == "div" && imm == Some(0) {
                    return Err(Fail::Any); // "Fails if b = 0" (at assembly or at run time)
                }
                let b = match imm {
                    Some(b) => b,
                    None => st.pop(),
                };
                let a = st.pop();
                if name == "mul" && imm == Some(0) && MODEL_D1.with(|f| f.get()) {
                    st.pad16();
                }
                let c = match name {
                    "add" => fadd(a, b),
                    "sub" => fsub(a, b),
                    "mul" => fmul(a, b),
                    _ => {
                        if b == 0 {
                            return Err(Fail::DivZero);
                        }
                        fmul(a, finv(b))
                    }
                };
                st.push(c);
            }
            "neg" => {
                no_params(&parts)?;
                let a = st.pop();
                st.push(fneg(a));
            }
            "inv" => {
                no_params(&parts)?;
                let a = st.pop();
                if a == 0 {
                    return Err(Fail::DivZero);
                }
                st.push(finv(a));
            }
            "pow2" => {
                no_params(&parts)?;
                let a = st.pop();
                if a > 63 {
                    return Err(Fail::Any);
                }
                st.push(fpow(2, a));
            }
            "exp" => {
                if parts.len() > 2 {
                    return Err(Fail::Asm);
                }
                if parts.len() == 2 && parts[1].starts_with('u') {
                    // exp.uXX: exponent on the stack must fit into XX bits
                    let bits = dec(&parts[1][1..]).ok_or(Fail::Asm)?;
                    if bits > 64 {
                        return Err(Fail::Asm);
                    }
                    let b = st.pop();
                    let a = st.pop();
                    if bits < 64 && (b >> bits) != 0 {
                        return Err(Fail::Any);
                    }
                    st.push(fpow(a, b));
                } else {
                    let imm = imm_felt(&parts)?;
                    let b = match imm {
                        Some(b) => b,
                        None => st.pop(),
                    };
                    let a = st.pop();
                    if imm == Some(0) && MODEL_D1.with(|f| f.get()) {
                        st.pad16();
                    }
                    st.push(fpow(a, b));
                }
            }
            "ilog2" => {
                no_params(&parts)?;
                let a = st.pop();
                if a == 0 {
                    return Err(Fail::Any);
                }
                st.push(63 - a.leading_zeros() as u64);
            }
            "not" => {
                no_params(&parts)?;
                let a = st.pop();
                if a > 1 {
                    return Err(Fail::NotBinary);
                }
                st.push(1 - a);
            }
            "and" | "or" | "xor" => {
                no_params(&parts)?;
                let b = st.pop();
                let a = st.pop();
                if a > 1 || b > 1 {
                    return Err(Fail::NotBinary);
                }
                st.push(match name {
                    "and" => a * b,
                    "or" => a + b - a * b,
                    _ => a + b - 2 * a * b,
                });
            }
            // ---------------------------------------------------------------- comparisons
            "eq" | "neq" => {
                let b = match imm_felt(&parts)? {
                    Some(b) => b,
                    None => st.pop(),
                };
                let a = st.pop();
                st.push(((a == b) == (name == "eq")) as u64);
            }
            "lt" | "lte" | "gt" | "gte" => {
                no_params(&parts)?;
                let b = st.pop();
                let a = st.pop();
                st.push(match name {
                    "lt" => a < b,
                    "lte" => a <= b,
                    "gt" => a > b,
                    _ => a >= b,
                } as u64);
            }
            "is_odd" => {
                no_params(&parts)?;
                let a = st.pop();
                st.push(a & 1);
            }
            "eqw" => {
                no_params(&parts)?;
                let c = (st.s[0..4] == st.s[4..8]) as u64;
                st.push(c);
            }
            // ---------------------------------------------------------------- extension field
            "ext2add" | "ext2sub" | "ext2mul" | "ext2div" => {
                no_params(&parts)?;
                let b1 = st.pop();
                let b0 = st.pop();
                let a1 = st.pop();
                let a0 = st.pop();
                let (c0, c1) = match name {
                    "ext2add" => (fadd(a0, b0), fadd(a1, b1)),
                    "ext2sub" => (fsub(a0, b0), fsub(a1, b1)),
                    "ext2mul" => e2mul((a0, a1), (b0, b1)),
                    _ => {
                        if b0 == 0 && b1 == 0 {
                            return Err(Fail::Any);
                        }
                        e2mul((a0, a1), e2inv((b0, b1)))
                    }
                };
                st.push(c0);
                st.push(c1);
            }
            "ext2neg" | "ext2inv" => {
                no_params(&parts)?;
                let a1 = st.pop();
                let a0 = st.pop();
                let (c0, c1) = if name == "ext2neg" {
                    (fneg(a0), fneg(a1))
                } else {
                    if a0 == 0 && a1 == 0 {
                        return Err(Fail::Any);
                    }
                    e2inv((a0, a1))
                };
                st.push(c0);
                st.push(c1);
            }
            // ---------------------------------------------------------------- u32 conversions
            "u32test" => {
                no_params(&parts)?;
                let b = (st.s[0] < U32) as u64;
                st.push(b);
            }
            "u32testw" => {
                no_params(&parts)?;
                let b = st.s[0..4].iter().all(|&v| v < U32) as u64;
                st.push(b);
            }
            "u32assert" | "u32assert2" | "u32assertw" => {
                let code = err_code(&parts)?;
                let n = match name {
                    "u32assert" => 1,
                    "u32assert2" => 2,
                    _ => 4,
                };
                if st.s[0..n].iter().any(|&v| v >= U32) {
                    return Err(Fail::NotU32(code));
                }
            }
            "u32cast" => {
                no_params(&parts)?;
                let a = st.pop();
                st.push(a % U32);
            }
            "u32split" => {
                no_params(&parts)?;
                let a = st.pop();
                st.push(a % U32);
                st.push(a / U32);
            }
            // ---------------------------------------------------------------- u32 arithmetic
            "u32overflowing_add" | "u32wrapping_add" | "u32overflowing_sub" | "u32wrapping_sub"
            | "u32overflowing_mul" | "u32wrapping_mul" => {
                let b = match imm_u32(&parts)? {
                    Some(b) => b,
                    None => st.pop(),
                };
                let a = st.pop();
                u32pair(a, b)?;
                let (lo, hi) = if name.ends_with("add") {
                    ((a + b) % U32, (a + b) / U32)
                } else if name.ends_with("sub") {
                    ((a + U32 - b) % U32, (a < b) as u64)
                } else {
                    ((a * b) % U32, (a * b) / U32)
                };
                st.push(lo);
                if name.starts_with("u32overflowing") {
                    st.push(hi);
                }
            }
            "u32overflowing_add3" | "u32wrapping_add3" => {
                no_params(&parts)?;
                let c = st.pop();
                let b = st.pop();
                let a = st.pop();
                u32pair(a, b)?;
                u32pair(c, 0)?;
                let sum = a + b + c;
                st.push(sum % U32);
                if name == "u32overflowing_add3" {
                    st.push(sum / U32);
                }
            }
            "u32overflowing_madd" | "u32wrapping_madd" => {
                no_params(&parts)?;
                let b = st.pop();
                let a = st.pop();
                let c = st.pop();
                u32pair(a, b)?;
                u32pair(c, 0)?;
                let r = a * b + c;
                st.push(r % U32);
                if name == "u32overflowing_madd" {
                    st.push(r / U32);
                }
            }
            "u32div" | "u32mod" | "u32divmod" => {
                let imm = imm_u32(&parts)?;
                if imm == Some(0) {
                    return Err(Fail::Any);
                }
                let b = match imm {
                    Some(b) => b,
                    None => st.pop(),
                };
                let a = st.pop();
                if b == 0 {
                    return Err(Fail::DivZero);
                }
                u32pair(a, b)?;
                match name {
                    "u32div" => st.push(a / b),
                    "u32mod" => st.push(a % b),
                    _ => {
                        st.push(a / b);
                        st.push(a % b);
                    }
                }
            }
            // ---------------------------------------------------------------- u32 bitwise
            "u32and" | "u32or" | "u32xor" => {
                no_params(&parts)?;
                let b = st.pop();
                let a = st.pop();
                if a >= U32 || b >= U32 {
                    return Err(Fail::NotU32(0));
                }
                st.push(match name {
                    "u32and" => a & b,
                    "u32or" => a | b,
                    _ => a ^ b,
                });
            }
            "u32not" => {
                no_params(&parts)?;
                let a = st.pop();
                if a >= U32 {
                    return Err(Fail::NotU32(0));
                }
                st.push(!(a as u32) as u64);
            }
            "u32shl" | "u32shr" | "u32rotl" | "u32rotr" => {
                let b = match parts.len() {
                    1 => st.pop(),
                    2 => match dec(parts[1]) {
                        Some(v) if v <= 31 => v,
                        // docs: "undefined if b > 31"
                        Some(_) => return Err(Fail::Undefined),
                        None => return Err(Fail::Asm),
                    },
                    _ => return Err(Fail::Asm),
                };
                let a = st.pop();
                if a >= U32 || b > 31 {
                    return Err(Fail::Undefined);
                }
                let (a, b) = (a as u32, b as u32);
                st.push(match name {
                    "u32shl" => ((a as u64) << b) % U32,
                    "u32shr" => (a >> b) as u64,
                    "u32rotl" => a.rotate_left(b) as u64,
                    _ => a.rotate_right(b) as u64,
                });
            }
            "u32popcnt" | "u32clz" | "u32ctz" | "u32clo" | "u32cto" => {
                no_params(&parts)?;
                let a = st.pop();
                u32pair(a, 0)?;
                let a = a as u32;
                st.push(match name {
                    "u32popcnt" => a.count_ones(),
                    "u32clz" => a.leading_zeros(),
                    "u32ctz" => a.trailing_zeros(),
                    "u32clo" => a.leading_ones(),
                    _ => a.trailing_ones(),
                } as u64);
            }
            // ---------------------------------------------------------------- u32 comparison
            "u32lt" | "u32lte" | "u32gt" | "u32gte" | "u32min" | "u32max" => {
                no_params(&parts)?;
                let b = st.pop();
                let a = st.pop();
                u32pair(a, b)?;
                st.push(match name {
                    "u32lt" => (a < b) as u64,
                    "u32lte" => (a <= b) as u64,
                    "u32gt" => (a > b) as u64,
                    "u32gte" => (a >= b) as u64,
                    "u32min" => {
                        if a < b {
                            a
                        } else {
                            b
                        }
                    }
                    _ => {
                        if a > b {
                            a
                        } else {
                            b
                        }
                    }
                });
            }
            // ---------------------------------------------------------------- stack manipulation
            "drop" => {
                no_params(&parts)?;
                st.pop();
            }
            "dropw" => {
                no_params(&parts)?;
                st.popw();
            }
            "padw" => {
                no_params(&parts)?;
                st.pushw([0; 4]);
            }
            "dup" => {
                let n = imm_idx(&parts, 0, 15, Some(0))?;
                let v = st.s[n];
                st.push(v);
            }
            "dupw" => {
                let n = imm_idx(&parts, 0, 3, Some(0))?;
                let w = [st.s[4 * n], st.s[4 * n + 1], st.s[4 * n + 2], st.s[4 * n + 3]];
                st.pushw(w);
            }
            "swap" => {
                let n = imm_idx(&parts, 1, 15, Some(1))?;
                st.s.swap(0, n);
            }
            "swapw" => {
                let n = imm_idx(&parts, 1, 3, Some(1))?;
                for i in 0..4 {
                    st.s.swap(i, 4 * n + i);
                }
            }
            "swapdw" => {
                no_params(&parts)?;
                for i in 0..8 {
                    st.s.swap(i, 8 + i);
                }
            }
            "movup" => {
                let n = imm_idx(&parts, 2, 15, None)?;
                let v = st.s.remove(n);
                st.s.insert(0, v);
            }
            "movdn" => {
                let n = imm_idx(&parts, 2, 15, None)?;
                let v = st.s.remove(0);
                st.s.insert(n, v);
            }
            "movupw" => {
                let n = imm_idx(&parts, 2, 3, None)?;
                let w: Vec<u64> = st.s.drain(4 * n..4 * n + 4).collect();
                for (i, v) in w.into_iter().enumerate() {
                    st.s.insert(i, v);
                }
            }
            "movdnw" => {
                let n = imm_idx(&parts, 2, 3, None)?;
                let w: Vec<u64> = st.s.drain(0..4).collect();
                for (i, v) in w.into_iter().enumerate() {
                    st.s.insert(4 * n + i, v);
                }
            }
            "cswap" | "cdrop" => {
                no_params(&parts)?;
                let c = st.pop();
                let b = st.pop();
                let a = st.pop();
                if c > 1 {
                    return Err(Fail::NotBinary);
                }
                // d (deeper) = a if c = 0 else b ; e (top) = b if c = 0 else a
                let (d, e) = if c == 0 { (a, b) } else { (b, a) };
                st.push(d);
                if name == "cswap" {
                    st.push(e);
                }
            }
            "cswapw" | "cdropw" => {
                no_params(&parts)?;
                let c = st.pop();
                let b = st.popw();
                let a = st.popw();
                if c > 1 {
                    return Err(Fail::NotBinary);
                }
                let (d, e) = if c == 0 { (a, b) } else { (b, a) };
                st.pushw(d);
                if name == "cswapw" {
                    st.pushw(e);
                }
            }
            // ---------------------------------------------------------------- constants / env
            "push" => {
                if parts.len() == 1 || parts.len() > 17 {
                    return Err(Fail::Asm);
                }
                if parts.len() == 2 && parts[1].starts_with("0x") && parts[1].len() > 18 {
                    // long hex string: a full word, 4 little-endian 8-byte chunks
                    let h = &parts[1][2..];
                    if h.len() != 64 || !h.bytes().all(|c| c.is_ascii_hexdigit()) {
                        return Err(Fail::Asm);
                    }
                    let mut vals = vec![];
                    for i in 0..4 {
                        let chunk = &h[16 * i..16 * i + 16];
                        let mut v: u64 = 0;
                        for j in 0..8 {
                            let byte = u64::from_str_radix(&chunk[2 * j..2 * j + 2], 16).unwrap();
                            v |= byte << (8 * j);
                        }
                        if v >= P {
                            return Err(Fail::Asm);
                        }
                        vals.push(v);
                    }
                    for v in vals {
                        st.push(v);
                    }
                } else {
                    let mut vals = vec![];
                    for p in &parts[1..] {
                        vals.push(push_value(p)?);
                    }
                    for v in vals {
                        st.push(v);
                    }
                }
            }
            "sdepth" => {
                no_params(&parts)?;
                let d = st.s.len() as u64;
                st.push(d);
            }
            other => panic!("reference model: unknown instruction '{other}'"),
        }
        Ok(())
    }

    /// Run a whole program (whitespace separated instructions).  Assembly-time problems anywhere in
    /// the program win over run-time failures of earlier instructions.
    pub fn run(prog: &str, init_top_first: &[u64]) -> Result<Vec<u64>, Fail> {
        // pass 1: static (parameter) validation on a scratch stack, ignoring dynamic results
        for ins in prog.split_whitespace() {
            let mut scratch = St::new(&[]);
            match step(ins, &mut scratch) {
                Err(Fail::Asm) => return Err(Fail::Asm),
                // `div.0` / `u32div.0` are reported as Any by the first check in `step`
                Err(Fail::Any) if ins == "div.0" || ins.ends_with("div.0") || ins.ends_with("mod.0") => {
                    return Err(Fail::Any)
                }
                _ => {}
            }
        }
        let mut st = St::new(init_top_first);
        for ins in prog.split_whitespace() {
            step(ins, &mut st)?;
        }
        Ok(st.s)
    }
}

use reference::{Fail, P, U32};

// ================================================================================================
// REAL ASSEMBLER + PROCESSOR
// ================================================================================================

#[derive(Debug, Clone, PartialEq)]
enum Actual {
    Ok(Vec<u64>),
    Exec(Fail, String),
    Asm(String),
    Panic(String),
}

fn classify(e: ExecutionError) -> Actual {
    let s = format!("{e:?}");
    let k = match &e {
        ExecutionError::FailedAssertion { err_code, .. } => Fail::Assert(*err_code),
        ExecutionError::DivideByZero(_) => Fail::DivZero,
        ExecutionError::NotBinaryValue(_) => Fail::NotBinary,
        ExecutionError::NotU32Value(_, code) => Fail::NotU32(code.as_int() as u32),
        _ => Fail::Any,
    };
    Actual::Exec(k, s)
}

fn run_real(prelude: &str, prog: &str, init_top_first: &[u64], full_trace: bool) -> Actual {
    let src = format!("{prelude}begin {prog} end");
    QUIET.store(true, Ordering::SeqCst);
    let r = catch_unwind(AssertUnwindSafe(|| {
        let program = match Assembler::default().compile(&src) {
            Ok(p) => p,
            Err(e) => return Actual::Asm(e.to_string()),
        };
        // StackInputs::new takes the values bottom first
        let vals: Vec<Felt> = init_top_first.iter().rev().map(|&v| Felt::new(v)).collect();
        let inputs = StackInputs::new(vals);
        let _ = full_trace;
        match miden_processor::execute(
            &program,
            inputs,
            DefaultHost::default(),
            ExecutionOptions::default(),
        ) {
            // observe the result at ExecutionTrace::stack_outputs(): the complete stack
            Ok(trace) => Actual::Ok(trace.stack_outputs().stack().to_vec()),
            Err(e) => classify(e),
        }
    }));
    QUIET.store(false, Ordering::SeqCst);
    match r {
        Ok(a) => a,
        Err(p) => {
            let msg = if let Some(s) = p.downcast_ref::<String>() {
                s.clone()
            } else if let Some(s) = p.downcast_ref::<&str>() {
                s.to_string()
            } else {
                "panic".to_string()
            };
            Actual::Panic(msg)
        }
    }
}

fn agrees(exp: &Result<Vec<u64>, Fail>, act: &Actual) -> bool {
    match (exp, act) {
        (Ok(e), Actual::Ok(a)) => e == a,
        (Err(Fail::Asm), Actual::Asm(_)) => true,
        (Err(Fail::Any), Actual::Asm(_)) | (Err(Fail::Any), Actual::Exec(..)) => true,
        (Err(k), Actual::Exec(ak, _)) => k == ak,
        _ => false,
    }
}

// ================================================================================================
// TEST DRIVER
// ================================================================================================

struct Rng(u64);
impl Rng {
    fn next(&mut self) -> u64 {
        // splitmix64
        self.0 = self.0.wrapping_add(0x9E3779B97F4A7C15);
        let mut z = self.0;
        z = (z ^ (z >> 30)).wrapping_mul(0xBF58476D1CE4E5B9);
        z = (z ^ (z >> 27)).wrapping_mul(0x94D049BB133111EB);
        z ^ (z >> 31)
    }
    fn below(&mut self, n: u64) -> u64 {
        self.next() % n
    }
    fn pick<'a, T>(&mut self, xs: &'a [T]) -> &'a T {
        &xs[self.below(xs.len() as u64) as usize]
    }
}

struct Driver {
    full_trace: bool,
    total: usize,
    skipped: usize,
    failed: usize,
    known_d1: usize,
    printed: usize,
    per_group: BTreeMap<String, (usize, usize)>, // group -> (cases, failures)
    group_order: Vec<String>,
    failing_instrs: BTreeMap<String, usize>,
}

impl Driver {
    fn check(&mut self, group: &str, prog: &str, init: &[u64]) {
        self.check_consts(group, &[], prog, init)
    }

    /// Like `check`, but the program is preceded by constant declarations `const.NAME=value`
    /// (value given as source text, decimal or hex); `prog` may use the names as immediates of
    /// `push` and as assertion error codes.  The reference model just substitutes the values.
    fn check_consts(&mut self, group: &str, consts: &[(&str, String, u64)], prog_src: &str, init: &[u64]) {
        let mut prelude = String::new();
        let mut prog_ref = String::new();
        for (name, text, _) in consts {
            prelude.push_str(&format!("const.{name}={text}\n"));
        }
        for ins in prog_src.split_whitespace() {
            let mut parts: Vec<String> = ins.split('.').map(String::from).collect();
            for part in parts.iter_mut().skip(1) {
                for (name, _, value) in consts {
                    if part == name {
                        *part = value.to_string();
                    } else if *part == format!("err={name}") {
                        *part = format!("err={value}");
                    }
                }
            }
            prog_ref.push_str(&parts.join("."));
            prog_ref.push(' ');
        }
        let prog_ref = prog_ref.trim_end();
        let prog = &format!("{}begin {} end", prelude.replace('\n', " "), prog_src);
        let exp = reference::run(prog_ref, init);
        if exp == Err(Fail::Undefined) {
            self.skipped += 1;
            return;
        }
        let act = run_real(&prelude, prog_src, init, self.full_trace);
        self.total += 1;
        if !self.per_group.contains_key(group) {
            self.group_order.push(group.to_string());
        }
        let e = self.per_group.entry(group.to_string()).or_insert((0, 0));
        e.0 += 1;
        if !agrees(&exp, &act) {
            // pre-existing deviation D1 of the unchanged code base (see reference::MODEL_D1)
            if false && prog.split_whitespace().any(|i| i == "mul.0" || i == "exp.0") {
                reference::MODEL_D1.with(|f| f.set(true));
                let exp_d1 = reference::run(prog_ref, init);
                reference::MODEL_D1.with(|f| f.set(false));
                if agrees(&exp_d1, &act) {
                    self.known_d1 += 1;
                    return;
                }
            }
            e.1 += 1;
            self.failed += 1;
            if !self.failing_instrs.contains_key(prog) && self.failing_instrs.len() < 12 {
                println!("FAILCASE [{group}] {prog} :: init(top first)={:?} :: expected={:?} :: actual={:?}", init, exp, act);
            }
            *self.failing_instrs.entry(prog.to_string()).or_insert(0) += 1;
            if self.printed < 40 {
                self.printed += 1;
                println!("FAIL [{group}] program: {prog}");
                println!("     initial stack (top first, depth {}): {:?}", init.len(), init);
                println!("     expected: {exp:?}");
                println!("     actual:   {act:?}");
            }
        }
    }
}

// boundary values ---------------------------------------------------------------------------------
fn f8() -> Vec<u64> {
    vec![0, 1, 2, 1 << 16, 1 << 31, U32 - 1, U32, P - 1]
}
fn fx() -> Vec<u64> {
    let mut v = f8();
    v.extend([3, U32 + 1, 1 << 63, P - 2, 0x0123_4567_89ab_cdef, 63, 64]);
    v
}
fn u8v() -> Vec<u64> {
    vec![0, 1, 2, 1 << 16, 1 << 31, U32 - 1, 0xAAAA_AAAA, 12345]
}
fn ux() -> Vec<u64> {
    let mut v = u8v();
    v.extend([3, 31, 32, 0x8000_0001, 0x7FFF_FFFF, 0xFFFF_0000, 0x0000_FFFF, 65535]);
    v
}

fn filler(rng: &mut Rng) -> u64 {
    // mostly "random" felts, sometimes boundary values
    match rng.below(8) {
        0 => *rng.pick(&f8()),
        _ => rng.next() % P,
    }
}

/// Builds an initial stack of `depth` elements whose top elements are `ops` (top first).
fn make_init(ops: &[u64], depth: usize, rng: &mut Rng) -> Vec<u64> {
    let mut v: Vec<u64> = ops.to_vec();
    while v.len() < depth {
        v.push(filler(rng));
    }
    v.truncate(depth);
    v
}

/// cartesian product of operand domains (top operand first)
fn product(doms: &[Vec<u64>]) -> Vec<Vec<u64>> {
    let mut out: Vec<Vec<u64>> = vec![vec![]];
    for d in doms {
        let mut next = vec![];
        for prefix in &out {
            for &v in d {
                let mut p = prefix.clone();
                p.push(v);
                next.push(p);
            }
        }
        out = next;
    }
    out
}

/// Runs `instr` on all operand combinations (depth varies per combination) and additionally on
/// all depths 0..=40 for a couple of operand combinations.
fn sweep(d: &mut Driver, rng: &mut Rng, group: &str, instr: &str, doms: &[Vec<u64>]) {
    let combos = product(doms);
    let k = doms.len();
    for (i, ops) in combos.iter().enumerate() {
        let depth = k + (i * 7 + 3) % (41 - k);
        let init = make_init(ops, depth, rng);
        d.check(group, instr, &init);
    }
    // all depths, two operand choices
    for pickidx in [combos.len() / 3, combos.len() - 1] {
        let ops = &combos[pickidx.min(combos.len() - 1)];
        for depth in 0..=40 {
            let init = make_init(ops, depth, rng);
            d.check(group, instr, &init);
        }
    }
}

fn main() {
    let args: Vec<String> = std::env::args().collect();
    let full_trace = args.iter().any(|a| a == "--trace");
    let default_hook = std::panic::take_hook();
    std::panic::set_hook(Box::new(move |info| {
        if !QUIET.load(Ordering::SeqCst) {
            default_hook(info);
        }
    }));

    // `c05-demo --one "<instr> <instr> ..." [v_top v_2 ...]` runs a single program
    if let Some(i) = args.iter().position(|a| a == "--one") {
        let prog = &args[i + 1];
        let init: Vec<u64> = args[i + 2..].iter().map(|v| v.parse().expect("u64 stack value")).collect();
        println!("program:  begin {prog} end");
        println!("initial stack (top first, depth {}): {:?}", init.len(), init);
        println!("expected: {:?}", reference::run(prog, &init));
        println!("actual:   {:?}", run_real("", prog, &init, full_trace));
        return;
    }

    let mut d = Driver {
        full_trace,
        total: 0,
        skipped: 0,
        failed: 0,
        known_d1: 0,
        printed: 0,
        per_group: BTreeMap::new(),
        group_order: vec![],
        failing_instrs: BTreeMap::new(),
    };
    let mut rng = Rng(0xC05);

    // --------------------------------------------------------------------------------------------
    // 1. assertions
    // --------------------------------------------------------------------------------------------
    for suffix in ["", ".err=0", ".err=1", ".err=123", ".err=4294967295"] {
        sweep(&mut d, &mut rng, "assert", &format!("assert{suffix}"), &[fx()]);
        sweep(&mut d, &mut rng, "assert", &format!("assertz{suffix}"), &[fx()]);
        sweep(&mut d, &mut rng, "assert", &format!("assert_eq{suffix}"), &[f8(), f8()]);
        // assert_eqw: equal words and words differing in exactly one position
        let w = [P - 1, U32, 1, 0];
        let ins = format!("assert_eqw{suffix}");
        for pos in 0..9 {
            let mut ops: Vec<u64> = w.iter().chain(w.iter()).cloned().collect();
            if pos < 8 {
                ops[pos] = fx()[(pos * 3 + 2) % 15];
            }
            for depth in [0, 3, 8, 9, 16, 17, 24, 40] {
                let init = make_init(&ops, depth, &mut rng);
                d.check("assert", &ins, &init);
            }
        }
    }
    for bad in ["assert.err=4294967296", "assert.err", "assert.1", "assert_eq.err=1.err=2"] {
        d.check("assert", bad, &[1, 1, 1]);
    }

    // --------------------------------------------------------------------------------------------
    // 2. field arithmetic
    // --------------------------------------------------------------------------------------------
    for op in ["add", "sub", "mul", "div"] {
        sweep(&mut d, &mut rng, "field", op, &[fx(), fx()]);
        for imm in fx() {
            sweep(&mut d, &mut rng, "field-imm", &format!("{op}.{imm}"), &[fx()]);
        }
        // immediates which are not field elements
        d.check("field-imm", &format!("{op}.{P}"), &[5, 6]);
        d.check("field-imm", &format!("{op}.18446744073709551615"), &[5, 6]);
    }
    for op in ["neg", "inv", "not", "is_odd", "ilog2"] {
        let mut dom = fx();
        dom.extend([4, 5, 255, 256, 65535, 65537, (1 << 31) - 1, (1 << 31) + 1, U32 + 5, (1 << 63) - 1, (1 << 63) + 1]);
        sweep(&mut d, &mut rng, "field", op, &[dom]);
    }
    {
        let dom: Vec<u64> = (0..=66).chain([127, 128, 255, 256, 1 << 16, U32 - 1, U32, P - 1]).collect();
        sweep(&mut d, &mut rng, "field", "pow2", &[dom]);
    }
    sweep(&mut d, &mut rng, "field", "exp", &[fx(), fx()]);
    for bits in [0u64, 1, 2, 7, 8, 16, 17, 31, 32, 33, 62] {
        let mut exps = vec![0u64, 1, 2, 3];
        if bits > 0 {
            exps.push((1u64 << bits) - 1);
            exps.push(1u64 << (bits - 1));
        }
        exps.push(1u64 << bits);
        exps.push((1u64 << bits) + 1);
        exps.push(P - 1);
        sweep(&mut d, &mut rng, "field-imm", &format!("exp.u{bits}"), &[exps, f8()]);
    }
    d.check("field-imm", "exp.u65", &[3, 2]);
    {
        // exp.b for every small b, every power of two +-1, and the boundary values
        let mut imms: Vec<u64> = (0..=40).collect();
        for k in 5..64 {
            imms.extend([(1u64 << k) - 1, 1u64 << k, (1u64 << k) + 1]);
        }
        imms.extend([U32 - 1, U32, U32 + 1, P - 2, P - 1, 1000, 1021, 0x0123_4567_89ab_cdef]);
        imms.sort();
        imms.dedup();
        for imm in imms {
            if imm >= P {
                continue;
            }
            let ins = format!("exp.{imm}");
            for (i, a) in fx().into_iter().enumerate() {
                let depth = 1 + (i * 5 + (imm % 37) as usize) % 40;
                let init = make_init(&[a], depth, &mut rng);
                d.check("field-imm", &ins, &init);
            }
        }
    }
    for op in ["and", "or", "xor"] {
        sweep(&mut d, &mut rng, "field", op, &[fx(), fx()]);
    }

    // --------------------------------------------------------------------------------------------
    // 3. comparisons
    // --------------------------------------------------------------------------------------------
    {
        let mut dom = fx();
        dom.extend([U32 - 2, U32 + 2, (1 << 33) + 1, (1 << 33), (5 << 32) + 7, (5 << 32) + 8, (6 << 32) + 7, P - 3]);
        for op in ["eq", "neq", "lt", "lte", "gt", "gte"] {
            sweep(&mut d, &mut rng, "cmp", op, &[dom.clone(), dom.clone()]);
        }
        for op in ["eq", "neq"] {
            for imm in fx() {
                sweep(&mut d, &mut rng, "cmp-imm", &format!("{op}.{imm}"), &[fx()]);
            }
            d.check("cmp-imm", &format!("{op}.{P}"), &[5, 6]);
        }
    }
    {
        let w = [P - 1, U32, 1, 0];
        for pos in 0..9 {
            let mut ops: Vec<u64> = w.iter().chain(w.iter()).cloned().collect();
            if pos < 8 {
                ops[pos] = fx()[(pos * 5 + 1) % 15];
            }
            for depth in 0..=40 {
                let init = make_init(&ops, depth, &mut rng);
                d.check("cmp", "eqw", &init);
            }
        }
    }

    // --------------------------------------------------------------------------------------------
    // 4. extension field
    // --------------------------------------------------------------------------------------------
    {
        let e = vec![0, 1, 2, U32, P - 1, 0x0123_4567_89ab_cdef];
        for op in ["ext2add", "ext2sub", "ext2mul", "ext2div"] {
            sweep(&mut d, &mut rng, "ext2", op, &[e.clone(), e.clone(), e.clone(), e.clone()]);
        }
        for op in ["ext2neg", "ext2inv"] {
            sweep(&mut d, &mut rng, "ext2", op, &[fx(), fx()]);
        }
    }

    // --------------------------------------------------------------------------------------------
    // 5. u32 operations
    // --------------------------------------------------------------------------------------------
    for op in ["u32test", "u32cast", "u32split"] {
        let mut dom = fx();
        dom.extend([U32 + 2, (1 << 33) - 1, (7 << 32) + 9, P - 3]);
        sweep(&mut d, &mut rng, "u32-conv", op, &[dom]);
    }
    for suffix in ["", ".err=0", ".err=7", ".err=4294967295"] {
        sweep(&mut d, &mut rng, "u32-conv", &format!("u32assert{suffix}"), &[fx()]);
        sweep(&mut d, &mut rng, "u32-conv", &format!("u32assert2{suffix}"), &[f8(), f8()]);
        let bad = [U32, P - 1, U32 + 1, 1 << 63];
        for mask in 0..16usize {
            let ops: Vec<u64> =
                (0..4).map(|i| if mask >> i & 1 == 1 { bad[(i + mask) % 4] } else { u8v()[(i + mask) % 8] }).collect();
            for depth in [0, 1, 2, 3, 4, 5, 16, 17, 33, 40] {
                let init = make_init(&ops, depth, &mut rng);
                d.check("u32-conv", &format!("u32assertw{suffix}"), &init);
                if suffix.is_empty() {
                    d.check("u32-conv", "u32testw", &init);
                }
            }
        }
    }
    for op in ["u32overflowing_add", "u32wrapping_add", "u32overflowing_sub", "u32wrapping_sub", "u32overflowing_mul", "u32wrapping_mul"] {
        sweep(&mut d, &mut rng, "u32-arith", op, &[ux(), ux()]);
        for imm in ux() {
            sweep(&mut d, &mut rng, "u32-arith-imm", &format!("{op}.{imm}"), &[ux()]);
        }
        d.check("u32-arith-imm", &format!("{op}.4294967296"), &[5, 6]);
    }
    for op in ["u32overflowing_add3", "u32wrapping_add3", "u32overflowing_madd", "u32wrapping_madd"] {
        sweep(&mut d, &mut rng, "u32-arith", op, &[u8v(), u8v(), u8v()]);
    }
    for op in ["u32div", "u32mod", "u32divmod"] {
        sweep(&mut d, &mut rng, "u32-arith", op, &[ux(), ux()]);
        for imm in ux() {
            sweep(&mut d, &mut rng, "u32-arith-imm", &format!("{op}.{imm}"), &[ux()]);
        }
        d.check("u32-arith-imm", &format!("{op}.4294967296"), &[5, 6]);
    }
    for op in ["u32and", "u32or", "u32xor"] {
        let mut dom = ux();
        dom.extend([U32, P - 1, U32 + 1]);
        sweep(&mut d, &mut rng, "u32-bit", op, &[dom.clone(), dom]);
    }
    {
        let mut dom = ux();
        dom.extend([U32, P - 1, U32 + 1, 1 << 63]);
        sweep(&mut d, &mut rng, "u32-bit", "u32not", &[dom]);
    }
    for op in ["u32shl", "u32shr", "u32rotl", "u32rotr"] {
        let sh: Vec<u64> = (0..32).collect();
        sweep(&mut d, &mut rng, "u32-bit", op, &[sh, ux()]);
        for b in 0..32 {
            sweep(&mut d, &mut rng, "u32-bit-imm", &format!("{op}.{b}"), &[ux()]);
        }
    }
    for op in ["u32popcnt", "u32clz", "u32ctz", "u32clo", "u32cto"] {
        let mut dom = ux();
        for k in 0..32 {
            dom.extend([1u64 << k, (1u64 << k) - 1, U32 - (1u64 << k), (U32 - 1) ^ (1u64 << k)]);
        }
        dom.sort();
        dom.dedup();
        sweep(&mut d, &mut rng, "u32-bit", op, &[dom]);
    }
    for op in ["u32lt", "u32lte", "u32gt", "u32gte", "u32min", "u32max"] {
        sweep(&mut d, &mut rng, "u32-cmp", op, &[ux(), ux()]);
    }

    // --------------------------------------------------------------------------------------------
    // 6. stack manipulation (every parameter form, every depth 0..40)
    // --------------------------------------------------------------------------------------------
    {
        let mut forms: Vec<String> = vec!["drop", "dropw", "padw", "dup", "dupw", "swap", "swapw", "swapdw"]
            .into_iter()
            .map(String::from)
            .collect();
        for n in 0..=15 {
            forms.push(format!("dup.{n}"));
        }
        for n in 0..=3 {
            forms.push(format!("dupw.{n}"));
        }
        for n in 1..=15 {
            forms.push(format!("swap.{n}"));
        }
        for n in 1..=3 {
            forms.push(format!("swapw.{n}"));
        }
        for n in 2..=15 {
            forms.push(format!("movup.{n}"));
            forms.push(format!("movdn.{n}"));
        }
        for n in 2..=3 {
            forms.push(format!("movupw.{n}"));
            forms.push(format!("movdnw.{n}"));
        }
        for f in &forms {
            for depth in 0..=40 {
                for _ in 0..2 {
                    let init = make_init(&[], depth, &mut rng);
                    d.check("stack", f, &init);
                }
            }
        }
        // invalid parameters must be rejected
        for bad in [
            "dup.16", "dupw.4", "swap.0", "swap.16", "swapw.0", "swapw.4", "movup.0", "movup.1", "movup.16", "movdn.0",
            "movdn.1", "movdn.16", "movupw.0", "movupw.1", "movupw.4", "movdnw.0", "movdnw.1", "movdnw.4", "movup",
            "movdn", "movupw", "movdnw", "drop.1", "swapdw.1", "dup.1.2",
        ] {
            d.check("stack", bad, &make_init(&[], 20, &mut rng));
        }
        for op in ["cswap", "cdrop"] {
            sweep(&mut d, &mut rng, "stack-cond", op, &[fx(), f8(), f8()]);
        }
        for op in ["cswapw", "cdropw"] {
            for c in fx() {
                for depth in 0..=40 {
                    let mut ops = vec![c];
                    for _ in 0..8 {
                        ops.push(filler(&mut rng));
                    }
                    let init = make_init(&ops, depth, &mut rng);
                    d.check("stack-cond", op, &init);
                }
            }
        }
    }

    // --------------------------------------------------------------------------------------------
    // 7. constant pushes / sdepth
    // --------------------------------------------------------------------------------------------
    {
        let mut vals = fx();
        vals.extend([255, 256, 65535, 65537, U32 - 2, U32 + 2, P - 3]);
        // single values, decimal and hex (big-endian, all even lengths that can hold the value)
        for &v in &vals {
            for depth in [0, 1, 15, 16, 17, 40] {
                let init = make_init(&[], depth, &mut rng);
                d.check("push", &format!("push.{v}"), &init);
                for width in [2usize, 4, 6, 8, 10, 12, 14, 16] {
                    if width < 16 && v >> (4 * width) != 0 {
                        continue;
                    }
                    d.check("push", &format!("push.0x{v:0width$x}"), &init);
                    d.check("push", &format!("push.0x{v:0width$X}"), &init);
                }
            }
        }
        // lists of 2..16 values: every "type class" boundary as the maximum, in every position
        let maxes = [0u64, 1, 2, 255, 256, 65535, 65536, U32 - 1, U32, U32 + 1, P - 1];
        for n in 2..=16usize {
            for (mi, &m) in maxes.iter().enumerate() {
                for pos in [0, n / 2, n - 1] {
                    let mut list: Vec<u64> = (0..n).map(|i| if m == 0 { 0 } else { (i as u64 * 37 + 1) % (m + 1).max(1) }).collect();
                    list[pos] = m;
                    let depth = (n * 5 + mi * 3 + pos) % 41;
                    let init = make_init(&[], depth, &mut rng);
                    let dec: Vec<String> = list.iter().map(|v| v.to_string()).collect();
                    d.check("push", &format!("push.{}", dec.join(".")), &init);
                    let hex: Vec<String> = list.iter().map(|v| format!("0x{v:016x}")).collect();
                    d.check("push", &format!("push.{}", hex.join(".")), &init);
                    let mixed: Vec<String> =
                        list.iter().enumerate().map(|(i, v)| if i % 2 == 0 { v.to_string() } else { format!("0x{v:08x}") }).collect();
                    if list.iter().all(|&v| v < U32) {
                        d.check("push", &format!("push.{}", mixed.join(".")), &init);
                    }
                }
            }
        }
        // long (little-endian) hex words
        for word in [
            [0x1234u64, 0x5678, 0x9012, 0xabcd],
            [0, 1, 2, 3],
            [P - 1, U32, U32 - 1, 1 << 16],
            [1 << 63, 0x0123_4567_89ab_cdef, 255, 256],
            [P, 0, 0, 0],
            [0, 0, 0, u64::MAX],
        ] {
            let mut s = String::from("push.0x");
            for v in word {
                for b in v.to_le_bytes() {
                    s.push_str(&format!("{b:02x}"));
                }
            }
            for depth in [0, 13, 16, 29, 40] {
                d.check("push", &s, &make_init(&[], depth, &mut rng));
            }
        }
        d.check("push", "push.0x341200000000000078560000000000001290000000000000cdab000000000000", &[7, 8]);
        for bad in [
            "push", "push.18446744069414584321", "push.0xffffffff00000001", "push.1.18446744069414584321",
            "push.1.2.3.4.5.6.7.8.9.10.11.12.13.14.15.16.17", "push.0x1.0x", "push.-1", "push.1.0xffffffff00000001",
            "push.0x3412000000000000785600000000000012900000000000",
        ] {
            d.check("push", bad, &[7, 8]);
        }
        for depth in 0..=40 {
            d.check("env", "sdepth", &make_init(&[], depth, &mut rng));
            d.check("env", "padw sdepth", &make_init(&[], depth, &mut rng));
            d.check("env", "drop sdepth", &make_init(&[], depth, &mut rng));
            d.check("env", "push.1.2.3 sdepth dropw dropw sdepth", &make_init(&[], depth, &mut rng));
        }
    }

    // --------------------------------------------------------------------------------------------
    // 7b. named constants as immediates (push, assertion error codes)
    // --------------------------------------------------------------------------------------------
    {
        let cvals = [0u64, 1, 2, 255, 256, 65535, 65536, U32 - 1, U32, U32 + 1, P - 1];
        for (i, &v) in cvals.iter().enumerate() {
            for (j, &w) in cvals.iter().enumerate() {
                let consts = [("A", v.to_string(), v), ("B_2", format!("0x{w:016x}"), w)];
                let depth = (i * 11 + j * 3) % 41;
                let init = make_init(&[], depth, &mut rng);
                d.check_consts("const", &consts, "push.A", &init);
                d.check_consts("const", &consts, "push.B_2", &init);
                d.check_consts("const", &consts, "push.A.B_2", &init);
                d.check_consts("const", &consts, "push.B_2.7.A", &init);
                d.check_consts("const", &consts, "push.3.A.0x0a.B_2.B_2.70000.A", &init);
                d.check_consts("const", &consts, "push.A.A.A.A push.B_2.B_2.B_2.B_2 dropw push.A", &init);
            }
            if v < U32 {
                let consts = [("ERR", v.to_string(), v)];
                for top in [0u64, 1, 2] {
                    let init = make_init(&[top, top, 5, 5, top, 5, 5, 5, 5], 9 + i, &mut rng);
                    for op in ["assert", "assertz", "assert_eq", "assert_eqw", "u32assert", "u32assert2", "u32assertw"] {
                        d.check_consts("const", &consts, &format!("{op}.err=ERR"), &init);
                    }
                }
                let init = make_init(&[U32, P - 1], 20, &mut rng);
                for op in ["u32assert", "u32assert2", "u32assertw"] {
                    d.check_consts("const", &consts, &format!("{op}.err=ERR"), &init);
                }
            }
        }
    }

    // --------------------------------------------------------------------------------------------
    // 8. sequences: LIFO behaviour of the overflow table and random instruction sequences
    // --------------------------------------------------------------------------------------------
    for depth in 0..=40 {
        for n in [1usize, 2, 15, 16, 17, 30] {
            let init = make_init(&[], depth, &mut rng);
            let mut prog = String::new();
            let mut left = n;
            let mut next = 100u64;
            while left > 0 {
                let k = left.min(16);
                let vals: Vec<String> = (0..k).map(|i| (next + i as u64).to_string()).collect();
                next += k as u64;
                prog.push_str(&format!("push.{} ", vals.join(".")));
                left -= k;
            }
            let push_part = prog.clone();
            // push only
            d.check("seq-lifo", &push_part, &init);
            // push, shuffle the top, drop everything again (+ a few more)
            for mid in ["", "swap.15 movup.7 movdn.11", "swapdw dup.15 add", "movupw.3 swapw.2 cswapw"] {
                let mut p = format!("{push_part}{mid} ");
                for _ in 0..n {
                    p.push_str("drop ");
                }
                d.check("seq-lifo", &p, &init);
                p.push_str("dropw drop dropw ");
                d.check("seq-lifo", &p, &init);
            }
        }
    }
    {
        // random sequences over instructions whose result is defined for every operand
        let small_imms = [0u64, 1, 2, 3, 5, 8, 16, 1 << 16, 1 << 31, U32 - 1, U32, P - 1];
        for case in 0..6000 {
            let depth = (case % 41) as usize;
            let binaryish = case % 3 == 0;
            let mut init = make_init(&[], depth, &mut rng);
            if binaryish {
                for v in init.iter_mut() {
                    if rng.below(2) == 0 {
                        *v = rng.below(2);
                    }
                }
            }
            let len = 1 + rng.below(8) as usize;
            let mut prog: Vec<String> = vec![];
            for _ in 0..len {
                let choice = rng.below(46);
                let ins = match choice {
                    0 => format!("dup.{}", rng.below(16)),
                    1 => format!("swap.{}", 1 + rng.below(15)),
                    2 => format!("movup.{}", 2 + rng.below(14)),
                    3 => format!("movdn.{}", 2 + rng.below(14)),
                    4 => format!("dupw.{}", rng.below(4)),
                    5 => format!("swapw.{}", 1 + rng.below(3)),
                    6 => format!("movupw.{}", 2 + rng.below(2)),
                    7 => format!("movdnw.{}", 2 + rng.below(2)),
                    8 => "swapdw".into(),
                    9 => "drop".into(),
                    10 => "dropw".into(),
                    11 => "padw".into(),
                    12 => format!("push.{}", rng.pick(&small_imms)),
                    13 => format!("push.{}.{}.{}", rng.pick(&small_imms), rng.pick(&small_imms), rng.pick(&small_imms)),
                    14 => "add".into(),
                    15 => "sub".into(),
                    16 => "mul".into(),
                    17 => "neg".into(),
                    18 => format!("add.{}", rng.pick(&small_imms)),
                    19 => format!("sub.{}", rng.pick(&small_imms)),
                    20 => format!("mul.{}", rng.pick(&small_imms)),
                    21 => "eq".into(),
                    22 => "neq".into(),
                    23 => format!("eq.{}", rng.pick(&small_imms)),
                    24 => format!("neq.{}", rng.pick(&small_imms)),
                    25 => (*rng.pick(&["lt", "lte", "gt", "gte"])).into(),
                    26 => "is_odd".into(),
                    27 => "eqw".into(),
                    28 => "u32split".into(),
                    29 => "u32cast".into(),
                    30 => "u32test".into(),
                    31 => "u32testw".into(),
                    32 => "sdepth".into(),
                    33 => (*rng.pick(&["ext2add", "ext2sub", "ext2mul", "ext2neg"])).into(),
                    34 => format!("exp.{}", rng.pick(&small_imms)),
                    35 => (*rng.pick(&["cswap", "cdrop", "cswapw", "cdropw"])).into(),
                    36 => (*rng.pick(&["and", "or", "xor", "not"])).into(),
                    37 => (*rng.pick(&["inv", "div", "ext2inv", "ext2div"])).into(),
                    38 => (*rng.pick(&["u32and", "u32or", "u32xor", "u32not"])).into(),
                    39 => (*rng.pick(&["assert", "assertz", "assert_eq", "assert.err=9", "assertz.err=11"])).into(),
                    40 => (*rng.pick(&["u32assert", "u32assert2", "u32assertw", "u32assert2.err=5"])).into(),
                    41 => format!("div.{}", 1 + rng.pick(&small_imms) % (P - 1)),
                    42 => "pow2".into(),
                    43 => "ilog2".into(),
                    44 => "push.0 push.1".into(),
                    _ => "push.1".into(),
                };
                prog.push(ins);
            }
            d.check("seq-random", &prog.join(" "), &init);
        }
    }

    // --------------------------------------------------------------------------------------------
    // report
    // --------------------------------------------------------------------------------------------
    println!();
    println!("{:<16} {:>8} {:>8}", "group", "cases", "failed");
    for g in &d.group_order {
        let (c, f) = d.per_group[g];
        println!("{:<16} {:>8} {:>8}  {}", g, c, f, if f == 0 { "PASS" } else { "FAIL" });
    }
    println!();
    if !d.failing_instrs.is_empty() {
        println!("programs with at least one failing case ({}):", d.failing_instrs.len());
        for (p, n) in d.failing_instrs.iter().take(60) {
            println!("  {n:>4} x  {p}");
        }
        if d.failing_instrs.len() > 60 {
            println!("  ... and {} more", d.failing_instrs.len() - 60);
        }
        println!();
    }
    println!(
        "executed {} cases ({} skipped because the docs call the result undefined), {} disagreements",
        d.total, d.skipped, d.failed
    );
    if d.known_d1 > 0 {
        println!(
            "NOTE: {} cases only agree with the model of pre-existing deviation D1 (mul.0 / exp.0 on a \
             stack of depth <= 16 leave an extra 0 at the bottom: depth 17 instead of 16); not counted",
            d.known_d1
        );
    }
    println!("SUMMARY cases={} skipped={} disagreements={} failing_programs={}", d.total, d.skipped, d.failed, d.failing_instrs.len());
    if d.failed == 0 {
        println!("RESULT: PASS");
    } else {
        println!("RESULT: FAIL");
        std::process::exit(1);
    }
}
