//! provegrid
//! Bounded check of C01 (every successful execution is provable and its proof verifies, for each
//! standard option set, with the configured security level, also after a byte round trip) on trace
//! length regimes around the powers of two: straight-line programs of 50..70 and 118..132 cycles (the
//! exact-fit lengths 2^k - 1 included), a loop, deep outputs, a call; with argument `thorough` more
//! lengths and all four option sets on two of them (slow in a debug build).  Prints `FAIL <program> <options> <what>`, SUMMARY, exit 1 on failure.
use miden_vm::{execute, prove, verify, Assembler, DefaultHost, ExecutionProof, ProgramInfo, ProvingOptions, StackInputs};
use std::panic::{catch_unwind, AssertUnwindSafe};

fn main() {
    std::panic::set_hook(Box::new(|_| {}));
    let mut progs: Vec<(String, String, Vec<u64>)> = vec![];
    let thorough = std::env::args().nth(1).as_deref() == Some("thorough");
    let sizes: Vec<usize> = if thorough { (54..=66).chain(120..=128).collect() } else { vec![58, 59, 60, 61, 62, 124] };
    for n in sizes {
        progs.push((format!("swap-x{n}"), format!("begin {} end", "swap ".repeat(n)), vec![1, 2]));
    }
    progs.push(("loop".into(), "begin while.true push.0 drop push.0 drop push.1 sub dup neq.0 end end".into(), vec![1, 9]));
    progs.push(("deep-outputs".into(), "begin push.1 push.2 push.3 end".into(), (1..=16).collect()));
    progs.push(("call".into(), "proc.foo push.7 add end begin push.1 call.foo swap drop end".into(), vec![5]));
    // chiplet-dominated traces around a power of two: h hperm + m mem_load operations; one program per chiplets
    // length in 2^6 - 3 ..= 2^6 + 2 (and 2^7 - 3 ..= 2^7 + 2 with `thorough`), selected by executing the candidates
    {
        let mut seen = std::collections::BTreeSet::new();
        for h in 0..=14usize {
            for m in 0..=17usize {
                let src = format!("begin padw padw padw {} dropw dropw dropw {} end", "hperm ".repeat(h), (0..m).map(|i| format!("mem_load.{i} drop ")).collect::<String>());
                let Ok(program) = Assembler::default().compile(&src) else { continue };
                let Ok(trace) = execute(&program, StackInputs::default(), DefaultHost::default(), Default::default()) else { continue };
                let s = trace.trace_len_summary();
                // rows of the four chiplets (without the mandatory padding row)
                let cl = s.chiplets_trace_len();
                let c = cl.hash_chiplet_len() + cl.bitwise_chiplet_len() + cl.memory_chiplet_len() + cl.kernel_rom_len();
                if c < s.main_trace_len() || c < s.range_trace_len() { continue; }
                let near = |k: usize| c + 3 >= (1 << k) && c <= (1 << k) + 2;
                if (near(6) || (thorough && near(7))) && seen.insert(c) {
                    progs.push((format!("chiplets-{c}-hperm{h}-mem{m}"), src, vec![]));
                }
            }
        }
    }
    let presets: Vec<(&str, fn() -> ProvingOptions, u32)> = vec![
        ("96-regular", || ProvingOptions::with_96_bit_security(false), 96), ("96-recursive", || ProvingOptions::with_96_bit_security(true), 96),
        ("128-regular", || ProvingOptions::with_128_bit_security(false), 128), ("128-recursive", || ProvingOptions::with_128_bit_security(true), 128),
    ];
    let (mut total, mut fails) = (0u64, 0u64);
    for (idx, (name, src, ins)) in progs.iter().enumerate() {
        let program = Assembler::default().compile(src).unwrap();
        let mk = || { let mut v = ins.clone(); v.reverse(); StackInputs::try_from_values(v).unwrap() };
        let trace = match execute(&program, mk(), DefaultHost::default(), Default::default()) { Ok(t) => t, Err(_) => continue };
        let all = name == "swap-x60" || (thorough && name == "deep-outputs");   // every preset (hash function) on at least one program in the quick tier too
        let _ = idx;
        for (pname, mkopt, level) in presets.iter().take(if all { 4 } else { 1 }) {
            total += 1;
            let r = catch_unwind(AssertUnwindSafe(|| {
                let (outputs, proof) = prove(&program, mk(), DefaultHost::default(), mkopt()).map_err(|e| format!("prove error: {e}"))?;
                if &outputs != trace.stack_outputs() { return Err("prove() reports other outputs than execute()".to_string()); }
                let info: ProgramInfo = program.clone().into();
                let l1 = verify(info.clone(), mk(), outputs.clone(), proof.clone()).map_err(|e| format!("verify error: {e}"))?;
                let bytes = proof.to_bytes();
                let p2 = ExecutionProof::from_bytes(&bytes).map_err(|e| format!("from_bytes error: {e}"))?;
                let l2 = verify(info, mk(), outputs, p2).map_err(|e| format!("verify-after-roundtrip error: {e}"))?;
                if l1 < *level || l2 < *level { return Err(format!("reported security level {l1}/{l2} < configured {level}")); }
                Ok(())
            }));
            let what = match r { Ok(Ok(())) => None, Ok(Err(e)) => Some(e), Err(p) => Some(format!("panic: {}", p.downcast_ref::<String>().cloned().or_else(|| p.downcast_ref::<&str>().map(|s| s.to_string())).unwrap_or_default())) };
            if let Some(w) = what { fails += 1; if fails <= 8 { println!("FAIL {name} {pname} {w}"); } }
        }
    }
    println!("SUMMARY proofs={total} failures={fails}");
    std::process::exit(if fails > 0 { 1 } else { 0 });
}
