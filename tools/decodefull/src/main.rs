//! [adapted for /verif from the demo of the third C19 sub-agent: FAILCASE / SUMMARY lines added, failing inputs are not written to files]
//! C19 demo: decoders of untrusted bytes never panic and accept only what they can re-encode.
//!
//! A family of valid encodings is mutated systematically (single-byte changes, bit flips,
//! truncations, insertions / deletions, rewrites of every integer field) and every decoder is also
//! fed a few hundred thousand short pseudo-random strings. Every call runs under catch_unwind.
//! Every accepted value is re-serialised, decoded again and compared, and the accessors a user
//! would call next are exercised.
//!
//! Exit code: 0 = PASS, 1 = FAIL.

use std::cell::RefCell;
use std::collections::BTreeMap;
use std::panic::{self, AssertUnwindSafe};

use miden_assembly::{
    ast::{
        AdviceInjectorNode, AstSerdeOptions, CodeBody, Instruction, ModuleAst, ModuleImports, Node,
        ProcReExport, ProcedureAst, ProgramAst, SourceLocation,
    },
    Assembler, AssemblyContext, Library, LibraryNamespace, LibraryPath, MaslLibrary, Module,
    ProcedureId, ProcedureName, Version,
};
use miden_core::{
    crypto::hash::RpoDigest,
    utils::{ByteReader, Deserializable, DeserializationError, Serializable, SliceReader},
    DebugOptions, Felt, Kernel, ProgramInfo, SignatureKind, StackInputs, StackOutputs, StarkField,
    ToElements,
};
use miden_processor::AdviceInputs;

// PANIC CAPTURE
// ================================================================================================

thread_local! {
    static LAST_PANIC: RefCell<String> = RefCell::new(String::new());
    static CATCH_DEPTH: RefCell<u32> = RefCell::new(0);
}

fn install_hook() {
    panic::set_hook(Box::new(|info| {
        let msg = format!("{info}").replace('\n', " ");
        if CATCH_DEPTH.with(|d| *d.borrow()) == 0 {
            // a panic of the harness itself (e.g. a seed which is not accepted)
            eprintln!("harness error: {msg}");
        }
        LAST_PANIC.with(|m| *m.borrow_mut() = msg);
    }));
}

fn catch<R>(f: impl FnOnce() -> R) -> Result<R, String> {
    CATCH_DEPTH.with(|d| *d.borrow_mut() += 1);
    let result = panic::catch_unwind(AssertUnwindSafe(f));
    CATCH_DEPTH.with(|d| *d.borrow_mut() -= 1);
    match result {
        Ok(r) => Ok(r),
        Err(_) => {
            let mut msg = LAST_PANIC.with(|m| m.borrow().clone());
            if msg.len() > 300 {
                let mut cut = 300;
                while !msg.is_char_boundary(cut) {
                    cut -= 1;
                }
                msg.truncate(cut);
                msg.push_str("...");
            }
            Err(msg)
        }
    }
}

// TRACING READER (records the offset / width of every integer read by a decoder)
// ================================================================================================

struct Tracer<'a> {
    data: &'a [u8],
    pos: usize,
    fields: Vec<(usize, usize)>,
}

impl<'a> Tracer<'a> {
    fn new(data: &'a [u8]) -> Self {
        Self { data, pos: 0, fields: Vec::new() }
    }
}

impl<'a> ByteReader for Tracer<'a> {
    fn read_u8(&mut self) -> Result<u8, DeserializationError> {
        self.check_eor(1)?;
        self.fields.push((self.pos, 1));
        let v = self.data[self.pos];
        self.pos += 1;
        Ok(v)
    }
    fn peek_u8(&self) -> Result<u8, DeserializationError> {
        self.check_eor(1)?;
        Ok(self.data[self.pos])
    }
    fn read_slice(&mut self, len: usize) -> Result<&[u8], DeserializationError> {
        self.check_eor(len)?;
        let r = &self.data[self.pos..self.pos + len];
        self.pos += len;
        Ok(r)
    }
    fn read_array<const N: usize>(&mut self) -> Result<[u8; N], DeserializationError> {
        self.check_eor(N)?;
        let mut r = [0u8; N];
        r.copy_from_slice(&self.data[self.pos..self.pos + N]);
        self.pos += N;
        Ok(r)
    }
    fn check_eor(&self, num_bytes: usize) -> Result<(), DeserializationError> {
        match self.pos.checked_add(num_bytes) {
            Some(end) if end <= self.data.len() => Ok(()),
            _ => Err(DeserializationError::UnexpectedEOF),
        }
    }
    fn has_more_bytes(&self) -> bool {
        self.pos < self.data.len()
    }
    fn read_u16(&mut self) -> Result<u16, DeserializationError> {
        self.fields.push((self.pos, 2));
        Ok(u16::from_le_bytes(self.read_array::<2>()?))
    }
    fn read_u32(&mut self) -> Result<u32, DeserializationError> {
        self.fields.push((self.pos, 4));
        Ok(u32::from_le_bytes(self.read_array::<4>()?))
    }
    fn read_u64(&mut self) -> Result<u64, DeserializationError> {
        self.fields.push((self.pos, 8));
        Ok(u64::from_le_bytes(self.read_array::<8>()?))
    }
}

// CODECS
// ================================================================================================

trait Codec {
    type T;
    const NAME: &'static str;
    fn decode<R: ByteReader>(r: &mut R) -> Result<Self::T, DeserializationError>;
    fn encode(v: &Self::T) -> Vec<u8>;
    fn equal(a: &Self::T, b: &Self::T) -> bool;
    fn exercise(_v: &Self::T) {}
    /// Rendering of an accepted AST as source code. A panic here is reported separately and is not
    /// part of the verdict: `Display` of ProgramAst / ModuleAst panics in the UNCHANGED code when
    /// an instruction refers to a procedure which the AST does not know.
    fn display(_v: &Self::T) {}
    /// Inputs which are excluded because of a known behaviour of the unchanged code
    /// (winter-utils read_many reserves memory for an attacker-chosen u32 element count).
    fn skip(_bytes: &[u8]) -> bool {
        false
    }
}

const KNOWN_ASSEMBLER_PANIC: &str = "decorators in an empty SPAN block";

enum Outcome {
    Rejected,
    Accepted,
    AcceptedWithNote { problem: &'static str, detail: String },
    Skipped,
    Fail { stage: &'static str, detail: String },
}

fn run<C: Codec>(bytes: &[u8]) -> Outcome {
    if C::skip(bytes) {
        return Outcome::Skipped;
    }
    // 1. decode
    let v = match catch(|| C::decode(&mut SliceReader::new(bytes))) {
        Err(p) => return Outcome::Fail { stage: "decoder panicked", detail: p },
        Ok(Err(_)) => return Outcome::Rejected,
        Ok(Ok(v)) => v,
    };
    // 2. re-serialise the accepted value
    let enc = match catch(|| C::encode(&v)) {
        Err(p) => {
            return Outcome::Fail { stage: "serialiser panicked on an accepted value", detail: p }
        }
        Ok(b) => b,
    };
    // 3. decode the re-serialised bytes
    let v2 = match catch(|| C::decode(&mut SliceReader::new(&enc))) {
        Err(p) => {
            return Outcome::Fail { stage: "decoder panicked on re-serialised bytes", detail: p }
        }
        Ok(Err(e)) => {
            return Outcome::Fail {
                stage: "re-serialised bytes of an accepted value are rejected",
                detail: format!("{e}"),
            }
        }
        Ok(Ok(v2)) => v2,
    };
    // 4. compare
    match catch(|| C::equal(&v, &v2)) {
        Err(p) => return Outcome::Fail { stage: "comparison panicked", detail: p },
        Ok(false) => {
            return Outcome::Fail {
                stage: "accepted value does not re-serialise to an equal value",
                detail: String::new(),
            }
        }
        Ok(true) => {}
    }
    // 5. the encoding of the re-decoded value must be stable
    match catch(|| C::encode(&v2)) {
        Err(p) => {
            return Outcome::Fail { stage: "serialiser panicked on a re-decoded value", detail: p }
        }
        Ok(enc2) if enc2 != enc => {
            return Outcome::Fail {
                stage: "encoding of the re-decoded value is not stable",
                detail: String::new(),
            }
        }
        Ok(_) => {}
    }
    // 6. accessors a user would call next
    if let Err(p) = catch(|| C::exercise(&v)) {
        if p.contains(KNOWN_ASSEMBLER_PANIC) {
            // the assembler of the UNCHANGED code panics on a body which ends with decorator-only
            // instructions (also when the program is parsed from source, see main()); this has
            // nothing to do with decoding and is reported separately
            return Outcome::AcceptedWithNote {
                problem: "the assembler panicked on an accepted AST (also reachable from source code)",
                detail: p,
            };
        }
        return Outcome::Fail { stage: "accessor / assembler panicked on an accepted value", detail: p };
    }
    // 7. informational only
    if let Err(p) = catch(|| C::display(&v)) {
        return Outcome::AcceptedWithNote {
            problem: "Display (rendering as source) of an accepted AST panicked",
            detail: p,
        };
    }
    Outcome::Accepted
}

fn trace_fields<C: Codec>(bytes: &[u8]) -> Vec<(usize, usize)> {
    let mut t = Tracer::new(bytes);
    let r = C::decode(&mut t);
    assert!(r.is_ok(), "seed for {} does not decode with the tracing reader", C::NAME);
    let mut f = t.fields;
    f.sort();
    f.dedup();
    f
}

// ----- helpers used by `exercise` ----------------------------------------------------------------

/// Upper bound of the number of code blocks the assembler creates for a body. `repeat.N` is
/// unrolled by the assembler, so a decoded `repeat.4294967295` makes compile_ast run out of memory
/// (this is a resource problem of the unchanged code, not a panic; such ASTs are not compiled).
fn body_cost(nodes: &[Node]) -> u64 {
    let mut c = 0u64;
    for n in nodes {
        let k = match n {
            Node::Instruction(_) => 1,
            Node::IfElse { true_case, false_case } => 1u64
                .saturating_add(body_cost(true_case.nodes()))
                .saturating_add(body_cost(false_case.nodes())),
            Node::Repeat { times, body } => {
                (*times as u64).saturating_mul(1u64.saturating_add(body_cost(body.nodes()))).saturating_add(1)
            }
            Node::While { body } => 1u64.saturating_add(body_cost(body.nodes())),
        };
        c = c.saturating_add(k);
    }
    c
}

const MAX_COMPILE_COST: u64 = 20_000;

fn procs_cost(procs: &[ProcedureAst]) -> u64 {
    // local procedures are inlined at every exec site: bound the product as well
    let mut total = 0u64;
    for p in procs {
        total = total.saturating_add(body_cost(p.body.nodes()));
    }
    total.saturating_mul(1 + procs.len() as u64)
}

fn touch_path(p: &LibraryPath) {
    let n = p.num_components();
    assert!(n >= 1, "num_components() == 0");
    assert_eq!(p.components().count(), n, "num_components() disagrees with components() for {p}");
    let _ = p.first().len();
    let _ = p.last().len();
    let _ = p.path().len();
    let _ = p.is_kernel_path();
    let _ = p.is_exec_path();
    if let Ok(s) = p.strip_first() {
        assert_eq!(s.num_components(), n - 1);
        let _ = s.first().len();
    }
    if let Ok(s) = p.strip_last() {
        assert_eq!(s.num_components(), n - 1);
        let _ = s.last().len();
    }
    let _ = p.append("x1");
    let _ = p.prepend("y1");
    let _ = p.join(p);
    let _ = format!("{p}");
}

fn touch_imports(i: &ModuleImports) {
    let _ = i.len();
    let _ = i.is_empty();
    for p in i.import_paths() {
        touch_path(p);
        let _ = i.get_module_path(p.last());
    }
    for (id, name) in i.get_imported_procedures() {
        let _ = name.is_main();
        let _ = format!("{id} {name}");
        if let Some((n, p)) = i.get_procedure_info(&id) {
            let _ = n.len();
            touch_path(p);
        }
        let _ = i.get_procedure_name(&id);
        let _ = i.get_procedure_path(&id);
    }
}

fn touch_proc(p: &ProcedureAst) {
    let _ = p.name.is_main();
    let _ = format!("{}", p.name);
    let _ = p.docs.as_ref().map(|d| d.len());
    let _ = p.source_locations().count();
    let _ = p.body.nodes().len();
    let _ = p.body.has_locations();
    let _ = p.clone();
}

thread_local! {
    static BASE_LIBRARY: MaslLibrary = base_library(false);
}

fn base_assembler(debug: bool) -> Assembler {
    BASE_LIBRARY.with(|lib| {
        Assembler::default()
            .with_debug_mode(debug)
            .with_library(lib)
            .expect("base library must load")
    })
}

fn compile_module_with(asm: &Assembler, m: &ModuleAst, path: Option<&LibraryPath>) {
    let mut ctx = AssemblyContext::for_module(false);
    let _ = asm.compile_module(m, path, &mut ctx);
}

fn exercise_module(m: &ModuleAst) {
    let _ = m.docs().map(|d| d.len());
    touch_imports(m.import_info());
    let here = LibraryPath::new("fuzzed::module").unwrap();
    for r in m.reexported_procs() {
        let _ = format!("{} {}", r.proc_id(), r.name());
        let _ = r.docs().map(|d| d.len());
        let _ = r.get_alias_id(&here);
    }
    m.procs().iter().for_each(touch_proc);
    let _ = m.clone();
    if procs_cost(m.procs()) <= MAX_COMPILE_COST {
        for debug in [false, true] {
            compile_module_with(&base_assembler(debug), m, Some(&here));
            compile_module_with(&base_assembler(debug), m, None);
        }
    }
}

fn exercise_program(p: &ProgramAst) {
    touch_imports(p.import_info());
    p.procedures().iter().for_each(touch_proc);
    let _ = p.body().nodes().len();
    let _ = p.source_locations().count();
    let _ = p.clone();
    let cost = procs_cost(p.procedures())
        .saturating_add(body_cost(p.body().nodes()).saturating_mul(1 + p.procedures().len() as u64));
    if cost <= MAX_COMPILE_COST {
        for debug in [false, true] {
            let _ = base_assembler(debug).compile_ast(p);
        }
    }
}

fn locs_of_proc(p: &ProcedureAst) -> Vec<SourceLocation> {
    p.source_locations().copied().collect()
}

// ----- AST codecs ---------------------------------------------------------------------------------

struct ProgramAstC;
impl Codec for ProgramAstC {
    type T = ProgramAst;
    const NAME: &'static str = "ProgramAst::from_bytes";
    fn decode<R: ByteReader>(r: &mut R) -> Result<ProgramAst, DeserializationError> {
        ProgramAst::read_from(r)
    }
    fn encode(v: &ProgramAst) -> Vec<u8> {
        v.to_bytes(AstSerdeOptions::new(true))
    }
    fn equal(a: &ProgramAst, b: &ProgramAst) -> bool {
        a == b
    }
    fn exercise(v: &ProgramAst) {
        exercise_program(v)
    }
    fn display(v: &ProgramAst) {
        let _ = format!("{v}");
    }
}

struct ProgramAstLocC;
impl Codec for ProgramAstLocC {
    type T = ProgramAst;
    const NAME: &'static str = "ProgramAst::read_from + load_source_locations";
    fn decode<R: ByteReader>(r: &mut R) -> Result<ProgramAst, DeserializationError> {
        let mut p = ProgramAst::read_from(r)?;
        p.load_source_locations(r)?;
        Ok(p)
    }
    fn encode(v: &ProgramAst) -> Vec<u8> {
        let mut out = v.to_bytes(AstSerdeOptions::new(true));
        v.write_source_locations(&mut out);
        out
    }
    fn equal(a: &ProgramAst, b: &ProgramAst) -> bool {
        a == b
            && a.source_locations().eq(b.source_locations())
            && a.procedures().iter().map(locs_of_proc).eq(b.procedures().iter().map(locs_of_proc))
    }
    fn exercise(v: &ProgramAst) {
        exercise_program(v)
    }
    fn display(v: &ProgramAst) {
        let _ = format!("{v}");
    }
}

struct ModuleAstC;
impl Codec for ModuleAstC {
    type T = ModuleAst;
    const NAME: &'static str = "ModuleAst::from_bytes";
    fn decode<R: ByteReader>(r: &mut R) -> Result<ModuleAst, DeserializationError> {
        let options = AstSerdeOptions::read_from(r)?;
        ModuleAst::read_from(r, options)
    }
    fn encode(v: &ModuleAst) -> Vec<u8> {
        v.to_bytes(AstSerdeOptions::new(true))
    }
    fn equal(a: &ModuleAst, b: &ModuleAst) -> bool {
        a == b
    }
    fn exercise(v: &ModuleAst) {
        exercise_module(v)
    }
    fn display(v: &ModuleAst) {
        let _ = format!("{v}");
    }
}

struct ModuleAstLocC;
impl Codec for ModuleAstLocC {
    type T = ModuleAst;
    const NAME: &'static str = "ModuleAst::read_from + load_source_locations";
    fn decode<R: ByteReader>(r: &mut R) -> Result<ModuleAst, DeserializationError> {
        let options = AstSerdeOptions::read_from(r)?;
        let mut m = ModuleAst::read_from(r, options)?;
        m.load_source_locations(r)?;
        Ok(m)
    }
    fn encode(v: &ModuleAst) -> Vec<u8> {
        let mut out = v.to_bytes(AstSerdeOptions::new(true));
        v.write_source_locations(&mut out);
        out
    }
    fn equal(a: &ModuleAst, b: &ModuleAst) -> bool {
        a == b && a.procs().iter().map(locs_of_proc).eq(b.procs().iter().map(locs_of_proc))
    }
    fn exercise(v: &ModuleAst) {
        exercise_module(v)
    }
    fn display(v: &ModuleAst) {
        let _ = format!("{v}");
    }
}

macro_rules! simple_codec {
    ($c:ident, $t:ty, $name:expr, $ex:expr) => {
        struct $c;
        impl Codec for $c {
            type T = $t;
            const NAME: &'static str = $name;
            fn decode<R: ByteReader>(r: &mut R) -> Result<$t, DeserializationError> {
                <$t as Deserializable>::read_from(r)
            }
            fn encode(v: &$t) -> Vec<u8> {
                v.to_bytes()
            }
            fn equal(a: &$t, b: &$t) -> bool {
                a == b
            }
            fn exercise(v: &$t) {
                let f: fn(&$t) = $ex;
                f(v)
            }
        }
    };
}

simple_codec!(ProcedureAstC, ProcedureAst, "ProcedureAst::read_from", |p| {
    touch_proc(p);
    if let Ok(m) = ModuleAst::new(vec![p.clone()], vec![], None) {
        if procs_cost(m.procs()) <= MAX_COMPILE_COST {
            let here = LibraryPath::new("fuzzed::module").unwrap();
            compile_module_with(&base_assembler(true), &m, Some(&here));
        }
    }
});
simple_codec!(ProcReExportC, ProcReExport, "ProcReExport::read_from", |r| {
    let _ = format!("{} {}", r.proc_id(), r.name());
    let _ = r.docs().map(|d| d.len());
    let _ = r.get_alias_id(&LibraryPath::new("fuzzed::module").unwrap());
});
simple_codec!(ModuleImportsC, ModuleImports, "ModuleImports::read_from", |i| touch_imports(i));
simple_codec!(LibraryPathC, LibraryPath, "LibraryPath::read_from", |p| touch_path(p));
simple_codec!(LibraryNamespaceC, LibraryNamespace, "LibraryNamespace::read_from", |n| {
    let _ = n.as_str().len();
    let p = LibraryPath::new(n).expect("an accepted namespace must be a valid path");
    touch_path(&p);
});
simple_codec!(ProcedureNameC, ProcedureName, "ProcedureName::read_from", |n| {
    let _ = n.is_main();
    let _ = format!("{n}");
    let _ = ProcedureId::from_name(n, &LibraryPath::new("a::b").unwrap());
});
simple_codec!(ProcedureIdC, ProcedureId, "ProcedureId::read_from", |i| {
    let _ = format!("{i}");
});
simple_codec!(VersionC, Version, "Version::read_from", |v| {
    let _ = format!("{v}");
    let _ = v.cmp_patch(&Version::MIN);
});
simple_codec!(NodeC, Node, "Node::read_from", |n| {
    let _ = n.clone();
});
simple_codec!(InstructionC, Instruction, "Instruction::read_from", |i| {
    let _ = format!("{i}");
});
simple_codec!(AdviceInjectorC, AdviceInjectorNode, "AdviceInjectorNode::read_from", |i| {
    let _ = format!("{i}");
    let _: miden_core::AdviceInjector = i.into();
});
simple_codec!(MaslLibraryC, MaslLibrary, "MaslLibrary::read_from", |lib| {
    let ns = lib.root_ns().clone();
    let _ = format!("{}", lib.version());
    for d in lib.dependencies() {
        let _ = d.as_str().len();
    }
    let mut cost = 0u64;
    for m in lib.modules() {
        touch_path(&m.path);
        assert!(m.check_namespace(&ns).is_ok(), "module outside of the library namespace");
        assert!(lib.get_module_ast(&m.path).is_some());
        let _ = m.ast.docs().map(|d| d.len());
        touch_imports(m.ast.import_info());
        m.ast.procs().iter().for_each(touch_proc);
        for r in m.ast.reexported_procs() {
            let _ = r.get_alias_id(&m.path);
        }
        cost = cost.saturating_add(procs_cost(m.ast.procs()));
    }
    let mut copy = lib.clone();
    copy.clear_locations();
    for debug in [false, true] {
        let asm = match Assembler::default().with_debug_mode(debug).with_library(lib) {
            Ok(asm) => asm,
            Err(_) => continue,
        };
        if cost <= MAX_COMPILE_COST {
            for m in lib.modules() {
                compile_module_with(&asm, &m.ast, Some(&m.path));
            }
        }
    }
});
simple_codec!(KernelC, Kernel, "Kernel::read_from", |k| {
    let _ = k.is_empty();
    for h in k.proc_hashes() {
        assert!(k.contains_proc(*h));
    }
});
simple_codec!(ProgramInfoC, ProgramInfo, "ProgramInfo::read_from", |i| {
    let _ = i.program_hash();
    let _ = i.kernel_procedures().len();
    let _ = i.to_elements().len();
});

fn u32_at(bytes: &[u8], off: usize) -> Option<u32> {
    bytes.get(off..off.checked_add(4)?).map(|b| u32::from_le_bytes(b.try_into().unwrap()))
}

const MAX_U32_COUNT: u32 = 1 << 22;

struct StackInputsC;
impl Codec for StackInputsC {
    type T = StackInputs;
    const NAME: &'static str = "StackInputs::read_from";
    fn decode<R: ByteReader>(r: &mut R) -> Result<StackInputs, DeserializationError> {
        StackInputs::read_from(r)
    }
    fn encode(v: &StackInputs) -> Vec<u8> {
        v.to_bytes()
    }
    fn equal(a: &StackInputs, b: &StackInputs) -> bool {
        a.values() == b.values()
    }
    fn exercise(v: &StackInputs) {
        for f in v.values() {
            assert!(f.as_int() < Felt::MODULUS);
        }
        let _ = v.to_elements().len();
    }
    fn skip(bytes: &[u8]) -> bool {
        matches!(u32_at(bytes, 0), Some(c) if c > MAX_U32_COUNT)
    }
}

struct StackOutputsC;
impl Codec for StackOutputsC {
    type T = StackOutputs;
    const NAME: &'static str = "StackOutputs::read_from";
    fn decode<R: ByteReader>(r: &mut R) -> Result<StackOutputs, DeserializationError> {
        StackOutputs::read_from(r)
    }
    fn encode(v: &StackOutputs) -> Vec<u8> {
        v.to_bytes()
    }
    fn equal(a: &StackOutputs, b: &StackOutputs) -> bool {
        a == b
    }
    fn exercise(v: &StackOutputs) {
        for x in v.stack().iter().chain(v.overflow_addrs().iter()) {
            assert!(*x < Felt::MODULUS);
        }
        let _ = v.stack_top();
        let _ = v.get_stack_item(0);
        let _ = v.get_stack_word(0);
        if v.has_overflow() {
            // overflow_prev() / stack_overflow() index the overflow addresses unconditionally
            let _ = v.overflow_prev();
            let _ = v.stack_overflow().len();
        }
        let _ = v.to_elements().len();
    }
    fn skip(bytes: &[u8]) -> bool {
        match u32_at(bytes, 0) {
            Some(c1) if c1 > MAX_U32_COUNT => true,
            Some(c1) => {
                matches!(u32_at(bytes, 4 + 8 * c1 as usize), Some(c2) if c2 > MAX_U32_COUNT)
            }
            None => false,
        }
    }
}

// REPORTING
// ================================================================================================

#[derive(Default)]
struct Stats {
    inputs: u64,
    accepted: u64,
    rejected: u64,
    skipped: u64,
    failures: u64,
    notes: u64,
}

#[derive(Default)]
struct Report {
    stats: BTreeMap<&'static str, Stats>,
    printed: BTreeMap<(&'static str, &'static str), u32>,
    fail_files: u32,
    failed_constructor_checks: u32,
}

fn hex(bytes: &[u8]) -> String {
    let mut s = String::with_capacity(bytes.len() * 2);
    for b in bytes {
        s.push_str(&format!("{b:02x}"));
    }
    s
}

impl Report {
    fn record(&mut self, codec: &'static str, origin: &dyn Fn() -> String, bytes: &[u8], o: Outcome) {
        let st = self.stats.entry(codec).or_default();
        st.inputs += 1;
        match o {
            Outcome::Rejected => st.rejected += 1,
            Outcome::Accepted => st.accepted += 1,
            Outcome::AcceptedWithNote { problem, detail } => {
                st.accepted += 1;
                st.notes += 1;
                let n = self.printed.entry((codec, problem)).or_default();
                *n += 1;
                if *n <= 2 && bytes.len() <= 400 {
                    println!("NOTE  (behaviour of the UNCHANGED code, excluded from the verdict)");
                    println!("      decoder : {codec}");
                    println!("      problem : {problem}");
                    println!("      detail  : {detail}");
                    println!("      input   : {} ({} bytes)", origin(), bytes.len());
                    println!("      bytes   : {}", hex(bytes));
                }
            }
            Outcome::Skipped => st.skipped += 1,
            Outcome::Fail { stage, detail } => {
                st.failures += 1;
                let n = self.printed.entry((codec, stage)).or_default();
                *n += 1;
                if *n <= 3 {
                    println!(
                        "FAILCASE {} :: {} :: {} :: {} ({} bytes) :: {}",
                        codec.replace(' ', "_"),
                        stage,
                        detail.replace('\n', " | "),
                        origin(),
                        bytes.len(),
                        if bytes.len() <= 400 { hex(bytes) } else { format!("{}...{}", hex(&bytes[..96]), hex(&bytes[bytes.len() - 32..])) }
                    );
                    println!("FAIL  decoder : {codec}");
                    println!("      problem : {stage}");
                    if !detail.is_empty() {
                        println!("      detail  : {detail}");
                    }
                    println!("      input   : {} ({} bytes)", origin(), bytes.len());
                    if bytes.len() <= 400 {
                        println!("      bytes   : {}", hex(bytes));
                    } else {
                        println!(
                            "      bytes   : {}...{}",
                            hex(&bytes[..96]),
                            hex(&bytes[bytes.len() - 32..])
                        );
                    }
                } else if *n == 4 {
                    println!("FAIL  decoder : {codec}: further inputs with '{stage}' are only counted");
                }
            }
        }
    }

    fn total_failures(&self) -> u64 {
        self.stats.values().map(|s| s.failures).sum::<u64>() + self.failed_constructor_checks as u64
    }
}

type Runner = (&'static str, fn(&[u8]) -> Outcome);

fn runners() -> Vec<Runner> {
    vec![
        (ProgramAstC::NAME, run::<ProgramAstC>),
        (ProgramAstLocC::NAME, run::<ProgramAstLocC>),
        (ModuleAstC::NAME, run::<ModuleAstC>),
        (ModuleAstLocC::NAME, run::<ModuleAstLocC>),
        (ProcedureAstC::NAME, run::<ProcedureAstC>),
        (ProcReExportC::NAME, run::<ProcReExportC>),
        (ModuleImportsC::NAME, run::<ModuleImportsC>),
        (LibraryPathC::NAME, run::<LibraryPathC>),
        (LibraryNamespaceC::NAME, run::<LibraryNamespaceC>),
        (ProcedureNameC::NAME, run::<ProcedureNameC>),
        (ProcedureIdC::NAME, run::<ProcedureIdC>),
        (VersionC::NAME, run::<VersionC>),
        (NodeC::NAME, run::<NodeC>),
        (InstructionC::NAME, run::<InstructionC>),
        (AdviceInjectorC::NAME, run::<AdviceInjectorC>),
        (MaslLibraryC::NAME, run::<MaslLibraryC>),
        (KernelC::NAME, run::<KernelC>),
        (ProgramInfoC::NAME, run::<ProgramInfoC>),
        (StackInputsC::NAME, run::<StackInputsC>),
        (StackOutputsC::NAME, run::<StackOutputsC>),
    ]
}

// SEEDS
// ================================================================================================

struct Seed {
    name: String,
    codec: &'static str,
    bytes: Vec<u8>,
    fields: Vec<(usize, usize)>,
}

fn seed<C: Codec>(name: &str, bytes: Vec<u8>) -> Seed {
    // a seed must be accepted and must round trip
    match run::<C>(&bytes) {
        Outcome::Accepted => {}
        // e.g. a program serialised without its imports cannot be rendered as source
        Outcome::AcceptedWithNote { .. } => {}
        Outcome::Rejected => panic!("seed '{name}' is rejected by {}", C::NAME),
        Outcome::Skipped => panic!("seed '{name}' is skipped by {}", C::NAME),
        Outcome::Fail { stage, detail } => {
            panic!("seed '{name}' fails in {}: {stage}: {detail}", C::NAME)
        }
    }
    let fields = trace_fields::<C>(&bytes);
    Seed { name: name.to_string(), codec: C::NAME, bytes, fields }
}

const MATH_SRC: &str = "\
#! Math helpers
#! of the demo library

#! Adds two values
export.add2
    add
end

#! An internal helper
proc.helper.2
    push.1 loc_store.0 loc_load.0 drop
end

#! Uses the helper
export.use_helper
    exec.helper
    push.1.2.3
    if.true
        add
    else
        mul
    end
end
";

const HELPERS_SRC: &str = "\
use.mylib::math

export.triple
    dup dup exec.math::add2 exec.math::add2
end

export.looped
    repeat.3
        push.1 add
    end
    push.0
    while.true
        push.0
    end
end
";

const REEXP_SRC: &str = "\
use.mylib::math->m

export.m::add2
export.m::use_helper->uh
";

fn ns(s: &str) -> LibraryNamespace {
    LibraryNamespace::new(s).unwrap()
}

fn base_modules() -> Vec<Module> {
    vec![
        Module::new(LibraryPath::new("mylib::math").unwrap(), ModuleAst::parse(MATH_SRC).unwrap()),
        Module::new(
            LibraryPath::new("mylib::util::helpers").unwrap(),
            ModuleAst::parse(HELPERS_SRC).unwrap(),
        ),
        Module::new(LibraryPath::new("mylib::reexp").unwrap(), ModuleAst::parse(REEXP_SRC).unwrap()),
    ]
}

fn base_library(with_locations: bool) -> MaslLibrary {
    let version = Version { major: 1, minor: 2, patch: 3 };
    let mut lib = MaslLibrary::new(
        ns("mylib"),
        version,
        with_locations,
        base_modules(),
        vec![ns("dep1"), ns("another_dep")],
    )
    .unwrap();
    if !with_locations {
        lib.clear_locations();
    }
    lib
}

fn pname(s: &str) -> ProcedureName {
    ProcedureName::try_from(s.to_string()).unwrap()
}

fn long_label(first: char, len: usize) -> String {
    let mut s = String::new();
    s.push(first);
    while s.len() < len {
        s.push(if s.len() % 7 == 0 { '_' } else { 'x' });
    }
    s
}

fn longest_path() -> LibraryPath {
    let s = [long_label('a', 255), long_label('b', 255), long_label('c', 255), long_label('d', 252)]
        .join("::");
    assert_eq!(s.len(), 1023);
    LibraryPath::new(s).unwrap()
}

fn ins(i: Instruction) -> Node {
    Node::Instruction(i)
}

/// A body made of instructions which carry immediates handled by the sub-decoders (advice
/// injectors, debug options, push lists, ...).
fn exotic_body() -> Vec<Node> {
    use Instruction::*;
    vec![
        ins(PushU8(7)),
        ins(PushU16(300)),
        ins(PushU32(70_000)),
        ins(PushFelt(Felt::new(Felt::MODULUS - 1))),
        ins(PushWord([Felt::new(1), Felt::new(2), Felt::new(3), Felt::new(4)])),
        ins(PushU8List(vec![1, 2, 3])),
        ins(PushU16List(vec![256; 16])),
        ins(PushU32List(vec![65_536, 65_537])),
        ins(PushFeltList(vec![Felt::new(1 << 40), Felt::new(5)])),
        ins(AdvInject(AdviceInjectorNode::PushU64Div)),
        ins(AdvInject(AdviceInjectorNode::PushMapValImm { offset: 2 })),
        ins(AdvInject(AdviceInjectorNode::PushMapValNImm { offset: 12 })),
        ins(AdvInject(AdviceInjectorNode::InsertHdwordImm { domain: 3 })),
        ins(AdvInject(AdviceInjectorNode::PushSignature { kind: SignatureKind::RpoFalcon512 })),
        ins(AdvPush(2)),
        ins(Debug(DebugOptions::StackAll)),
        ins(Debug(DebugOptions::StackTop(4))),
        ins(Debug(DebugOptions::MemAll)),
        ins(Debug(DebugOptions::MemInterval(1, 2))),
        ins(Emit(5)),
        ins(Trace(6)),
        ins(AssertWithError(7)),
        ins(U32WrappingAddImm(5)),
        ins(U32ShlImm(3)),
        ins(ExpBitLength(8)),
        ins(MemLoadImm(7)),
        ins(MemStoreWImm(9)),
        ins(CallMastRoot(RpoDigest::new([Felt::new(1), Felt::new(2), Felt::new(3), Felt::new(4)]))),
        ins(ExecLocal(0)),
        ins(CallLocal(0)),
        ins(ProcRefLocal(0)),
        ins(DynExec),
        ins(Breakpoint),
        Node::IfElse {
            true_case: CodeBody::new(vec![ins(Add), ins(Debug(DebugOptions::StackTop(1)))]),
            false_case: CodeBody::new(Vec::<Node>::new()),
        },
        Node::Repeat { times: 2, body: CodeBody::new(vec![ins(Dup0)]) },
        Node::While { body: CodeBody::new(vec![ins(PushU8(0))]) },
    ]
}

fn exotic_proc() -> ProcedureAst {
    use Instruction::*;
    ProcedureAst::new(
        pname("with_locals"),
        4,
        vec![
            ins(LocStore(1)),
            ins(LocLoad(1)),
            ins(LocStoreW(0)),
            ins(LocLoadW(0)),
            ins(Locaddr(2)),
            ins(Debug(DebugOptions::LocalInterval(0, 1, 4))),
        ],
        false,
        Some("A procedure with locals.\nSecond line.".to_string()),
    )
}

fn max_docs_proc() -> ProcedureAst {
    ProcedureAst::new(
        pname("documented"),
        0,
        vec![ins(Instruction::Add)],
        true,
        Some("a".repeat(u16::MAX as usize)),
    )
}

fn digest(n: u64) -> RpoDigest {
    RpoDigest::new([Felt::new(n), Felt::new(n + 1), Felt::new(n * 3), Felt::new(Felt::MODULUS - n)])
}

fn build_seeds() -> Vec<Seed> {
    let mut seeds = Vec::new();
    let with_imports = AstSerdeOptions::new(true);
    let without_imports = AstSerdeOptions::new(false);

    // ----- programs ------------------------------------------------------------------------------
    let p_simple = ProgramAst::parse("begin push.1 push.2 add end").unwrap();
    let p_procs = ProgramAst::parse(
        "\
proc.foo.2
    push.3 loc_store.0 loc_load.0
    if.true
        add
    else
        mul
    end
end

proc.bar
    repeat.3
        dup.1
    end
    push.0
    while.true
        push.0
    end
end

begin
    push.1.2.3.4
    exec.foo
    call.bar
    adv_push.2
    drop drop
end",
    )
    .unwrap();
    let p_imports = ProgramAst::parse(
        "\
use.mylib::math
use.mylib::util::helpers->h

begin
    push.1.2
    exec.math::add2
    exec.h::triple
    call.math::use_helper
end",
    )
    .unwrap();
    let p_exotic = ProgramAst::new(exotic_body(), vec![exotic_proc()]).unwrap();

    for (name, p) in [
        ("program/simple", &p_simple),
        ("program/procs+control-flow", &p_procs),
        ("program/imports", &p_imports),
        ("program/exotic-immediates", &p_exotic),
    ] {
        seeds.push(seed::<ProgramAstC>(&format!("{name} (imports serialised)"), p.to_bytes(with_imports)));
        seeds.push(seed::<ProgramAstC>(
            &format!("{name} (imports not serialised)"),
            p.to_bytes(without_imports),
        ));
    }
    for (name, p) in [("program/procs+control-flow", &p_procs), ("program/imports", &p_imports)] {
        let mut bytes = p.to_bytes(with_imports);
        p.write_source_locations(&mut bytes);
        seeds.push(seed::<ProgramAstLocC>(&format!("{name} + source locations"), bytes));
    }

    // ----- modules -------------------------------------------------------------------------------
    let modules = base_modules();
    for m in modules.iter() {
        let name = format!("module/{}", m.path);
        seeds.push(seed::<ModuleAstC>(&format!("{name} (imports serialised)"), m.ast.to_bytes(with_imports)));
        seeds.push(seed::<ModuleAstC>(
            &format!("{name} (imports not serialised)"),
            m.ast.to_bytes(without_imports),
        ));
        let mut bytes = m.ast.to_bytes(with_imports);
        m.ast.write_source_locations(&mut bytes);
        seeds.push(seed::<ModuleAstLocC>(&format!("{name} + source locations"), bytes));
    }
    let m_exotic = ModuleAst::new(
        vec![exotic_proc(), ProcedureAst::new(pname("body"), 0, exotic_body(), true, None)],
        vec![],
        Some("module docs".to_string()),
    )
    .unwrap();
    seeds.push(seed::<ModuleAstC>("module/exotic-immediates", m_exotic.to_bytes(with_imports)));
    let m_max_docs = ModuleAst::new(vec![max_docs_proc(), exotic_proc()], vec![], None).unwrap();
    seeds.push(seed::<ModuleAstC>(
        "module/procedure with docs of maximal length",
        m_max_docs.to_bytes(with_imports),
    ));

    // ----- single procedures / re-exports / imports ----------------------------------------------
    for (i, p) in modules[0].ast.procs().iter().enumerate() {
        let mut p = p.clone();
        p.clear_locations();
        seeds.push(seed::<ProcedureAstC>(&format!("procedure/mylib::math #{i}"), p.to_bytes()));
    }
    seeds.push(seed::<ProcedureAstC>("procedure/exotic-immediates", exotic_proc().to_bytes()));
    seeds.push(seed::<ProcedureAstC>("procedure/docs of maximal length", max_docs_proc().to_bytes()));
    seeds.push(seed::<ProcedureAstC>(
        "procedure/name of maximal length",
        ProcedureAst::new(pname(&long_label('p', 255)), 1, vec![ins(Instruction::Mul)], false, None)
            .to_bytes(),
    ));
    for (i, r) in modules[2].ast.reexported_procs().iter().enumerate() {
        seeds.push(seed::<ProcReExportC>(&format!("re-export/mylib::reexp #{i}"), r.to_bytes()));
    }
    seeds.push(seed::<ProcReExportC>(
        "re-export/docs of maximal length",
        ProcReExport::new(
            ProcedureId::new("mylib::math::add2"),
            pname("alias"),
            Some("d".repeat(u16::MAX as usize)),
        )
        .to_bytes(),
    ));
    seeds.push(seed::<ModuleImportsC>("imports/empty", ModuleImports::default().to_bytes()));
    seeds.push(seed::<ModuleImportsC>(
        "imports/mylib::util::helpers",
        modules[1].ast.import_info().to_bytes(),
    ));
    seeds.push(seed::<ModuleImportsC>("imports/program with alias", p_imports.import_info().to_bytes()));
    {
        let mut imports = BTreeMap::new();
        imports.insert(long_label('n', 255), longest_path());
        imports.insert("short".to_string(), LibraryPath::new("std::sys").unwrap());
        let mut invoked = BTreeMap::new();
        let name = pname(&long_label('q', 255));
        invoked.insert(
            ProcedureId::from_name(&name, &longest_path()),
            (name, longest_path()),
        );
        seeds.push(seed::<ModuleImportsC>(
            "imports/labels and paths of maximal length",
            ModuleImports::new(imports, invoked).to_bytes(),
        ));
    }

    // ----- paths, names, ids ---------------------------------------------------------------------
    for p in ["std", "std::math::u64", "#sys", "#exec", "#exec::foo::bar", "a1_b::c_2"] {
        seeds.push(seed::<LibraryPathC>(&format!("path/{p}"), LibraryPath::new(p).unwrap().to_bytes()));
    }
    seeds.push(seed::<LibraryPathC>("path/maximal length", longest_path().to_bytes()));
    seeds.push(seed::<LibraryNamespaceC>("namespace/std", ns("std").to_bytes()));
    seeds.push(seed::<LibraryNamespaceC>(
        "namespace/maximal length",
        ns(&long_label('n', 255)).to_bytes(),
    ));
    seeds.push(seed::<ProcedureNameC>("procedure name/foo_1", pname("foo_1").to_bytes()));
    seeds.push(seed::<ProcedureNameC>(
        "procedure name/maximal length",
        pname(&long_label('p', 255)).to_bytes(),
    ));
    seeds.push(seed::<ProcedureIdC>("procedure id", ProcedureId::new("std::math::u64::add").to_bytes()));
    seeds.push(seed::<VersionC>("version", Version { major: 1, minor: 2, patch: 65535 }.to_bytes()));
    for (i, n) in exotic_body().iter().enumerate() {
        seeds.push(seed::<NodeC>(&format!("node/exotic #{i}"), n.to_bytes()));
        if let Node::Instruction(inner) = n {
            seeds.push(seed::<InstructionC>(&format!("instruction/exotic #{i}"), inner.to_bytes()));
            if let Instruction::AdvInject(a) = inner {
                seeds.push(seed::<AdviceInjectorC>(&format!("advice injector/exotic #{i}"), a.to_bytes()));
            }
        }
    }

    // ----- libraries -----------------------------------------------------------------------------
    seeds.push(seed::<MaslLibraryC>("library/mylib without source locations", base_library(false).to_bytes()));
    seeds.push(seed::<MaslLibraryC>("library/mylib with source locations", base_library(true).to_bytes()));
    {
        let module = Module::new(LibraryPath::new("docs::big").unwrap(), m_max_docs.clone());
        let lib = MaslLibrary::new(ns("docs"), Version::MIN, false, vec![module], vec![]).unwrap();
        seeds.push(seed::<MaslLibraryC>("library/procedure with docs of maximal length", lib.to_bytes()));
    }

    // ----- core ----------------------------------------------------------------------------------
    seeds.push(seed::<KernelC>("kernel/empty", Kernel::default().to_bytes()));
    seeds.push(seed::<KernelC>("kernel/1 procedure", Kernel::new(&[digest(1)]).unwrap().to_bytes()));
    let kernel3 = Kernel::new(&[digest(1), digest(20), digest(300)]).unwrap();
    seeds.push(seed::<KernelC>("kernel/3 procedures", kernel3.to_bytes()));
    seeds.push(seed::<ProgramInfoC>(
        "program info/empty kernel",
        ProgramInfo::new(digest(9), Kernel::default()).to_bytes(),
    ));
    seeds.push(seed::<ProgramInfoC>(
        "program info/3 kernel procedures",
        ProgramInfo::new(digest(9), kernel3).to_bytes(),
    ));
    seeds.push(seed::<StackInputsC>("stack inputs/empty", StackInputs::default().to_bytes()));
    seeds.push(seed::<StackInputsC>(
        "stack inputs/3 values",
        StackInputs::try_from_values([1, 2, Felt::MODULUS - 1]).unwrap().to_bytes(),
    ));
    seeds.push(seed::<StackInputsC>(
        "stack inputs/20 values",
        StackInputs::try_from_values(1..=20).unwrap().to_bytes(),
    ));
    seeds.push(seed::<StackOutputsC>(
        "stack outputs/3 values",
        StackOutputs::new(vec![1, 2, Felt::MODULUS - 1], vec![]).unwrap().to_bytes(),
    ));
    seeds.push(seed::<StackOutputsC>(
        "stack outputs/18 values with overflow addresses",
        StackOutputs::new((1..=18).collect(), vec![0, 5, Felt::MODULUS - 1]).unwrap().to_bytes(),
    ));

    seeds
}

// MUTATIONS
// ================================================================================================

#[derive(Clone, Copy)]
enum Mutation {
    SetByte { off: usize, val: u8 },
    FlipBit { off: usize, bit: u8 },
    Truncate { len: usize },
    Insert { off: usize, val: u8 },
    Delete { off: usize },
    SetField { off: usize, width: usize, val: u64 },
}

impl Mutation {
    fn describe(&self) -> String {
        match *self {
            Mutation::SetByte { off, val } => format!("byte at offset {off} set to 0x{val:02x}"),
            Mutation::FlipBit { off, bit } => format!("bit {bit} of the byte at offset {off} flipped"),
            Mutation::Truncate { len } => format!("truncated to {len} bytes"),
            Mutation::Insert { off, val } => format!("byte 0x{val:02x} inserted at offset {off}"),
            Mutation::Delete { off } => format!("byte at offset {off} deleted"),
            Mutation::SetField { off, width, val } => {
                format!("{width}-byte little-endian field at offset {off} set to {val}")
            }
        }
    }

    fn apply(&self, seed: &[u8]) -> Vec<u8> {
        let mut out = seed.to_vec();
        match *self {
            Mutation::SetByte { off, val } => out[off] = val,
            Mutation::FlipBit { off, bit } => out[off] ^= 1 << bit,
            Mutation::Truncate { len } => out.truncate(len),
            Mutation::Insert { off, val } => out.insert(off, val),
            Mutation::Delete { off } => {
                out.remove(off);
            }
            Mutation::SetField { off, width, val } => {
                out[off..off + width].copy_from_slice(&val.to_le_bytes()[..width]);
            }
        }
        out
    }
}

const SMALL: usize = 4096;
const WINDOW: usize = 300;
const MAX_FIELDS: usize = 6000;

fn mutations(seed: &Seed) -> Vec<Mutation> {
    let len = seed.bytes.len();
    let mut offsets: Vec<usize> = if len <= SMALL {
        (0..len).collect()
    } else {
        let mut o: Vec<usize> = (0..WINDOW).chain(len - WINDOW..len).collect();
        for (off, width) in seed.fields.iter().take(MAX_FIELDS) {
            o.extend(*off..off + width);
        }
        o
    };
    offsets.sort();
    offsets.dedup();

    let mut m = Vec::new();
    for &off in offsets.iter() {
        let cur = seed.bytes[off];
        let mut vals = vec![0x00, 0xff, cur.wrapping_add(1), cur.wrapping_sub(1)];
        vals.sort();
        vals.dedup();
        for val in vals {
            if val != cur {
                m.push(Mutation::SetByte { off, val });
            }
        }
        for bit in 0..8 {
            m.push(Mutation::FlipBit { off, bit });
        }
    }
    // every truncation (for long encodings: around every selected offset)
    let mut cuts: Vec<usize> = if len <= SMALL { (0..len).collect() } else { offsets.clone() };
    cuts.dedup();
    for len in cuts {
        m.push(Mutation::Truncate { len });
    }
    // a few insertions / deletions: at 12 evenly spaced positions and at every integer field
    let mut spots: Vec<usize> = (0..12).map(|i| i * len / 12).collect();
    spots.extend(seed.fields.iter().take(400).map(|f| f.0));
    spots.push(len.saturating_sub(1));
    spots.sort();
    spots.dedup();
    for off in spots {
        if off < len {
            for val in [0x00, 0x01, 0xff] {
                m.push(Mutation::Insert { off, val });
            }
            m.push(Mutation::Delete { off });
        }
    }
    m.push(Mutation::Insert { off: len, val: 0x00 });
    m.push(Mutation::Insert { off: len, val: 0xff });
    // whole-field rewrites of every integer (length / count / immediate) field
    for &(off, width) in seed.fields.iter().take(MAX_FIELDS) {
        let max = if width == 8 { u64::MAX } else { (1u64 << (8 * width)) - 1 };
        let mut vals = vec![0, 1, 2, max - 1, max, max / 2, max / 2 + 1];
        if width == 8 {
            vals.extend([Felt::MODULUS - 1, Felt::MODULUS, Felt::MODULUS + 1]);
        }
        for val in vals {
            m.push(Mutation::SetField { off, width, val });
        }
    }
    m
}

// PSEUDO-RANDOM INPUTS
// ================================================================================================

struct XorShift(u64);
impl XorShift {
    fn next(&mut self) -> u64 {
        let mut x = self.0;
        x ^= x << 13;
        x ^= x >> 7;
        x ^= x << 17;
        self.0 = x;
        x
    }
    fn below(&mut self, n: u64) -> u64 {
        self.next() % n
    }
}

fn random_input(rng: &mut XorShift, i: u64) -> Vec<u8> {
    let len = rng.below(if i % 4 == 0 { 96 } else { 40 }) as usize;
    let mut out = Vec::with_capacity(len);
    let biased = i % 2 == 1;
    for _ in 0..len {
        let r = rng.next();
        let b = if biased {
            // small values get past length prefixes / opcodes more often
            match r % 8 {
                0 => 0,
                1 => 1,
                2 => 2,
                3 => 0xff,
                4 => b'a' + ((r >> 8) % 26) as u8,
                5 => b':',
                _ => (r >> 16) as u8,
            }
        } else {
            (r >> 16) as u8
        };
        out.push(b);
    }
    out
}

// INTEGER CONSTRUCTORS
// ================================================================================================

fn constructor_checks(report: &mut Report) {
    const P: u64 = Felt::MODULUS;
    let mut fail = |what: String| {
        println!("FAILCASE constructor :: integer-constructor :: {} :: - :: -", what.replace('\n', " | "));
        println!("FAIL  constructor: {what}");
        report.failed_constructor_checks += 1;
    };
    for n in [1usize, 4, 16, 17] {
        for pos in 0..n {
            for (val, must_accept) in [(P - 1, true), (P, false), (P + 1, false), (u64::MAX, false)] {
                let mut values: Vec<u64> = (1..=n as u64).collect();
                values[pos] = val;

                // StackInputs::try_from_values
                match catch(|| StackInputs::try_from_values(values.clone())) {
                    Err(p) => fail(format!("StackInputs::try_from_values({values:?}) panicked: {p}")),
                    Ok(Ok(s)) => {
                        let got: Vec<u64> = s.values().iter().rev().map(|f| f.as_int()).collect();
                        if !must_accept {
                            fail(format!(
                                "StackInputs::try_from_values accepted {val} (>= p) at position {pos} of {n}"
                            ));
                        } else if got != values {
                            fail(format!("StackInputs::try_from_values({values:?}) stored {got:?}"));
                        }
                    }
                    Ok(Err(_)) => {
                        if must_accept {
                            fail(format!("StackInputs::try_from_values rejected p-1 at position {pos} of {n}"));
                        }
                    }
                }

                // AdviceInputs::with_stack_values
                match catch(|| AdviceInputs::default().with_stack_values(values.clone())) {
                    Err(p) => fail(format!("AdviceInputs::with_stack_values({values:?}) panicked: {p}")),
                    Ok(Ok(a)) => {
                        let got: Vec<u64> = a.stack().iter().map(|f| f.as_int()).collect();
                        if !must_accept {
                            fail(format!(
                                "AdviceInputs::with_stack_values accepted {val} (>= p) at position {pos} of {n}"
                            ));
                        } else if got != values {
                            fail(format!("AdviceInputs::with_stack_values({values:?}) stored {got:?}"));
                        }
                    }
                    Ok(Err(_)) => {
                        if must_accept {
                            fail(format!("AdviceInputs::with_stack_values rejected p-1 at position {pos} of {n}"));
                        }
                    }
                }

                // StackOutputs::new: stack values, and overflow addresses
                let addrs: Vec<u64> = if n > 16 { (0..(n as u64 + 1 - 16)).collect() } else { vec![] };
                match catch(|| StackOutputs::new(values.clone(), addrs.clone())) {
                    Err(p) => fail(format!("StackOutputs::new({values:?}) panicked: {p}")),
                    Ok(Ok(_)) if !must_accept => fail(format!(
                        "StackOutputs::new accepted stack value {val} (>= p) at position {pos} of {n}"
                    )),
                    Ok(Err(_)) if must_accept => {
                        fail(format!("StackOutputs::new rejected stack value p-1 at position {pos} of {n}"))
                    }
                    _ => {}
                }
            }
        }
    }
    for pos in 0..3 {
        for (val, must_accept) in [(P - 1, true), (P, false), (P + 1, false), (u64::MAX, false)] {
            let mut addrs = vec![0u64, 1, 2];
            addrs[pos] = val;
            match catch(|| StackOutputs::new((1..=18).collect(), addrs.clone())) {
                Err(p) => fail(format!("StackOutputs::new(.., {addrs:?}) panicked: {p}")),
                Ok(Ok(_)) if !must_accept => {
                    fail(format!("StackOutputs::new accepted overflow address {val} (>= p) at position {pos}"))
                }
                Ok(Err(_)) if must_accept => {
                    fail(format!("StackOutputs::new rejected overflow address p-1 at position {pos}"))
                }
                _ => {}
            }
        }
    }
}

// MAIN
// ================================================================================================

fn main() {
    install_hook();
    let runners = runners();
    let mut report = Report::default();

    // ----- known behaviour of the unchanged code which is independent of decoding -----------------
    for src in ["begin adv.push_smtget end", "begin push.1 if.true add else adv.push_mapval end end"] {
        match catch(|| Assembler::default().compile(src).is_ok()) {
            Ok(ok) => println!("info: Assembler::compile({src:?}) returned (ok = {ok})"),
            Err(p) => println!("info: Assembler::compile({src:?}) panics in this build: {p}"),
        }
    }

    // ----- (0) integer-based constructors --------------------------------------------------------
    constructor_checks(&mut report);
    println!("integer-based constructors checked ({} problems)", report.failed_constructor_checks);

    // ----- (a) systematic mutations --------------------------------------------------------------
    let seeds = build_seeds();
    println!("{} valid seed encodings built; all of them are accepted and round trip", seeds.len());
    let mut n_mutants = 0u64;
    for seed in seeds.iter() {
        let muts = mutations(seed);
        let own = runners.iter().find(|r| r.0 == seed.codec).unwrap();
        for m in muts.iter() {
            let bytes = m.apply(&seed.bytes);
            n_mutants += 1;
            let origin = || format!("seed '{}', {}", seed.name, m.describe());
            report.record(own.0, &origin, &bytes, (own.1)(&bytes));
            // short inputs are also fed to every other decoder
            if bytes.len() <= SMALL {
                for r in runners.iter().filter(|r| r.0 != seed.codec) {
                    report.record(r.0, &origin, &bytes, (r.1)(&bytes));
                }
            }
        }
        println!(
            "  seed {:<62} {:>6} bytes {:>5} integer fields {:>7} mutants",
            seed.name,
            seed.bytes.len(),
            seed.fields.len(),
            muts.len()
        );
    }
    println!("{n_mutants} mutated encodings fed to the decoders");

    // ----- (b) pseudo-random inputs --------------------------------------------------------------
    let n_random: u64 = std::env::var("C19_RANDOM_INPUTS").ok().and_then(|v| v.parse().ok()).unwrap_or(300_000);
    let mut rng = XorShift(0x9E37_79B9_7F4A_7C15);
    for i in 0..n_random {
        let bytes = random_input(&mut rng, i);
        let origin = || format!("pseudo-random input #{i}");
        for r in runners.iter() {
            report.record(r.0, &origin, &bytes, (r.1)(&bytes));
        }
    }
    println!("{n_random} pseudo-random inputs fed to every decoder");

    // ----- summary -------------------------------------------------------------------------------
    println!();
    println!(
        "{:<52} {:>10} {:>10} {:>10} {:>8} {:>8} {:>8}",
        "decoder", "inputs", "accepted", "rejected", "skipped", "notes", "FAILED"
    );
    for (name, s) in report.stats.iter() {
        println!(
            "{:<52} {:>10} {:>10} {:>10} {:>8} {:>8} {:>8}",
            name, s.inputs, s.accepted, s.rejected, s.skipped, s.notes, s.failures
        );
    }
    println!();
    println!("skipped: the u32 element count at the start of the input exceeds 2^22 (known behaviour of the");
    println!("         unchanged code: winter-utils read_many reserves memory for the claimed count)");
    println!("notes  : Display of an accepted AST panicked, or the assembler hit 'decorators in an empty SPAN block'");
    println!("         (both are behaviour of the unchanged code which does not depend on decoding; not part of the verdict)");
    println!();
    let failures = report.total_failures();
    println!("SUMMARY seeds={} mutants={} random={} failures={}", seeds.len(), n_mutants, n_random, failures);
    if failures == 0 {
        println!("PASS: no decoder panicked, every accepted value re-serialises to an equal value, non-canonical integers are rejected");
    } else {
        println!("FAIL: {failures} inputs break the property (see the FAIL records above)");
        std::process::exit(1);
    }
}
