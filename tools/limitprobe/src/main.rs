//! limitprobe: bounded stand-in `cycle_limit_sweep` for C15 (adapted from the demo written by the independent mutation
//! sub-agent for C15; machine-readable FAILCASE / SUMMARY lines added).
//! C15 -- "the cycle limit is enforced exactly".
//!
//! For a family of programs covering every control-flow construct this program
//!   1. determines the exact number of cycles `n` a program needs (generous limit, then
//!      `TraceLenSummary::main_trace_len()`),
//!   2. re-runs the program with every limit `m` in `n-3 ..= n+3` (clamped to what
//!      `ExecutionOptions::new` accepts) and checks: success (with the same `n`) exactly when
//!      `m >= n`, otherwise `ExecutionError::CycleLimitExceeded(m)`,
//!   3. runs non-terminating programs with several limits and checks that each run stops with
//!      `ExecutionError::CycleLimitExceeded(m)`,
//!   4. checks the validation done by `ExecutionOptions::new`.
//!
//! Every run happens in its own thread with a wall-clock timeout. Loops of the non-terminating
//! programs additionally contain an `emit` decorator (costs no cycle): the host used here aborts a
//! run as soon as it sees the clock more than `WATCHDOG_SLACK` cycles past the limit, so that a
//! program which no longer stops is reported quickly (and without eating all memory).
//!
//! Prints PASS / FAIL lines and exits with a non-zero status on any FAIL.

use miden_air::trace::MIN_TRACE_LEN;
use miden_assembly::Assembler;
use miden_processor::{
    execute, AdviceExtractor, AdviceInjector, AdviceProvider, ExecutionError, ExecutionOptions,
    ExecutionOptionsError, Host, HostResponse, MemAdviceProvider, ProcessState, StackInputs,
};
use std::{
    process::exit,
    sync::{mpsc, Arc, Mutex},
    thread,
    time::{Duration, Instant},
};

const WATCHDOG_SLACK: u32 = 5_000;
const RUN_TIMEOUT: Duration = Duration::from_secs(20);
const NOEMIT_TIMEOUT: Duration = Duration::from_secs(4);

// HOST WITH A WATCHDOG
// ================================================================================================

struct WatchdogHost {
    adv: MemAdviceProvider,
    limit: u32,
    /// clock values at which the host received an event
    events: Arc<Mutex<Vec<u32>>>,
}

impl Host for WatchdogHost {
    fn get_advice<S: ProcessState>(
        &mut self,
        process: &S,
        extractor: AdviceExtractor,
    ) -> Result<HostResponse, ExecutionError> {
        self.adv.get_advice(process, &extractor)
    }

    fn set_advice<S: ProcessState>(
        &mut self,
        process: &S,
        injector: AdviceInjector,
    ) -> Result<HostResponse, ExecutionError> {
        self.adv.set_advice(process, &injector)
    }

    fn on_event<S: ProcessState>(
        &mut self,
        process: &S,
        _event_id: u32,
    ) -> Result<HostResponse, ExecutionError> {
        self.events.lock().unwrap().push(process.clk());
        if process.clk() > self.limit.saturating_add(WATCHDOG_SLACK) {
            return Err(ExecutionError::EventError(format!(
                "WATCHDOG: still executing at clk = {} although max_cycles = {}",
                process.clk(),
                self.limit
            )));
        }
        Ok(HostResponse::None)
    }
}

// TEST CASES
// ================================================================================================

#[derive(Clone)]
struct Case {
    name: String,
    kernel: Option<String>,
    source: String,
    /// stack inputs; the last value ends up on top of the stack
    inputs: Vec<u64>,
}

fn case(name: &str, kernel: Option<&str>, source: &str, inputs: &[u64]) -> Case {
    Case {
        name: name.to_string(),
        kernel: kernel.map(|k| k.to_string()),
        source: source.to_string(),
        inputs: inputs.to_vec(),
    }
}

const KERNEL: &str = "
    export.kfoo
        repeat.70 swap end
    end
    export.kbar
        caller dropw
        repeat.11 push.3 drop end
    end
    export.kstep
        repeat.4 swap end
    end
    # counts the value on top of the stack down to zero (data-dependent number of iterations)
    export.kloop
        dup neq.0
        while.true
            swap emit.7 swap
            repeat.3 swap swap end
            sub.1 dup neq.0
        end
    end
    # never returns
    export.kspin
        push.1
        while.true
            swap emit.7 swap
            push.1
        end
    end
    # never returns, multi-batch loop body with an inner if/else
    export.kspin2
        push.1
        while.true
            swap emit.7 swap
            repeat.50 push.3 drop end
            push.1
            if.true swap swap else dup drop end
            push.1
        end
    end
    # never returns, no emit in the loop (only the wall-clock timeout catches this one)
    export.kspin_noemit
        push.1
        while.true
            push.1
        end
    end
";

fn terminating_cases() -> Vec<Case> {
    let mut v = Vec::new();

    // ---- spans ---------------------------------------------------------------------------------
    v.push(case(
        "span_one_batch",
        None,
        "begin push.1 push.2 add push.3 mul repeat.30 dup drop end drop end",
        &[],
    ));
    v.push(case(
        "span_multi_batch_respan",
        None,
        "begin repeat.120 push.5 add end drop end",
        &[],
    ));
    v.push(case(
        "span_imm_at_group_end",
        None,
        "begin repeat.8 swap end push.1 repeat.8 swap end push.2 repeat.30 swap push.3 drop end \
         drop drop end",
        &[],
    ));
    // number of op groups in the last batch is not a power of two -> NOOP padding rows
    for k in [19u32, 28, 37, 46, 55, 64, 73, 100, 145] {
        v.push(case(
            &format!("span_noop_padding_{k}_ops"),
            None,
            &format!(
                "begin push.1 if.true repeat.45 swap end else swap end repeat.{k} swap end end"
            ),
            &[],
        ));
    }

    // ---- if / else -----------------------------------------------------------------------------
    let split_root = "begin if.true repeat.70 swap end else repeat.81 dup drop end end end";
    v.push(case("if_else_root_split_true", None, split_root, &[1]));
    v.push(case("if_else_root_split_false", None, split_root, &[0]));
    let nested_if = "begin
            if.true
                if.true repeat.64 swap end else repeat.70 push.2 drop end end
            else
                drop
                push.1 if.true repeat.33 push.1 drop end else swap end
            end
            swap swap
        end";
    v.push(case("nested_if_tt", None, nested_if, &[1, 1]));
    v.push(case("nested_if_ft", None, nested_if, &[0, 1]));
    v.push(case("nested_if_xf", None, nested_if, &[1, 0]));
    v.push(case(
        "many_small_splits",
        None,
        "begin repeat.12 push.1 if.true swap else dup drop end push.0 if.true swap else dup drop \
         end end end",
        &[],
    ));

    // ---- while loops with data-dependent iteration counts --------------------------------------
    let while_src = "begin
            dup neq.0
            while.true
                repeat.5 swap end swap
                sub.1 dup neq.0
            end
            drop
            repeat.70 swap end
        end";
    for k in [0u64, 1, 2, 9, 40] {
        v.push(case(&format!("while_countdown_{k}"), None, while_src, &[k]));
    }
    let loop_root = "begin while.true repeat.9 swap swap end sub.1 dup neq.0 end end";
    for k in [1u64, 4, 17] {
        v.push(case(&format!("while_root_loop_{k}"), None, loop_root, &[k, 1]));
    }
    let nested_while = "begin
            dup neq.0
            while.true
                dup dup neq.0
                while.true
                    push.1 if.true sub.1 else swap end
                    dup neq.0
                end
                drop
                sub.1 dup neq.0
            end
            drop
            repeat.40 swap end
        end";
    for k in [1u64, 3, 6] {
        v.push(case(&format!("nested_while_{k}"), None, nested_while, &[k]));
    }

    // ---- repeat --------------------------------------------------------------------------------
    v.push(case(
        "repeat_nested",
        None,
        "begin repeat.6 push.2 repeat.5 dup mul drop push.1 drop end drop end end",
        &[],
    ));
    v.push(case(
        "repeat_of_loops",
        None,
        "begin repeat.5 push.3 dup neq.0 while.true sub.1 dup neq.0 end drop end end",
        &[],
    ));

    // ---- exec / call ---------------------------------------------------------------------------
    v.push(case(
        "exec_procs",
        None,
        "proc.foo repeat.20 swap end end
         proc.bar exec.foo push.1 if.true exec.foo else swap end end
         begin exec.bar exec.foo exec.bar end",
        &[],
    ));
    v.push(case(
        "call_root",
        None,
        "proc.foo repeat.70 swap end end begin call.foo end",
        &[],
    ));
    v.push(case(
        "call_nested",
        None,
        "proc.leaf repeat.15 swap end end
         proc.mid call.leaf repeat.10 swap end call.leaf end
         begin call.mid repeat.12 swap end call.mid end",
        &[],
    ));
    v.push(case(
        "call_with_loop_inside",
        None,
        "proc.count dup neq.0 while.true sub.1 dup neq.0 end end
         begin repeat.20 swap end call.count repeat.20 swap end end",
        &[13],
    ));

    // ---- syscall -------------------------------------------------------------------------------
    v.push(case("syscall_root", Some(KERNEL), "begin syscall.kfoo end", &[]));
    v.push(case(
        "syscall_in_join",
        Some(KERNEL),
        "begin repeat.20 swap end syscall.kfoo repeat.20 swap end syscall.kbar push.1 drop end",
        &[],
    ));
    for k in [0u64, 1, 3, 30] {
        v.push(case(
            &format!("syscall_kernel_loop_{k}"),
            Some(KERNEL),
            "begin repeat.30 swap end syscall.kloop repeat.30 swap end end",
            &[k],
        ));
    }
    v.push(case(
        "syscall_kernel_loop_last_7",
        Some(KERNEL),
        "begin repeat.40 swap end syscall.kloop end",
        &[7],
    ));
    v.push(case(
        "syscall_from_call",
        Some(KERNEL),
        "proc.foo repeat.7 swap end syscall.kfoo syscall.kbar end begin call.foo end",
        &[],
    ));

    // ---- dynexec / dyncall ---------------------------------------------------------------------
    v.push(case(
        "dynexec",
        None,
        "proc.foo dropw repeat.60 swap end end begin procref.foo dynexec end",
        &[],
    ));
    v.push(case(
        "dyncall",
        None,
        "proc.foo dropw repeat.60 swap end end begin procref.foo dyncall swap swap end",
        &[],
    ));
    v.push(case(
        "dyncall_with_loop_and_syscall",
        Some(KERNEL),
        "proc.foo dropw push.5 syscall.kloop drop end
         begin repeat.10 swap end procref.foo dyncall repeat.10 swap end end",
        &[],
    ));

    // ---- nested combination --------------------------------------------------------------------
    let combo = "
        proc.inner
            dup
            if.true syscall.kstep else repeat.4 swap end end
        end
        begin
            dup neq.0
            while.true
                dup push.1 u32and
                call.inner
                drop
                sub.1 dup neq.0
            end
            drop
            repeat.40 swap end
        end";
    for k in [1u64, 2, 5, 12] {
        v.push(case(&format!("loop_call_if_syscall_{k}"), Some(KERNEL), combo, &[k]));
    }

    v
}

fn non_terminating_cases() -> Vec<Case> {
    let mut v = Vec::new();
    v.push(case("spin_top_level", None, "begin push.1 while.true swap emit.7 swap push.1 end end", &[]));
    v.push(case(
        "spin_root_loop",
        None,
        "begin while.true swap emit.7 swap swap swap push.1 end end",
        &[1],
    ));
    v.push(case(
        "spin_multi_batch_body",
        None,
        "begin push.1 while.true swap emit.7 swap repeat.100 push.3 drop end push.1 end end",
        &[],
    ));
    v.push(case(
        "spin_inner_of_nested_loops",
        None,
        "begin push.1 while.true push.1 while.true swap emit.7 swap push.1 end push.1 end end",
        &[],
    ));
    v.push(case(
        "spin_outer_with_finite_inner_loop",
        None,
        "begin push.1 while.true swap emit.7 swap push.3 dup neq.0 while.true sub.1 dup neq.0 end drop \
         push.1 end end",
        &[],
    ));
    v.push(case(
        "spin_in_if_branch",
        None,
        "begin push.1 if.true push.1 while.true swap emit.7 swap push.1 end else swap end end",
        &[],
    ));
    v.push(case(
        "spin_in_exec_proc",
        None,
        "proc.spin push.1 while.true swap emit.7 swap push.1 if.true swap else drop end push.1 end end
         begin repeat.10 swap end exec.spin end",
        &[],
    ));
    v.push(case(
        "spin_in_called_proc",
        None,
        "proc.spin push.1 while.true swap emit.7 swap push.1 end end begin call.spin end",
        &[],
    ));
    v.push(case(
        "spin_around_call",
        None,
        "proc.foo repeat.5 swap end end begin push.1 while.true swap emit.7 swap call.foo push.1 end end",
        &[],
    ));
    v.push(case(
        "spin_around_syscall",
        Some(KERNEL),
        "begin push.1 while.true swap emit.7 swap syscall.kstep push.1 end end",
        &[],
    ));
    v.push(case(
        "spin_around_syscall_with_kernel_loop",
        Some(KERNEL),
        "begin push.1 while.true swap emit.7 swap push.9 syscall.kloop drop push.1 end end",
        &[],
    ));
    v.push(case("spin_in_kernel_proc", Some(KERNEL), "begin syscall.kspin end", &[]));
    v.push(case(
        "spin_in_kernel_proc_multi_batch",
        Some(KERNEL),
        "begin repeat.30 swap end syscall.kspin2 repeat.30 swap end end",
        &[],
    ));
    v.push(case(
        "spin_in_kernel_proc_via_call",
        Some(KERNEL),
        "proc.foo repeat.6 swap end syscall.kspin end begin repeat.20 swap end call.foo end",
        &[],
    ));
    v.push(case(
        "kernel_loop_huge_caller_controlled_count",
        Some(KERNEL),
        "begin syscall.kloop end",
        &[1u64 << 40],
    ));
    v.push(case(
        "spin_in_dynexec_target",
        None,
        "proc.spin dropw push.1 while.true swap emit.7 swap push.1 end end begin procref.spin dynexec end",
        &[],
    ));
    v.push(case(
        "spin_in_dyncall_target",
        None,
        "proc.spin dropw push.1 while.true swap emit.7 swap push.1 end end begin procref.spin dyncall end",
        &[],
    ));
    v
}

/// Non-terminating programs without any `emit`: only the wall-clock timeout protects these runs,
/// so they are executed last and the demo gives up immediately after the first timeout.
fn non_terminating_noemit_cases() -> Vec<Case> {
    vec![
        case("noemit_spin_top_level", None, "begin push.1 while.true push.1 end end", &[]),
        case(
            "noemit_spin_in_called_proc",
            None,
            "proc.spin push.1 while.true push.1 end end begin call.spin end",
            &[],
        ),
        case("noemit_spin_in_kernel_proc", Some(KERNEL), "begin syscall.kspin_noemit end", &[]),
    ]
}

// RUNNER
// ================================================================================================

#[derive(Debug, Clone, PartialEq, Eq)]
enum Outcome {
    /// execution succeeded; the value is `TraceLenSummary::main_trace_len()`
    Done(usize),
    CycleLimit(u32),
    OtherError(String),
    Panicked,
    Timeout,
}

fn run(case: &Case, options: ExecutionOptions, timeout: Duration) -> Outcome {
    let case = case.clone();
    let (tx, rx) = mpsc::channel();
    thread::spawn(move || {
        let mut assembler = Assembler::default();
        if let Some(kernel) = &case.kernel {
            assembler = assembler.with_kernel(kernel).expect("kernel does not compile");
        }
        let program = assembler.compile(&case.source).expect("program does not compile");
        let stack = StackInputs::try_from_values(case.inputs.iter().copied()).unwrap();
        let host = WatchdogHost {
            adv: MemAdviceProvider::default(),
            limit: options.max_cycles(),
            events: Arc::default(),
        };
        let outcome = match execute(&program, stack, host, options) {
            Ok(trace) => Outcome::Done(trace.trace_len_summary().main_trace_len()),
            Err(ExecutionError::CycleLimitExceeded(m)) => Outcome::CycleLimit(m),
            Err(err) => Outcome::OtherError(format!("{err:?}")),
        };
        let _ = tx.send(outcome);
    });
    match rx.recv_timeout(timeout) {
        Ok(outcome) => outcome,
        Err(mpsc::RecvTimeoutError::Timeout) => Outcome::Timeout,
        Err(mpsc::RecvTimeoutError::Disconnected) => Outcome::Panicked,
    }
}

struct Report {
    checks: usize,
    failures: Vec<String>,
}

impl Report {
    fn check(&mut self, ok: bool, what: impl FnOnce() -> String) {
        self.checks += 1;
        if !ok {
            let msg = what();
            println!("    FAIL: {msg}");
            self.failures.push(msg);
        }
    }

    fn finish(&self) -> ! {
        println!();
        println!("checks: {}, failures: {}", self.checks, self.failures.len());
        println!("SUMMARY checks={} failures={}", self.checks, self.failures.len());
        for f in self.failures.iter().take(6) { println!("FAILCASE {}", f.replace('\n', " ").chars().take(900).collect::<String>()); }
        if self.failures.is_empty() {
            println!("RESULT: PASS");
            exit(0);
        } else {
            for f in &self.failures {
                println!("  FAIL: {f}");
            }
            println!("RESULT: FAIL");
            exit(1);
        }
    }
}

fn describe(case: &Case) -> String {
    let src: Vec<&str> = case.source.split_whitespace().collect();
    let kernel = if case.kernel.is_some() { " [with KERNEL]" } else { "" };
    format!("program `{}`{} inputs {:?} source: {}", case.name, kernel, case.inputs, src.join(" "))
}

// OPTION VALIDATION
// ================================================================================================

fn check_options(report: &mut Report) {
    println!("== ExecutionOptions::new validation");
    let min = MIN_TRACE_LEN as u32;

    // exhaustive small grid
    for max in 0..=300u32 {
        for expected in 0..=300u32 {
            let res = ExecutionOptions::new(Some(max), expected, false);
            let should_accept = max >= min && max >= expected;
            match res {
                Ok(opts) => {
                    report.check(should_accept, || {
                        format!("options max={max} expected={expected} wrongly ACCEPTED")
                    });
                    report.check(opts.max_cycles() == max, || {
                        format!(
                            "options max={max} expected={expected}: max_cycles() = {}",
                            opts.max_cycles()
                        )
                    });
                    let exp = expected.next_power_of_two().max(min);
                    report.check(opts.expected_cycles() == exp, || {
                        format!(
                            "options max={max} expected={expected}: expected_cycles() = {}",
                            opts.expected_cycles()
                        )
                    });
                }
                Err(err) => {
                    report.check(!should_accept, || {
                        format!("options max={max} expected={expected} wrongly REFUSED: {err:?}")
                    });
                    let right_kind = if max < min {
                        matches!(err, ExecutionOptionsError::MaxCycleNumTooSmall(_))
                    } else {
                        matches!(err, ExecutionOptionsError::ExpectedCyclesTooBig(m, e) if m == max && e == expected)
                    };
                    report.check(right_kind, || {
                        format!("options max={max} expected={expected}: unexpected error {err:?}")
                    });
                }
            }
        }
    }

    // boundaries spelled out
    let accepted = |max: Option<u32>, exp: u32| ExecutionOptions::new(max, exp, false).is_ok();
    let cases: [(Option<u32>, u32, bool); 18] = [
        (Some(0), 0, false),
        (Some(min - 1), 0, false),
        (Some(min - 1), min - 1, false),
        (Some(min), 0, true),
        (Some(min), min, true),
        (Some(min), min + 1, false),
        (Some(1000), 1000, true),
        (Some(1000), 1001, false),
        (Some(1000), 513, true),
        (Some(4096), 4096, true),
        (Some(4096), 4097, false),
        (Some(u32::MAX), 1 << 31, true),
        (Some(1 << 31), 1 << 31, true),
        (Some((1 << 31) - 1), 1 << 31, false),
        (Some(u32::MAX - 1), u32::MAX, false),
        (None, 0, true),
        (None, 1 << 20, true),
        (None, 1 << 31, true),
    ];
    for (max, exp, want) in cases {
        let got = std::panic::catch_unwind(|| accepted(max, exp));
        match got {
            Ok(got) => report.check(got == want, || {
                format!("options max={max:?} expected={exp}: accepted={got}, should be {want}")
            }),
            Err(_) => report.check(false, || {
                format!("options max={max:?} expected={exp}: ExecutionOptions::new PANICKED")
            }),
        }
    }
    let d = ExecutionOptions::default();
    report.check(d.max_cycles() == u32::MAX && d.expected_cycles() == min, || {
        "default options are not (u32::MAX, MIN_TRACE_LEN)".to_string()
    });
}

// OBSERVATIONS ABOUT THE UNCHANGED CODE (do not influence PASS / FAIL)
// ================================================================================================

fn observations() {
    println!("== observations (informational, not part of the verdict)");

    // expected_cycles above 2^31: next_power_of_two() overflows
    for (max, exp) in [(None, u32::MAX), (Some(u32::MAX), u32::MAX), (None, (1u32 << 31) + 1)] {
        match std::panic::catch_unwind(|| ExecutionOptions::new(max, exp, false)) {
            Ok(Ok(o)) => println!(
                "  NOTE: ExecutionOptions::new({max:?}, {exp}) accepted with expected_cycles() = {}",
                o.expected_cycles()
            ),
            Ok(Err(e)) => println!("  NOTE: ExecutionOptions::new({max:?}, {exp}) refused: {e:?}"),
            Err(_) => println!("  NOTE: ExecutionOptions::new({max:?}, {exp}) PANICKED"),
        }
    }

    // payload of MaxCycleNumTooSmall
    if let Err(e) = ExecutionOptions::new(Some(10), 3, false) {
        println!("  NOTE: ExecutionOptions::new(Some(10), 3) -> {e:?} / \"{e}\"");
    }

    // the operation in row m is executed (host sees its decorators) before the limit error
    let program = Assembler::default()
        .compile("begin repeat.70 swap end emit.1 push.5 mem_store.0 repeat.10 swap end end")
        .unwrap();
    let n = execute(
        &program,
        StackInputs::default(),
        WatchdogHost { adv: MemAdviceProvider::default(), limit: u32::MAX, events: Arc::default() },
        ExecutionOptions::default(),
    )
    .unwrap()
    .trace_len_summary()
    .main_trace_len();
    for m in [70u32, 71, 72, 73] {
        let events: Arc<Mutex<Vec<u32>>> = Arc::default();
        let host = WatchdogHost { adv: MemAdviceProvider::default(), limit: m, events: events.clone() };
        let res = execute(
            &program,
            StackInputs::default(),
            host,
            ExecutionOptions::new(Some(m), 0, false).unwrap(),
        );
        println!(
            "  NOTE: n = {n}, max_cycles = {m}: result {:?}, host received events at clk {:?}",
            res.map(|_| "Ok").map_err(|e| format!("{e:?}")),
            events.lock().unwrap()
        );
    }
}

// MAIN
// ================================================================================================

fn main() {
    let started = Instant::now();
    let mut report = Report { checks: 0, failures: Vec::new() };
    let min = MIN_TRACE_LEN as u32;

    // make sure every program of the family assembles (anything else is a bug in this demo)
    for case in terminating_cases()
        .iter()
        .chain(non_terminating_cases().iter())
        .chain(non_terminating_noemit_cases().iter())
    {
        let mut assembler = Assembler::default();
        if let Some(kernel) = &case.kernel {
            match assembler.with_kernel(kernel) {
                Ok(a) => assembler = a,
                Err(err) => {
                    println!("DEMO BUG: kernel does not assemble: {err}");
                    exit(2);
                }
            }
        }
        if let Err(err) = assembler.compile(&case.source) {
            println!("DEMO BUG: {} does not assemble: {err}", describe(case));
            exit(2);
        }
    }

    // keep the output readable: panics inside worker threads are reported as `Panicked`
    std::panic::set_hook(Box::new(|_| {}));

    check_options(&mut report);
    observations();

    // ---- terminating programs ------------------------------------------------------------------
    println!("== terminating programs: limits n-3 ..= n+3");
    for case in terminating_cases() {
        let n = match run(&case, ExecutionOptions::default(), RUN_TIMEOUT) {
            Outcome::Done(n) => n as u32,
            other => {
                report.check(false, || {
                    format!("{}: could not determine n with the default limit: {other:?}", describe(&case))
                });
                if other == Outcome::Timeout {
                    report.finish();
                }
                continue;
            }
        };
        let mut tested = Vec::new();
        let before = report.failures.len();
        for m in n.saturating_sub(3)..=n + 3 {
            if m < min {
                // ExecutionOptions::new must refuse such a limit; nothing to execute
                report.check(ExecutionOptions::new(Some(m), 0, false).is_err(), || {
                    format!("options max={m} expected=0 wrongly ACCEPTED")
                });
                continue;
            }
            tested.push(m);
            // smallest and largest admissible expected_cycles for this limit
            for expected in [0, m] {
                let options = ExecutionOptions::new(Some(m), expected, false)
                    .expect("admissible options were refused");
                let got = run(&case, options, RUN_TIMEOUT);
                let want = if m >= n { Outcome::Done(n as usize) } else { Outcome::CycleLimit(m) };
                report.check(got == want, || {
                    format!(
                        "n = {n}, max_cycles = {m}, expected_cycles = {expected}: got {got:?}, \
                         should be {want:?} -- {}",
                        describe(&case)
                    )
                });
                if got == Outcome::Timeout {
                    report.finish();
                }
            }
        }
        let verdict = if report.failures.len() == before { "ok  " } else { "FAIL" };
        println!("  {verdict} {:<34} n = {:>5}   limits tested: {:?}", case.name, n, tested);
    }

    // ---- non-terminating programs --------------------------------------------------------------
    println!("== non-terminating programs: must stop with CycleLimitExceeded(m)");
    let limits = [min, min + 1, 100, 257, 1000, 4096, 20_000];
    for case in non_terminating_cases() {
        let before = report.failures.len();
        for m in limits {
            let options = ExecutionOptions::new(Some(m), 0, false).unwrap();
            let got = run(&case, options, RUN_TIMEOUT);
            report.check(got == Outcome::CycleLimit(m), || {
                format!(
                    "max_cycles = {m}: got {got:?}, should be CycleLimit({m}) -- {}",
                    describe(&case)
                )
            });
            if got == Outcome::Timeout {
                report.finish();
            }
        }
        let verdict = if report.failures.len() == before { "ok  " } else { "FAIL" };
        println!("  {verdict} {:<42} limits tested: {:?}", case.name, limits);
    }

    // ---- non-terminating programs without emit: wall-clock timeout only ------------------------
    println!("== non-terminating programs without emit (wall-clock timeout only)");
    for case in non_terminating_noemit_cases() {
        for m in [min, 1000] {
            let options = ExecutionOptions::new(Some(m), 0, false).unwrap();
            let got = run(&case, options, NOEMIT_TIMEOUT);
            report.check(got == Outcome::CycleLimit(m), || {
                format!(
                    "max_cycles = {m}: got {got:?} (timeout = program did not stop within {:?}), \
                     should be CycleLimit({m}) -- {}",
                    NOEMIT_TIMEOUT,
                    describe(&case)
                )
            });
            if got == Outcome::Timeout {
                // the runaway thread cannot be cancelled and keeps allocating trace memory
                println!("  giving up after a run that did not stop");
                report.finish();
            }
        }
        println!("  ok   {}", case.name);
    }

    println!("elapsed: {:?}", started.elapsed());
    report.finish();
}
