//! [adapted for /verif from the demo of the second C10 sub-agent: machine-readable FAILCASE / SUMMARY lines added]
//! C10 demonstration: serialised ASTs / libraries round-trip and recompile to the same program.
//!
//! The program generates a large family of MASM sources that covers the *container* shapes of the
//! AST systematically (control-flow nesting, repeat counts, locals, docs, procedure counts,
//! re-exports, imports, advice injectors, debug options, MASL libraries) and for each of them
//!
//!   1. parses the source with the real parser,
//!   2. serialises it with the real code (imports serialised and not serialised),
//!   3. deserialises it (and checks that every byte was consumed),
//!   4. compares the objects for equality, including the source locations node by node after the
//!      locations were written with `write_source_locations` and reloaded with
//!      `load_source_locations`,
//!   5. checks the byte fix-point (serialising the deserialised object gives the same bytes),
//!   6. compiles the original and the round-tripped AST and compares MAST roots and the printed
//!      programs.
//!
//! Exit code: 0 = PASS, 1 = FAIL.
//!
//! Deviations which the UNCHANGED code base already shows are listed in `KNOWN_BASELINE`; they are
//! reported separately and are not part of the verdict.

use assembly::{
    ast::{AstSerdeOptions, CodeBody, ModuleAst, Node, ProcedureAst, ProgramAst},
    utils::{ByteReader, Deserializable, Serializable, SliceReader},
    Assembler, AssemblyContext, Library, LibraryNamespace, LibraryPath, MaslLibrary, Module,
    Version,
};
use std::collections::BTreeMap;
use std::fmt::Write as _;
use stdlib::StdLibrary;
use vm_core::{
    crypto::hash::RpoDigest, Felt, Kernel, Program, ProgramInfo, StackInputs, StackOutputs,
};

// KNOWN DEVIATIONS OF THE UNCHANGED CODE
// ================================================================================================

/// Kinds of deviations that the unchanged code base already exhibits. They are reported in a
/// separate section and excluded from the verdict.
const KNOWN_BASELINE: &[&str] = &[
    // `CodeBody::write_source_locations` / `load_source_locations` handle only the locations of
    // the top-level body of a procedure / program; the locations of the bodies nested in
    // if / else / while / repeat nodes are neither written nor restored.
    "nested-locations-not-restored",
];

// REPORT
// ================================================================================================

#[derive(Default)]
struct Report {
    cases: usize,
    checks: usize,
    failures: Vec<Failure>,
    known: BTreeMap<&'static str, (usize, Vec<String>)>,
    unparseable: Vec<(String, String, String)>,
    compile_skipped: usize,
    not_compilable: usize,
    not_compilable_descs: Vec<String>,
    families: BTreeMap<String, (usize, usize)>,
}

struct Failure {
    family: String,
    desc: String,
    what: String,
    source: String,
}

impl Report {
    fn case(&mut self, family: &str) {
        self.cases += 1;
        self.families.entry(family.to_string()).or_default().0 += 1;
    }

    fn note_not_compilable(&mut self, family: &str, desc: &str, err: &str) {
        self.not_compilable += 1;
        let note = format!("[{family}] {desc}: {}", abbreviate(err));
        if !self.not_compilable_descs.contains(&note) {
            self.not_compilable_descs.push(note);
        }
    }

    fn fail(&mut self, family: &str, desc: &str, what: String, source: &str) {
        self.families.entry(family.to_string()).or_default().1 += 1;
        self.failures.push(Failure {
            family: family.to_string(),
            desc: desc.to_string(),
            what,
            source: source.to_string(),
        });
    }

    fn deviation(&mut self, kind: &'static str, family: &str, desc: &str, what: String, src: &str) {
        if KNOWN_BASELINE.contains(&kind) {
            let entry = self.known.entry(kind).or_default();
            entry.0 += 1;
            if entry.1.len() < 3 {
                entry.1.push(format!("[{family}] {desc}: {what}\n      source: {}", abbreviate(src)));
            }
        } else {
            self.fail(family, desc, format!("{kind}: {what}"), src);
        }
    }
}

fn abbreviate(source: &str) -> String {
    let one_line = source.replace('\n', "\\n");
    if one_line.len() <= 700 {
        one_line
    } else {
        let head: String = one_line.chars().take(350).collect();
        let tail: String =
            one_line.chars().rev().take(200).collect::<Vec<_>>().into_iter().rev().collect();
        format!("{head} ...[{} bytes in total]... {tail}", source.len())
    }
}

// LOCATION COMPARISON
// ================================================================================================

/// Compares the source locations of two code bodies node by node. Differences in the top-level
/// body are pushed into `top`, differences in nested bodies into `nested`.
fn cmp_body_locations(
    orig: &CodeBody,
    de: &CodeBody,
    is_nested: bool,
    path: &str,
    top: &mut Vec<String>,
    nested: &mut Vec<String>,
) {
    if orig.source_locations() != de.source_locations() {
        let msg = format!(
            "{path}: {} location(s) {:?} became {} location(s) {:?}",
            orig.source_locations().len(),
            orig.source_locations().iter().take(6).collect::<Vec<_>>(),
            de.source_locations().len(),
            de.source_locations().iter().take(6).collect::<Vec<_>>()
        );
        if is_nested {
            nested.push(msg)
        } else {
            top.push(msg)
        }
    }
    for (i, (a, b)) in orig.nodes().iter().zip(de.nodes().iter()).enumerate() {
        match (a, b) {
            (
                Node::IfElse {
                    true_case: t1,
                    false_case: f1,
                },
                Node::IfElse {
                    true_case: t2,
                    false_case: f2,
                },
            ) => {
                cmp_body_locations(t1, t2, true, &format!("{path}[{i}].then"), top, nested);
                cmp_body_locations(f1, f2, true, &format!("{path}[{i}].else"), top, nested);
            }
            (Node::Repeat { body: b1, .. }, Node::Repeat { body: b2, .. }) => {
                cmp_body_locations(b1, b2, true, &format!("{path}[{i}].repeat"), top, nested);
            }
            (Node::While { body: b1 }, Node::While { body: b2 }) => {
                cmp_body_locations(b1, b2, true, &format!("{path}[{i}].while"), top, nested);
            }
            _ => {}
        }
    }
}

fn cmp_proc_locations(
    orig: &[ProcedureAst],
    de: &[ProcedureAst],
    top: &mut Vec<String>,
    nested: &mut Vec<String>,
) {
    for (i, (a, b)) in orig.iter().zip(de.iter()).enumerate() {
        if a.start != b.start {
            top.push(format!("proc[{i}].start: {:?} became {:?}", a.start, b.start));
        }
        cmp_body_locations(&a.body, &b.body, false, &format!("proc[{i}].body"), top, nested);
    }
}

// COMPILATION HELPERS
// ================================================================================================

#[derive(Clone, Copy, PartialEq, Eq)]
enum Compile {
    /// compile with and without debug mode
    Full,
    /// compile without debug mode only (large programs)
    Light,
    /// do not compile (e.g., repeat.4294967295 would need 2^32 copies of the body)
    Skip,
}

#[derive(Clone, Copy, PartialEq, Eq)]
enum Lib {
    None,
    Std,
}

fn new_assembler(lib: Lib, debug: bool) -> Assembler {
    let assembler = Assembler::default().with_debug_mode(debug);
    match lib {
        Lib::None => assembler,
        Lib::Std => assembler.with_library(&StdLibrary::default()).expect("failed to load stdlib"),
    }
}

fn compile_program(assembler: &Assembler, ast: &ProgramAst) -> Result<(RpoDigest, String), String> {
    match assembler.compile_ast(ast) {
        Ok(program) => Ok((program.hash(), format!("{program}"))),
        Err(err) => Err(format!("{err}")),
    }
}

fn compile_module(lib: Lib, debug: bool, ast: &ModuleAst) -> Result<Vec<RpoDigest>, String> {
    // a fresh assembler is needed for every module as the compiled procedures end up in the
    // procedure cache of the assembler
    let assembler = new_assembler(lib, debug);
    let path = LibraryPath::new("demo::module").unwrap();
    let mut context = AssemblyContext::for_module(false);
    assembler
        .compile_module(ast, Some(&path), &mut context)
        .map_err(|err| format!("{err}"))
}

struct Assemblers {
    plain: [Assembler; 2],
    std: [Assembler; 2],
}

impl Assemblers {
    fn new() -> Self {
        Self {
            plain: [new_assembler(Lib::None, false), new_assembler(Lib::None, true)],
            std: [new_assembler(Lib::Std, false), new_assembler(Lib::Std, true)],
        }
    }

    fn get(&self, lib: Lib, debug: bool) -> &Assembler {
        match lib {
            Lib::None => &self.plain[debug as usize],
            Lib::Std => &self.std[debug as usize],
        }
    }
}

// PROGRAM CHECK
// ================================================================================================

fn check_program(
    rep: &mut Report,
    asms: &Assemblers,
    family: &str,
    desc: &str,
    source: &str,
    lib: Lib,
    compile: Compile,
) {
    rep.case(family);
    let ast = match ProgramAst::parse(source) {
        Ok(ast) => ast,
        Err(err) => {
            rep.unparseable.push((family.to_string(), desc.to_string(), format!("{err}")));
            return;
        }
    };

    for serialize_imports in [true, false] {
        let tag = format!("program, serialize_imports={serialize_imports}");
        let options = AstSerdeOptions::new(serialize_imports);

        // --- serialise / deserialise ------------------------------------------------------------
        let bytes = ast.to_bytes(options);
        let mut reader = SliceReader::new(&bytes);
        rep.checks += 1;
        let mut de = match ProgramAst::read_from(&mut reader) {
            Ok(de) => de,
            Err(err) => {
                rep.fail(family, desc, format!("{tag}: deserialisation failed: {err}"), source);
                continue;
            }
        };
        if reader.has_more_bytes() {
            rep.fail(family, desc, format!("{tag}: deserialisation left unread bytes"), source);
            continue;
        }

        // --- equality (nodes, procedures, imports) ----------------------------------------------
        let mut expected = ast.clone();
        if !serialize_imports {
            expected.clear_imports();
        }
        rep.checks += 1;
        let ast_differs = !same_program_ignoring_locations(&expected, &de);
        if ast_differs {
            let what = describe_program_diff(&expected, &de);
            rep.fail(family, desc, format!("{tag}: deserialised AST differs: {what}"), source);
        }

        // the remaining object-level checks only make sense if the ASTs agree; the recompilation
        // below is done in any case
        'object_checks: {
        if ast_differs {
            break 'object_checks;
        }
        // --- byte fix-point ---------------------------------------------------------------------
        rep.checks += 1;
        if de.to_bytes(options) != bytes {
            rep.fail(family, desc, format!("{tag}: bytes are not a fix-point"), source);
        }

        // --- source locations -------------------------------------------------------------------
        let mut loc_bytes = Vec::new();
        ast.write_source_locations(&mut loc_bytes);
        let mut loc_reader = SliceReader::new(&loc_bytes);
        rep.checks += 1;
        if let Err(err) = de.load_source_locations(&mut loc_reader) {
            rep.fail(family, desc, format!("{tag}: load_source_locations failed: {err}"), source);
            break 'object_checks;
        }
        if loc_reader.has_more_bytes() {
            rep.fail(family, desc, format!("{tag}: load_source_locations left bytes"), source);
        }
        let (mut top, mut nested) = (Vec::new(), Vec::new());
        let o: Vec<_> = ast.source_locations().collect();
        let d: Vec<_> = de.source_locations().collect();
        if o[0] != d[0] {
            top.push(format!("program start: {:?} became {:?}", o[0], d[0]));
        }
        cmp_body_locations(ast.body(), de.body(), false, "body", &mut top, &mut nested);
        cmp_proc_locations(ast.procedures(), de.procedures(), &mut top, &mut nested);
        rep.checks += 1;
        if let Some(first) = top.first() {
            rep.fail(family, desc, format!("{tag}: locations differ: {first}"), source);
        }
        if let Some(first) = nested.first() {
            let what = format!("{tag}: {} nested bodies, first: {first}", nested.len());
            rep.deviation("nested-locations-not-restored", family, desc, what, source);
        }
        let mut loc_bytes2 = Vec::new();
        de.write_source_locations(&mut loc_bytes2);
        rep.checks += 1;
        if loc_bytes != loc_bytes2 {
            rep.fail(family, desc, format!("{tag}: location bytes are not a fix-point"), source);
        }
        rep.checks += 1;
        if expected != de {
            rep.fail(family, desc, format!("{tag}: AST differs after loading locations"), source);
        }
        }

        // --- recompile --------------------------------------------------------------------------
        let de = if serialize_imports {
            de
        } else {
            // imports were not serialised: the caller has to provide them again
            de.with_import_info(ast.import_info().clone())
        };
        let modes: &[bool] = match compile {
            Compile::Full => &[false, true],
            Compile::Light => &[false],
            Compile::Skip => {
                rep.compile_skipped += 1;
                &[]
            }
        };
        for &debug in modes {
            let assembler = asms.get(lib, debug);
            let a = compile_program(assembler, &ast);
            let b = compile_program(assembler, &de);
            rep.checks += 1;
            match (a, b) {
                (Ok((h1, p1)), Ok((h2, p2))) => {
                    if h1 != h2 {
                        let what = format!(
                            "{tag}, debug={debug}: MAST root {} became {}",
                            hex(&h1),
                            hex(&h2)
                        );
                        rep.fail(family, desc, what, source);
                    } else if p1 != p2 {
                        let what = format!("{tag}, debug={debug}: printed programs differ");
                        rep.fail(family, desc, what, source);
                    }
                }
                (Err(e1), Err(e2)) => {
                    rep.note_not_compilable(family, desc, &e1);
                    if e1 != e2 {
                        let what = format!(
                            "{tag}, debug={debug}: compile error '{e1}' became '{e2}'"
                        );
                        rep.fail(family, desc, what, source);
                    }
                }
                (Ok(_), Err(e)) => {
                    let what = format!(
                        "{tag}, debug={debug}: original compiles, round-tripped AST fails: {e}"
                    );
                    rep.fail(family, desc, what, source);
                }
                (Err(e), Ok(_)) => {
                    let what = format!(
                        "{tag}, debug={debug}: original fails ({e}), round-tripped AST compiles"
                    );
                    rep.fail(family, desc, what, source);
                }
            }
        }
    }
}

fn hex(digest: &RpoDigest) -> String {
    let mut s = String::from("0x");
    for b in digest.as_bytes().iter().take(8) {
        write!(s, "{b:02x}").unwrap();
    }
    s.push_str("..");
    s
}

/// Compares two programs ignoring all source locations (a deserialised program has no locations
/// until `load_source_locations` is called).
fn same_program_ignoring_locations(a: &ProgramAst, b: &ProgramAst) -> bool {
    a.import_info() == b.import_info()
        && a.body().nodes() == b.body().nodes()
        && a.procedures().len() == b.procedures().len()
        && a.procedures().iter().zip(b.procedures().iter()).all(|(x, y)| {
            x.name == y.name
                && x.docs == y.docs
                && x.num_locals == y.num_locals
                && x.is_export == y.is_export
                && x.body.nodes() == y.body.nodes()
        })
}

fn describe_nodes_diff(path: &str, a: &[Node], b: &[Node]) -> Option<String> {
    if a.len() != b.len() {
        return Some(format!("{path}: {} nodes became {} nodes", a.len(), b.len()));
    }
    for (i, (x, y)) in a.iter().zip(b.iter()).enumerate() {
        if x == y {
            continue;
        }
        let p = format!("{path}[{i}]");
        return Some(match (x, y) {
            (
                Node::IfElse {
                    true_case: t1,
                    false_case: f1,
                },
                Node::IfElse {
                    true_case: t2,
                    false_case: f2,
                },
            ) => describe_nodes_diff(&format!("{p}.then"), t1.nodes(), t2.nodes())
                .or_else(|| describe_nodes_diff(&format!("{p}.else"), f1.nodes(), f2.nodes()))
                .unwrap_or(p),
            (
                Node::Repeat {
                    times: n1,
                    body: b1,
                },
                Node::Repeat {
                    times: n2,
                    body: b2,
                },
            ) => {
                if n1 != n2 {
                    format!("{p}: repeat.{n1} became repeat.{n2}")
                } else {
                    describe_nodes_diff(&format!("{p}.repeat"), b1.nodes(), b2.nodes())
                        .unwrap_or(p)
                }
            }
            (Node::While { body: b1 }, Node::While { body: b2 }) => {
                describe_nodes_diff(&format!("{p}.while"), b1.nodes(), b2.nodes()).unwrap_or(p)
            }
            (Node::Instruction(i1), Node::Instruction(i2)) => {
                format!("{p}: instruction '{i1}' became '{i2}'")
            }
            _ => format!("{p}: node kind changed"),
        });
    }
    None
}

fn describe_procs_diff(a: &[ProcedureAst], b: &[ProcedureAst]) -> Option<String> {
    if a.len() != b.len() {
        return Some(format!("{} procedures became {}", a.len(), b.len()));
    }
    for (i, (x, y)) in a.iter().zip(b.iter()).enumerate() {
        if x == y {
            continue;
        }
        if x.name != y.name {
            return Some(format!("proc[{i}]: name '{}' became '{}'", x.name, y.name));
        }
        if x.is_export != y.is_export {
            return Some(format!("proc[{i}]: is_export {} became {}", x.is_export, y.is_export));
        }
        if x.num_locals != y.num_locals {
            return Some(format!(
                "proc[{i}]: num_locals {} became {}",
                x.num_locals, y.num_locals
            ));
        }
        if x.docs != y.docs {
            return Some(format!(
                "proc[{i}]: docs of {:?} bytes became docs of {:?} bytes",
                x.docs.as_ref().map(|d| d.len()),
                y.docs.as_ref().map(|d| d.len())
            ));
        }
        if x.body.nodes() == y.body.nodes() && x.start != y.start {
            return Some(format!("proc[{i}]: start {:?} became {:?}", x.start, y.start));
        }
        return describe_nodes_diff(&format!("proc[{i}].body"), x.body.nodes(), y.body.nodes())
            .or(Some(format!("proc[{i}] differs")));
    }
    None
}

fn describe_program_diff(a: &ProgramAst, b: &ProgramAst) -> String {
    if a.import_info() != b.import_info() {
        return format!("imports {:?} became {:?}", a.import_info(), b.import_info());
    }
    describe_procs_diff(a.procedures(), b.procedures())
        .or_else(|| describe_nodes_diff("body", a.body().nodes(), b.body().nodes()))
        .unwrap_or_else(|| "unknown difference".to_string())
}

fn describe_module_diff(a: &ModuleAst, b: &ModuleAst) -> String {
    if a.docs() != b.docs() {
        return format!(
            "module docs of {:?} bytes became docs of {:?} bytes",
            a.docs().map(|d| d.len()),
            b.docs().map(|d| d.len())
        );
    }
    if a.import_info() != b.import_info() {
        return format!("imports {:?} became {:?}", a.import_info(), b.import_info());
    }
    if a.reexported_procs() != b.reexported_procs() {
        return format!(
            "re-exports {:?} became {:?}",
            a.reexported_procs()
                .iter()
                .map(|p| (p.name().to_string(), p.docs().map(|d| d.len())))
                .collect::<Vec<_>>(),
            b.reexported_procs()
                .iter()
                .map(|p| (p.name().to_string(), p.docs().map(|d| d.len())))
                .collect::<Vec<_>>()
        );
    }
    describe_procs_diff(a.procs(), b.procs()).unwrap_or_else(|| "unknown difference".to_string())
}

// MODULE CHECK
// ================================================================================================

fn check_module(
    rep: &mut Report,
    family: &str,
    desc: &str,
    source: &str,
    lib: Lib,
    compile: Compile,
) {
    rep.case(family);
    let ast = match ModuleAst::parse(source) {
        Ok(ast) => ast,
        Err(err) => {
            rep.unparseable.push((family.to_string(), desc.to_string(), format!("{err}")));
            return;
        }
    };

    for serialize_imports in [true, false] {
        let tag = format!("module, serialize_imports={serialize_imports}");
        let options = AstSerdeOptions::new(serialize_imports);

        // --- serialise / deserialise ------------------------------------------------------------
        let bytes = ast.to_bytes(options);
        let mut reader = SliceReader::new(&bytes);
        rep.checks += 1;
        let read_options = AstSerdeOptions::read_from(&mut reader).expect("no options");
        if read_options != options {
            rep.fail(family, desc, format!("{tag}: serde options changed"), source);
            continue;
        }
        let mut de = match ModuleAst::read_from(&mut reader, read_options) {
            Ok(de) => de,
            Err(err) => {
                rep.fail(family, desc, format!("{tag}: deserialisation failed: {err}"), source);
                continue;
            }
        };
        if reader.has_more_bytes() {
            rep.fail(family, desc, format!("{tag}: deserialisation left unread bytes"), source);
            continue;
        }
        rep.checks += 1;
        match ModuleAst::from_bytes(&bytes) {
            Ok(de2) if de2 == de => {}
            _ => rep.fail(family, desc, format!("{tag}: from_bytes disagrees with read_from"), source),
        }

        // --- equality ---------------------------------------------------------------------------
        let mut expected = ast.clone();
        if !serialize_imports {
            expected.clear_imports();
        }
        rep.checks += 1;
        let mut cleared = expected.clone();
        cleared.clear_locations();
        let ast_differs = cleared != de;
        if ast_differs {
            let what = describe_module_diff(&cleared, &de);
            rep.fail(family, desc, format!("{tag}: deserialised AST differs: {what}"), source);
        }

        // the remaining object-level checks only make sense if the ASTs agree; the recompilation
        // below is done in any case
        'object_checks: {
        if ast_differs {
            break 'object_checks;
        }
        // --- byte fix-point ---------------------------------------------------------------------
        rep.checks += 1;
        if de.to_bytes(options) != bytes {
            rep.fail(family, desc, format!("{tag}: bytes are not a fix-point"), source);
        }

        // --- source locations -------------------------------------------------------------------
        let mut loc_bytes = Vec::new();
        ast.write_source_locations(&mut loc_bytes);
        let mut loc_reader = SliceReader::new(&loc_bytes);
        rep.checks += 1;
        if let Err(err) = de.load_source_locations(&mut loc_reader) {
            rep.fail(family, desc, format!("{tag}: load_source_locations failed: {err}"), source);
            break 'object_checks;
        }
        if loc_reader.has_more_bytes() {
            rep.fail(family, desc, format!("{tag}: load_source_locations left bytes"), source);
        }
        let (mut top, mut nested) = (Vec::new(), Vec::new());
        cmp_proc_locations(ast.procs(), de.procs(), &mut top, &mut nested);
        rep.checks += 1;
        if let Some(first) = top.first() {
            rep.fail(family, desc, format!("{tag}: locations differ: {first}"), source);
        }
        if let Some(first) = nested.first() {
            let what = format!("{tag}: {} nested bodies, first: {first}", nested.len());
            rep.deviation("nested-locations-not-restored", family, desc, what, source);
        }
        let mut loc_bytes2 = Vec::new();
        de.write_source_locations(&mut loc_bytes2);
        rep.checks += 1;
        if loc_bytes != loc_bytes2 {
            rep.fail(family, desc, format!("{tag}: location bytes are not a fix-point"), source);
        }
        rep.checks += 1;
        if expected != de {
            rep.fail(family, desc, format!("{tag}: AST differs after loading locations"), source);
        }
        }

        // --- recompile --------------------------------------------------------------------------
        let de = if serialize_imports {
            de
        } else {
            de.with_import_info(ast.import_info().clone())
        };
        let modes: &[bool] = match compile {
            Compile::Full => &[false, true],
            Compile::Light => &[false],
            Compile::Skip => {
                rep.compile_skipped += 1;
                &[]
            }
        };
        for &debug in modes {
            let a = compile_module(lib, debug, &ast);
            let b = compile_module(lib, debug, &de);
            rep.checks += 1;
            match (a, b) {
                (Ok(r1), Ok(r2)) => {
                    if r1 != r2 {
                        let what = format!(
                            "{tag}, debug={debug}: MAST roots of exported procedures {:?} became {:?}",
                            r1.iter().map(hex).collect::<Vec<_>>(),
                            r2.iter().map(hex).collect::<Vec<_>>()
                        );
                        rep.fail(family, desc, what, source);
                    }
                }
                (Err(e1), Err(e2)) => {
                    rep.note_not_compilable(family, desc, &e1);
                    if e1 != e2 {
                        let what =
                            format!("{tag}, debug={debug}: compile error '{e1}' became '{e2}'");
                        rep.fail(family, desc, what, source);
                    }
                }
                (Ok(_), Err(e)) => {
                    let what = format!(
                        "{tag}, debug={debug}: original compiles, round-tripped AST fails: {e}"
                    );
                    rep.fail(family, desc, what, source);
                }
                (Err(e), Ok(_)) => {
                    let what = format!(
                        "{tag}, debug={debug}: original fails ({e}), round-tripped AST compiles"
                    );
                    rep.fail(family, desc, what, source);
                }
            }
        }
    }
}

// LIBRARY CHECK
// ================================================================================================

struct LibSpec<'a> {
    namespace: &'a str,
    version: Version,
    with_locations: bool,
    /// (module path relative to the namespace, source)
    modules: Vec<(String, String)>,
    dependencies: Vec<&'a str>,
    /// libraries needed to compile against this one
    needs_std: bool,
}

fn check_library(rep: &mut Report, family: &str, desc: &str, spec: &LibSpec) {
    rep.case(family);
    let all_sources = spec
        .modules
        .iter()
        .map(|(p, s)| format!("# module {}::{p}\n{s}", spec.namespace))
        .collect::<Vec<_>>()
        .join("\n");
    let desc = format!(
        "{desc} (namespace '{}', version {}, locations={}, dependencies={:?})",
        abbreviate(spec.namespace),
        spec.version,
        spec.with_locations,
        spec.dependencies
    );
    let desc = desc.as_str();

    let namespace = LibraryNamespace::new(spec.namespace).expect("bad namespace");
    let mut modules = Vec::new();
    for (rel_path, source) in spec.modules.iter() {
        let path = LibraryPath::new(format!("{}::{rel_path}", spec.namespace)).expect("bad path");
        match ModuleAst::parse(source) {
            Ok(ast) => modules.push(Module::new(path, ast)),
            Err(err) => {
                rep.unparseable.push((family.to_string(), desc.to_string(), format!("{err}")));
                return;
            }
        }
    }
    let dependencies =
        spec.dependencies.iter().map(|d| LibraryNamespace::new(d).unwrap()).collect::<Vec<_>>();
    let library = match MaslLibrary::new(
        namespace,
        spec.version,
        spec.with_locations,
        modules,
        dependencies,
    ) {
        Ok(library) => library,
        Err(err) => {
            rep.unparseable.push((family.to_string(), desc.to_string(), format!("{err}")));
            return;
        }
    };

    // --- serialise / deserialise ----------------------------------------------------------------
    let bytes = library.to_bytes();
    let mut reader = SliceReader::new(&bytes);
    rep.checks += 1;
    let de = match MaslLibrary::read_from(&mut reader) {
        Ok(de) => de,
        Err(err) => {
            rep.fail(family, desc, format!("library: deserialisation failed: {err}"), &all_sources);
            return;
        }
    };
    if reader.has_more_bytes() {
        rep.fail(family, desc, "library: deserialisation left unread bytes".into(), &all_sources);
        return;
    }

    // --- equality -------------------------------------------------------------------------------
    let mut expected = library.clone();
    if !spec.with_locations {
        expected.clear_locations();
    }
    rep.checks += 1;
    if expected != de {
        let what = if expected.root_ns() != de.root_ns() {
            format!("namespace '{}' became '{}'", expected.root_ns().as_str(), de.root_ns().as_str())
        } else if expected.version() != de.version() {
            format!("version {} became {}", expected.version(), de.version())
        } else if expected.dependencies() != de.dependencies() {
            format!("dependencies {:?} became {:?}", expected.dependencies(), de.dependencies())
        } else {
            let mut what = "modules differ".to_string();
            let m1: Vec<_> = expected.modules().collect();
            let m2: Vec<_> = de.modules().collect();
            if m1.len() != m2.len() {
                what = format!("{} modules became {}", m1.len(), m2.len());
            } else {
                for (a, b) in m1.iter().zip(m2.iter()) {
                    if a.path != b.path {
                        what = format!("module path '{}' became '{}'", a.path, b.path);
                        break;
                    } else if a.ast != b.ast {
                        what =
                            format!("module '{}': {}", a.path, describe_module_diff(&a.ast, &b.ast));
                        break;
                    }
                }
            }
            what
        };
        rep.fail(family, desc, format!("library: deserialised library differs: {what}"), &all_sources);
        return;
    }

    // --- locations, node by node ----------------------------------------------------------------
    let (mut top, mut nested) = (Vec::new(), Vec::new());
    for (a, b) in expected.modules().zip(de.modules()) {
        cmp_proc_locations(a.ast.procs(), b.ast.procs(), &mut top, &mut nested);
    }
    rep.checks += 1;
    if let Some(first) = top.first() {
        rep.fail(family, desc, format!("library: locations differ: {first}"), &all_sources);
    }
    if let Some(first) = nested.first() {
        let what = format!("library: {} nested bodies, first: {first}", nested.len());
        rep.deviation("nested-locations-not-restored", family, desc, what, &all_sources);
    }

    // --- byte fix-point -------------------------------------------------------------------------
    rep.checks += 1;
    if de.to_bytes() != bytes {
        rep.fail(family, desc, "library: bytes are not a fix-point".into(), &all_sources);
    }

    // --- compile a program against both libraries ----------------------------------------------
    let mut program = String::new();
    let mut body = String::new();
    for (i, module) in library.modules().enumerate() {
        writeln!(program, "use.{}->m{i}", module.path).unwrap();
        for proc in module.ast.procs().iter().filter(|p| p.is_export) {
            writeln!(body, "    exec.m{i}::{}", proc.name).unwrap();
        }
        for proc in module.ast.reexported_procs().iter() {
            writeln!(body, "    exec.m{i}::{}", proc.name()).unwrap();
        }
    }
    if body.is_empty() {
        body.push_str("    add\n");
    }
    write!(program, "begin\n{body}end\n").unwrap();

    for debug in [false, true] {
        let compile = |lib: &MaslLibrary| -> Result<(RpoDigest, String), String> {
            let mut assembler = Assembler::default().with_debug_mode(debug);
            if spec.needs_std {
                assembler = assembler.with_library(&StdLibrary::default()).unwrap();
            }
            let assembler = assembler.with_library(lib).map_err(|e| format!("{e}"))?;
            match assembler.compile(&program) {
                Ok(program) => Ok((program.hash(), format!("{program}"))),
                Err(err) => Err(format!("{err}")),
            }
        };
        let a = compile(&library);
        let b = compile(&de);
        rep.checks += 1;
        match (a, b) {
            (Ok(x), Ok(y)) => {
                if x != y {
                    let what = format!(
                        "library, debug={debug}: program compiled against the round-tripped \
                         library differs (root {} became {})",
                        hex(&x.0),
                        hex(&y.0)
                    );
                    rep.fail(family, desc, what, &format!("{all_sources}\n# program\n{program}"));
                }
            }
            (Err(e1), Err(e2)) => {
                rep.note_not_compilable(family, desc, &e1);
                if e1 != e2 {
                    let what = format!("library, debug={debug}: error '{e1}' became '{e2}'");
                    rep.fail(family, desc, what, &all_sources);
                }
            }
            (a, b) => {
                let what = format!(
                    "library, debug={debug}: compilation outcome changed: {:?} became {:?}",
                    a.map(|x| hex(&x.0)),
                    b.map(|x| hex(&x.0))
                );
                rep.fail(family, desc, what, &all_sources);
            }
        }
    }
}

// SOURCE GENERATORS
// ================================================================================================

/// Generates distinct instructions so that a misplaced / dropped node is always visible.
struct Instrs(u32);

impl Instrs {
    fn next(&mut self) -> String {
        self.0 += 1;
        // alternate between instructions with and without immediate values of different widths
        match self.0 % 4 {
            0 => format!("push.{}", self.0),
            1 => format!("push.{}", 1000 + self.0),
            2 => format!("add.{}", 100_000 + self.0),
            _ => format!("push.{}", 5_000_000_000u64 + self.0 as u64),
        }
    }

    fn many(&mut self, n: usize, indent: usize, out: &mut String) {
        for _ in 0..n {
            writeln!(out, "{}{}", " ".repeat(indent), self.next()).unwrap();
        }
    }
}

#[derive(Clone, Copy, Debug, PartialEq, Eq)]
enum Kind {
    /// `if.true <nested> end`
    If,
    /// `if.true <nested> else <instructions> end`
    IfElseThen,
    /// `if.true <instructions> else <nested> end`
    IfElseElse,
    /// `if.true <nested> else <nested> end`
    IfElseBoth,
    While,
    Repeat,
}

const KINDS: [Kind; 6] =
    [Kind::If, Kind::IfElseThen, Kind::IfElseElse, Kind::IfElseBoth, Kind::While, Kind::Repeat];

/// Writes a body: `before` instructions, then the block chain (if any), then `after`
/// instructions. A body without a nested block gets at least one instruction.
fn gen_body(
    chain: &[Kind],
    before: usize,
    after: usize,
    indent: usize,
    ins: &mut Instrs,
    out: &mut String,
) {
    if chain.is_empty() {
        ins.many((before + after).max(1), indent, out);
        return;
    }
    ins.many(before, indent, out);
    gen_block(chain, before, after, indent, ins, out);
    ins.many(after, indent, out);
}

fn gen_block(
    chain: &[Kind],
    before: usize,
    after: usize,
    indent: usize,
    ins: &mut Instrs,
    out: &mut String,
) {
    let pad = " ".repeat(indent);
    let rest = &chain[1..];
    match chain[0] {
        Kind::If => {
            writeln!(out, "{pad}if.true").unwrap();
            gen_body(rest, before, after, indent + 4, ins, out);
            writeln!(out, "{pad}end").unwrap();
        }
        Kind::IfElseThen => {
            writeln!(out, "{pad}if.true").unwrap();
            gen_body(rest, before, after, indent + 4, ins, out);
            writeln!(out, "{pad}else").unwrap();
            gen_body(&[], before, after, indent + 4, ins, out);
            writeln!(out, "{pad}end").unwrap();
        }
        Kind::IfElseElse => {
            writeln!(out, "{pad}if.true").unwrap();
            gen_body(&[], before, after, indent + 4, ins, out);
            writeln!(out, "{pad}else").unwrap();
            gen_body(rest, before, after, indent + 4, ins, out);
            writeln!(out, "{pad}end").unwrap();
        }
        Kind::IfElseBoth => {
            writeln!(out, "{pad}if.true").unwrap();
            gen_body(rest, before, after, indent + 4, ins, out);
            writeln!(out, "{pad}else").unwrap();
            gen_body(rest, before, after, indent + 4, ins, out);
            writeln!(out, "{pad}end").unwrap();
        }
        Kind::While => {
            writeln!(out, "{pad}while.true").unwrap();
            gen_body(rest, before, after, indent + 4, ins, out);
            writeln!(out, "{pad}end").unwrap();
        }
        Kind::Repeat => {
            // distinct repeat counts on every level
            writeln!(out, "{pad}repeat.{}", 2 + chain.len()).unwrap();
            gen_body(rest, before, after, indent + 4, ins, out);
            writeln!(out, "{pad}end").unwrap();
        }
    }
}

fn all_chains(max_depth: usize) -> Vec<Vec<Kind>> {
    let mut result: Vec<Vec<Kind>> = Vec::new();
    let mut level: Vec<Vec<Kind>> = vec![vec![]];
    for _ in 0..max_depth {
        let mut next = Vec::new();
        for chain in level.iter() {
            for kind in KINDS {
                let mut c = chain.clone();
                c.push(kind);
                next.push(c);
            }
        }
        result.extend(next.iter().cloned());
        level = next;
    }
    result
}

fn wrap_program(body: &str) -> String {
    format!("begin\n{body}end\n")
}

fn wrap_module(body: &str, export: bool, locals: u16) -> String {
    let kw = if export { "export" } else { "proc" };
    format!("{kw}.shape.{locals}\n{body}end\n")
}

fn docs_block(len: Option<usize>) -> String {
    match len {
        None => String::new(),
        Some(0) => "#!\n".to_string(),
        Some(n) => format!("#! {}\n", "d".repeat(n)),
    }
}

// FAMILIES
// ================================================================================================

/// Every control-flow nesting of if / if-else / while / repeat to depth 3, with 0..3 instructions
/// before and after the nested block on every level.
fn family_nesting(rep: &mut Report, asms: &Assemblers) {
    let chains = all_chains(3);
    for chain in chains.iter() {
        for before in 0..=3 {
            for after in 0..=3 {
                let desc = format!("chain {chain:?}, {before} before / {after} after");
                let mut ins = Instrs(0);
                let mut body = String::new();
                gen_body(chain, before, after, 4, &mut ins, &mut body);
                let source = wrap_program(&body);
                check_program(rep, asms, "nesting/program", &desc, &source, Lib::None, Compile::Full);
                // the same shape as the body of a procedure of a module
                if (before + after) % 2 == 0 {
                    let export = before % 2 == 0;
                    let source = wrap_module(&body, export, (before * 3 + after) as u16);
                    check_module(rep, "nesting/module", &desc, &source, Lib::None, Compile::Full);
                }
            }
        }
    }
}

/// Two sibling blocks in the same body with 0..3 instructions before / between / after them, in
/// every kind of container.
fn family_siblings(rep: &mut Report, asms: &Assemblers) {
    let simple = [Kind::If, Kind::IfElseThen, Kind::While, Kind::Repeat];
    let containers: [Option<Kind>; 5] =
        [None, Some(Kind::If), Some(Kind::IfElseElse), Some(Kind::While), Some(Kind::Repeat)];
    for container in containers {
        for k1 in simple {
            for k2 in simple {
                for before in 0..=3usize {
                    for between in 0..=3usize {
                        for after in 0..=3usize {
                            let desc = format!(
                                "container {container:?}: {before} instr, {k1:?}, {between} instr, \
                                 {k2:?}, {after} instr"
                            );
                            let mut ins = Instrs(0);
                            let indent = if container.is_some() { 8 } else { 4 };
                            let mut inner = String::new();
                            ins.many(before, indent, &mut inner);
                            gen_block(&[k1], 1, 0, indent, &mut ins, &mut inner);
                            ins.many(between, indent, &mut inner);
                            gen_block(&[k2], 0, 1, indent, &mut ins, &mut inner);
                            ins.many(after, indent, &mut inner);
                            let body = match container {
                                None => inner,
                                Some(Kind::If) => format!("    if.true\n{inner}    end\n"),
                                Some(Kind::IfElseElse) => {
                                    format!("    if.true\n        swap\n    else\n{inner}    end\n")
                                }
                                Some(Kind::While) => format!("    while.true\n{inner}    end\n"),
                                Some(Kind::Repeat) => format!("    repeat.7\n{inner}    end\n"),
                                _ => unreachable!(),
                            };
                            let source = wrap_program(&body);
                            check_program(
                                rep,
                                asms,
                                "siblings/program",
                                &desc,
                                &source,
                                Lib::None,
                                Compile::Light,
                            );
                        }
                    }
                }
            }
        }
    }
}

/// Repeat counts around the u8 / u16 / u32 boundaries, at the top level and nested.
fn family_repeat(rep: &mut Report, asms: &Assemblers) {
    let counts: [u64; 10] = [1, 2, 255, 256, 257, 65535, 65536, 65537, 70000, 4294967295];
    for count in counts {
        let compile = if count > 100_000 {
            Compile::Skip
        } else if count > 1000 {
            Compile::Light
        } else {
            Compile::Full
        };
        let desc = format!("repeat.{count} at the top level");
        let source = format!("begin\n    repeat.{count}\n        add\n    end\nend\n");
        check_program(rep, asms, "repeat/program", &desc, &source, Lib::None, compile);

        let desc = format!("repeat.{count} between instructions");
        let source =
            format!("begin\n    push.1\n    repeat.{count}\n        add.3\n        mul\n    end\n    swap\nend\n");
        check_program(rep, asms, "repeat/program", &desc, &source, Lib::None, compile);

        let desc = format!("repeat.{count} nested in if / else / while");
        let source = format!(
            "begin\n    if.true\n        repeat.{count}\n            add\n        end\n    else\n        \
             while.true\n            repeat.{count}\n                mul\n            end\n            \
             push.0\n        end\n    end\nend\n"
        );
        check_program(rep, asms, "repeat/program", &desc, &source, Lib::None, compile);

        let desc = format!("repeat.{count} via a constant");
        let source = format!("const.N={count}\nbegin\n    repeat.N\n        neg\n    end\nend\n");
        check_program(rep, asms, "repeat/program", &desc, &source, Lib::None, compile);

        for export in [true, false] {
            let kw = if export { "export" } else { "proc" };
            let desc = format!("repeat.{count} in a {kw} of a module");
            let source = format!(
                "{kw}.looped.2\n    loc_load.1\n    repeat.{count}\n        add.1\n    end\n    \
                 loc_store.0\nend\n"
            );
            check_module(rep, "repeat/module", &desc, &source, Lib::None, compile);
        }
    }
    // a repeat inside a repeat
    for (outer, inner) in [(255u64, 256u64), (256, 255), (3, 65535), (3, 65536), (65536, 2)] {
        let desc = format!("repeat.{outer} around repeat.{inner}");
        let source = format!(
            "begin\n    repeat.{outer}\n        repeat.{inner}\n            add\n        end\n    end\nend\n"
        );
        let compile = if outer * inner > 300_000 { Compile::Skip } else { Compile::Light };
        check_program(rep, asms, "repeat/program", &desc, &source, Lib::None, compile);
    }
}

/// Procedures with 0 / 1 / 255 / 256 / 65535 locals, exported and internal, with debug.local.
fn family_locals(rep: &mut Report, asms: &Assemblers) {
    for locals in [0u32, 1, 2, 255, 256, 257, 32767, 32768, 65535] {
        for export in [true, false] {
            let kw = if export { "export" } else { "proc" };
            let last = locals.saturating_sub(1);
            let access = if locals > 0 {
                format!("    loc_load.{last}\n    loc_store.0\n    locaddr.{last}\n    debug.local\n    debug.local.{last}\n    debug.local.0.{last}\n")
            } else {
                "    debug.local\n".to_string()
            };
            let decl = if locals == 0 && export {
                format!("{kw}.foo")
            } else {
                format!("{kw}.foo.{locals}")
            };
            let desc = format!("{kw} with {locals} locals");
            let source = format!("{decl}\n    add\n{access}end\n");
            check_module(rep, "locals/module", &desc, &source, Lib::None, Compile::Full);
            if !export {
                let source = format!("{source}begin\n    exec.foo\nend\n");
                check_program(rep, asms, "locals/program", &desc, &source, Lib::None, Compile::Full);
            }
        }
    }
}

/// Docs absent / empty / 1 / 255 / 256 / 65535 bytes on modules, procedures and re-exports.
fn family_docs(rep: &mut Report) {
    let lens = [None, Some(0usize), Some(1), Some(2), Some(255), Some(256), Some(257), Some(65535)];
    for module_docs in lens {
        for proc_docs in lens {
            for export in [true, false] {
                let kw = if export { "export" } else { "proc" };
                let desc = format!(
                    "module docs {module_docs:?} bytes, docs of {proc_docs:?} bytes on a {kw}"
                );
                let mut source = String::new();
                if module_docs.is_some() {
                    source.push_str(&docs_block(module_docs));
                    source.push('\n');
                }
                source.push_str(&docs_block(proc_docs));
                write!(source, "{kw}.foo.1\n    add\nend\n").unwrap();
                source.push_str(&docs_block(proc_docs.map(|n| n / 2)));
                source.push_str("export.bar\n    mul\nend\n");
                // record what the parser makes of the docs (an empty `#!` block followed by a
                // blank line swallows the doc block that follows it; this is a parser matter and
                // not part of the property)
                let desc = match ModuleAst::parse(&source) {
                    Ok(ast) => format!(
                        "{desc} (parser sees module docs of {:?} bytes, procedure docs of {:?} and {:?} bytes)",
                        ast.docs().map(|d| d.len()),
                        ast.procs()[0].docs.as_ref().map(|d| d.len()),
                        ast.procs()[1].docs.as_ref().map(|d| d.len())
                    ),
                    Err(_) => desc,
                };
                check_module(rep, "docs/module", &desc, &source, Lib::None, Compile::Light);
            }
        }
    }
    // multi-line docs
    let source = "#! module line 1\n#! module line 2\n#!\n#! module line 4\n\n#! proc line 1\n#!\n#!   proc line 3\nexport.foo\n    add\nend\n";
    check_module(rep, "docs/module", "multi-line docs", source, Lib::None, Compile::Full);

    // docs on re-exports
    for docs in lens {
        for alias in [false, true] {
            let desc = format!("re-export (alias={alias}) with docs of {docs:?} bytes");
            let target = if alias { "u64::wrapping_add->my_add" } else { "u64::wrapping_add" };
            let source = format!(
                "use.std::math::u64\n\n{}export.{target}\n\n#! local docs\nexport.foo\n    exec.u64::wrapping_mul\nend\n",
                docs_block(docs)
            );
            check_module(rep, "docs/reexport", &desc, &source, Lib::Std, Compile::Light);
        }
    }
}

/// 0 / 1 / 255 / 256+ procedures in programs and modules.
fn family_proc_counts(rep: &mut Report, asms: &Assemblers) {
    for count in [0usize, 1, 2, 255, 256, 257, 1000, 65535] {
        let compile = if count > 1000 { Compile::Skip } else { Compile::Light };
        // program with `count` procedures; the body calls the first, the middle and the last
        let mut source = String::new();
        for i in 0..count {
            writeln!(source, "proc.p{i}.{}\n    push.{i}\nend", i % 3).unwrap();
        }
        source.push_str("begin\n    add\n");
        if count > 0 {
            write!(source, "    exec.p0\n    exec.p{}\n    call.p{}\n", count / 2, count - 1)
                .unwrap();
            write!(source, "    procref.p{}\n", count - 1).unwrap();
        }
        source.push_str("end\n");
        let desc = format!("program with {count} procedures");
        check_program(rep, asms, "proc-count/program", &desc, &source, Lib::None, compile);

        // module with `count` procedures, alternating export / proc, each calling its predecessor
        let mut source = String::new();
        for i in 0..count {
            let kw = if i % 2 == 0 { "export" } else { "proc" };
            writeln!(source, "{kw}.p{i}\n    push.{i}").unwrap();
            if i > 0 {
                writeln!(source, "    exec.p{}", i - 1).unwrap();
            }
            source.push_str("end\n");
        }
        let desc = format!("module with {count} procedures");
        let compile = if count > 300 { Compile::Skip } else { Compile::Light };
        check_module(rep, "proc-count/module", &desc, &source, Lib::None, compile);
    }
    // body lengths around the u8 / u16 boundaries
    for len in [1usize, 255, 256, 257, 65535] {
        let mut ins = Instrs(0);
        let mut body = String::new();
        ins.many(len, 4, &mut body);
        let desc = format!("program body with {len} nodes");
        check_program(rep, asms, "body-length", &desc, &wrap_program(&body), Lib::None, Compile::Light);
        let desc = format!("while body with {len} nodes in an else branch");
        let source = format!("begin\n    if.true\n    drop\n    else\n    while.true\n{body}    end\n    end\nend\n");
        check_program(rep, asms, "body-length", &desc, &source, Lib::None, Compile::Light);
        let desc = format!("procedure body with {len} nodes");
        check_module(rep, "body-length", &desc, &wrap_module(&body, true, 0), Lib::None, Compile::Light);
    }
    // long procedure names
    for len in [1usize, 100, 254, 255] {
        let name = "n".repeat(len);
        let desc = format!("procedure name of {len} bytes");
        let source = format!("export.{name}\n    add\nend\n");
        check_module(rep, "names", &desc, &source, Lib::None, Compile::Full);
        let source = format!("proc.{name}\n    add\nend\nbegin\n    exec.{name}\nend\n");
        check_program(rep, asms, "names", &desc, &source, Lib::None, Compile::Full);
    }
}

/// Imports with and without alias, re-exports with and without alias.
fn family_imports(rep: &mut Report, asms: &Assemblers) {
    let imports: [(&str, &str); 6] = [
        ("no alias", "use.std::math::u64\n"),
        ("alias", "use.std::math::u64->bigint\n"),
        ("two imports", "use.std::math::u64\nuse.std::math::u256\n"),
        ("two imports, one alias", "use.std::math::u64->bigint\nuse.std::math::u256\n"),
        ("two aliases", "use.std::math::u64->a\nuse.std::math::u256->b\n"),
        ("swapped aliases", "use.std::math::u64->u256\nuse.std::math::u256->u64\n"),
    ];
    for (what, uses) in imports {
        // the first import is always std::math::u64; `m0` is the name under which it is known
        let first = uses.lines().next().unwrap();
        let m0 = first.rsplit_once("->").map(|x| x.1).unwrap_or("u64");
        let proc0 = "wrapping_add";
        // --- programs ---------------------------------------------------------------------------
        let desc = format!("program imports: {what}, unused");
        let source = format!("{uses}begin\n    add\nend\n");
        check_program(rep, asms, "imports/program", &desc, &source, Lib::Std, Compile::Full);

        let desc = format!("program imports: {what}, exec / call / procref");
        let source = format!(
            "{uses}proc.foo\n    exec.{m0}::{proc0}\nend\nbegin\n    exec.foo\n    call.{m0}::{proc0}\n    procref.{m0}::{proc0}\n    exec.{m0}::{proc0}\nend\n"
        );
        check_program(rep, asms, "imports/program", &desc, &source, Lib::Std, Compile::Full);

        // --- modules ----------------------------------------------------------------------------
        let desc = format!("module imports: {what}");
        let source = format!(
            "#! docs\n\n{uses}#! docs of foo\nexport.foo.2\n    exec.{m0}::{proc0}\n    if.true\n        call.{m0}::{proc0}\n    end\nend\n"
        );
        check_module(rep, "imports/module", &desc, &source, Lib::Std, Compile::Full);

        // --- re-exports -------------------------------------------------------------------------
        for (rwhat, reexports) in [
            ("one, no alias", format!("export.{m0}::{proc0}\n")),
            ("one, alias", format!("export.{m0}::{proc0}->renamed\n")),
            (
                "same procedure with and without alias",
                format!("export.{m0}::{proc0}\nexport.{m0}::{proc0}->renamed\n"),
            ),
            (
                "same procedure under two aliases, declared in reverse order",
                format!("export.{m0}::{proc0}->zz\nexport.{m0}::{proc0}->aa\n"),
            ),
        ] {
            let desc = format!("module imports: {what}; re-exports: {rwhat}");
            let source = format!("{uses}\n{reexports}");
            check_module(rep, "reexports/module", &desc, &source, Lib::Std, Compile::Full);
            let desc = format!("module imports: {what}; re-exports: {rwhat}; plus local procedures");
            let source = format!(
                "#! module docs\n\n{uses}\n#! re-export docs\n{reexports}\nproc.helper.1\n    loc_load.0\nend\n\n#! docs\nexport.local\n    exec.helper\n    exec.{m0}::{proc0}\nend\n"
            );
            check_module(rep, "reexports/module", &desc, &source, Lib::Std, Compile::Full);
        }
    }

    // many imports, long paths (not resolvable: both sides must fail to compile in the same way)
    for count in [1usize, 255, 256, 300] {
        let mut uniq = String::new();
        for i in 0..count {
            if i % 2 == 0 {
                writeln!(uniq, "use.dummy::lib{i}::mod{i}").unwrap();
            } else {
                writeln!(uniq, "use.dummy::lib{i}::module->alias{i}").unwrap();
            }
        }
        let desc = format!("{count} imports, half of them under an alias");
        let source = format!("{uniq}begin\n    add\nend\n");
        check_program(rep, asms, "imports/program", &desc, &source, Lib::None, Compile::Light);
        let source = format!("{uniq}export.foo\n    add\nend\n");
        check_module(rep, "imports/module", &desc, &source, Lib::None, Compile::Light);
    }
    for (ncomp, len) in [(1usize, 255usize), (2, 255), (4, 254), (3, 100)] {
        let comp = "c".repeat(len);
        let path = vec![comp.as_str(); ncomp].join("::");
        for alias in [false, true] {
            let desc =
                format!("import path of {ncomp} components of {len} bytes ({} bytes), alias={alias}", path.len());
            let uses = if alias { format!("use.{path}->short\n") } else { format!("use.{path}\n") };
            let m = if alias { "short".to_string() } else { comp.clone() };
            let source = format!("{uses}begin\n    exec.{m}::foo\nend\n");
            check_program(rep, asms, "imports/long-path", &desc, &source, Lib::None, Compile::Light);
            let source = format!("{uses}export.{m}::foo\nexport.bar\n    exec.{m}::baz\nend\n");
            check_module(rep, "imports/long-path", &desc, &source, Lib::None, Compile::Light);
        }
    }
}

/// Every advice injector form and every debug option form, each on its own, all together, and
/// inside each kind of block.
fn family_decorators(rep: &mut Report, asms: &Assemblers) {
    let mut forms: Vec<String> = vec![
        "adv.push_u64div",
        "adv.push_ext2intt",
        "adv.push_smtget",
        "adv.push_smtset",
        "adv.push_smtpeek",
        "adv.push_mapval",
        "adv.push_mapvaln",
        "adv.push_mtnode",
        "adv.insert_mem",
        "adv.insert_hdword",
        "adv.insert_hperm",
        "adv.push_sig.rpo_falcon512",
        "debug.stack",
        "debug.mem",
        "debug.local",
        "breakpoint",
    ]
    .into_iter()
    .map(String::from)
    .collect();
    for offset in 0..=12 {
        forms.push(format!("adv.push_mapval.{offset}"));
        forms.push(format!("adv.push_mapvaln.{offset}"));
    }
    for domain in [0u32, 1, 2, 127, 128, 254, 255] {
        forms.push(format!("adv.insert_hdword.{domain}"));
    }
    for n in [1u32, 2, 16, 255, 256, 65535] {
        forms.push(format!("debug.stack.{n}"));
    }
    for n in [1u64, 255, 256, 65535, 65536, 4294967295] {
        forms.push(format!("debug.mem.{n}"));
        forms.push(format!("debug.mem.0.{n}"));
        forms.push(format!("debug.mem.{n}.4294967295"));
    }
    for n in [0u32, 1, 255, 256, 299] {
        forms.push(format!("debug.local.{n}"));
        forms.push(format!("debug.local.0.{n}"));
        forms.push(format!("debug.local.{n}.299"));
    }
    for n in [0u64, 1, 255, 256, 65535, 65536, 4294967295] {
        forms.push(format!("emit.{n}"));
        forms.push(format!("trace.{n}"));
    }

    let wrappers: [(&str, &str, &str); 6] = [
        ("top level", "", ""),
        ("if", "    if.true\n", "    end\n"),
        ("else", "    if.true\n        add\n    else\n", "    end\n"),
        ("while", "    while.true\n", "    end\n"),
        ("repeat", "    repeat.3\n", "    end\n"),
        (
            "while in else in repeat",
            "    repeat.2\n    if.true\n    add\n    else\n    while.true\n",
            "    end\n    end\n    end\n",
        ),
    ];
    for form in forms.iter() {
        for (wname, open, close) in wrappers {
            // in a procedure with 300 locals (for debug.local) called from the program body
            let desc = format!("'{form}' in {wname}");
            let in_main = if form.starts_with("debug.local") { "neg" } else { form.as_str() };
            let source = format!(
                "proc.foo.300\n    swap\n{open}    {form}\n    drop\n{close}end\nbegin\n    push.1\n    {in_main}\n    drop\n    exec.foo\nend\n"
            );
            check_program(rep, asms, "decorators/program", &desc, &source, Lib::None, Compile::Full);
        }
        let desc = format!("'{form}' in an exported procedure");
        let source = format!("export.foo.300\n    {form}\n    add\n    {form}\nend\n");
        check_module(rep, "decorators/module", &desc, &source, Lib::None, Compile::Full);
    }
    // all forms next to each other
    let all = forms.iter().map(|f| format!("    {f}\n")).collect::<String>();
    let all_main = forms
        .iter()
        .filter(|f| !f.starts_with("debug.local"))
        .map(|f| format!("    {f}\n"))
        .collect::<String>();
    let source = format!("proc.foo.300\n{all}end\nbegin\n    push.1\n{all_main}    drop\n    exec.foo\nend\n");
    check_program(rep, asms, "decorators/program", "all forms", &source, Lib::None, Compile::Full);
    let source = format!("export.foo.300\n{all}end\n");
    check_module(rep, "decorators/module", "all forms", &source, Lib::None, Compile::Full);
}

/// MASL libraries: namespaces, versions, dependency lists, with and without locations.
fn family_libraries(rep: &mut Report) {
    let mod_a = "#! docs of module a\n\n#! docs of foo\nexport.foo.2\n    loc_load.1\n    if.true\n        add\n    else\n        repeat.3\n            mul\n        end\n    end\nend\n\nproc.hidden\n    push.7\nend\n\nexport.bar\n    exec.hidden\n    while.true\n        exec.foo\n        push.0\n    end\nend\n";
    let mod_b = "export.baz.1\n    push.1.2.3\n    loc_store.0\n    adv.push_mapvaln.4\n    debug.local.0\nend\n";
    let long_ns = "n".repeat(255);
    let namespaces = ["a", "test", "My_Lib9", long_ns.as_str()];
    let versions = [
        Version::MIN,
        Version {
            major: 0,
            minor: 0,
            patch: 0,
        },
        Version {
            major: 1,
            minor: 2,
            patch: 3,
        },
        Version {
            major: 256,
            minor: 255,
            patch: 65535,
        },
        Version {
            major: 65535,
            minor: 65535,
            patch: 65535,
        },
    ];
    let dependency_lists: [Vec<&str>; 6] = [
        vec![],
        vec!["std"],
        vec!["std", "other"],
        vec!["zeta", "alpha", "mid"],
        vec!["dup", "dup", "another"],
        vec![long_ns.as_str(), "b"],
    ];
    for namespace in namespaces {
        for version in versions {
            for dependencies in dependency_lists.iter() {
                for with_locations in [true, false] {
                    let spec = LibSpec {
                        namespace,
                        version,
                        with_locations,
                        modules: vec![
                            ("zzz".to_string(), mod_a.to_string()),
                            ("aaa::nested::deeper".to_string(), mod_b.to_string()),
                            ("mid".to_string(), mod_a.replace("foo", "foo2")),
                        ],
                        dependencies: dependencies.clone(),
                        needs_std: false,
                    };
                    check_library(rep, "library", "three modules", &spec);
                }
            }
        }
    }
    // module counts and libraries with imports / re-exports between their own modules and std
    for with_locations in [true, false] {
        for count in [1usize, 2, 255, 256, 300] {
            let modules = (0..count)
                .map(|i| (format!("m{i}"), format!("export.f{i}.{i}\n    push.{i}\nend\n")))
                .collect();
            let spec = LibSpec {
                namespace: "many",
                version: Version::MIN,
                with_locations,
                modules,
                dependencies: vec![],
                needs_std: false,
            };
            check_library(rep, "library", &format!("{count} modules"), &spec);
        }
        let spec = LibSpec {
            namespace: "mylib",
            version: Version {
                major: 3,
                minor: 2,
                patch: 1,
            },
            with_locations,
            modules: vec![
                (
                    "base".to_string(),
                    "#! base docs\n\nexport.one\n    push.1\nend\nexport.two.4\n    push.2\n    loc_store.3\nend\n"
                        .to_string(),
                ),
                (
                    "facade".to_string(),
                    "use.mylib::base\nuse.std::math::u64->wide\n\n#! re-exported one\nexport.base::one\nexport.base::two->deux\nexport.wide::wrapping_add->wadd\n\nexport.three\n    exec.base::one\n    exec.wide::wrapping_mul\n    repeat.2\n        if.true\n            exec.base::two\n        end\n    end\nend\n"
                        .to_string(),
                ),
            ],
            dependencies: vec!["std"],
            needs_std: true,
        };
        check_library(rep, "library", "imports, aliases and re-exports", &spec);
    }
}

/// Round trips of the data types named in the property: program info, kernels, stack inputs and
/// stack outputs (execution proofs are not covered by this demonstration).
fn family_data_types(rep: &mut Report, asms: &Assemblers) {
    let family = "data-types";
    let digest = |i: u64| {
        RpoDigest::new([Felt::new(i), Felt::new(i + 1), Felt::new(u64::MAX / 3 + i), Felt::new(7)])
    };
    for count in [0usize, 1, 2, 254, 255] {
        rep.case(family);
        let hashes: Vec<RpoDigest> = (0..count as u64).map(digest).collect();
        let Ok(kernel) = Kernel::new(&hashes) else { continue };
        rep.checks += 1;
        let bytes = kernel.to_bytes();
        match Kernel::read_from_bytes(&bytes) {
            Ok(k) if k == kernel && k.to_bytes() == bytes => {}
            other => rep.fail(
                family,
                &format!("kernel with {count} procedures"),
                format!("round trip gave {:?}", other.map(|k| k.proc_hashes().len())),
                "",
            ),
        }
        let info = ProgramInfo::new(digest(99), kernel);
        rep.checks += 1;
        let bytes = info.to_bytes();
        match ProgramInfo::read_from_bytes(&bytes) {
            Ok(i) if i == info && i.to_bytes() == bytes => {}
            _ => rep.fail(
                family,
                &format!("program info with {count} kernel procedures"),
                "round trip differs".into(),
                "",
            ),
        }
    }
    for count in [0usize, 1, 15, 16, 17, 255] {
        rep.case(family);
        let values: Vec<Felt> =
            (0..count as u64).map(|i| Felt::new(i * 0x1_0000_0001 + 5)).collect();
        if let Ok(inputs) = StackInputs::try_from_values(values.iter().map(|f| f.as_int())) {
            rep.checks += 1;
            let bytes = inputs.to_bytes();
            match StackInputs::read_from_bytes(&bytes) {
                Ok(i) if i.values() == inputs.values() && i.to_bytes() == bytes => {}
                _ => rep.fail(
                    family,
                    &format!("stack inputs with {count} values"),
                    "round trip differs".into(),
                    "",
                ),
            }
        }
        let stack: Vec<u64> = (0..count.max(16) as u64).map(|i| i * 3 + 1).collect();
        let overflow: Vec<u64> = (0..(stack.len() - 16 + 1) as u64).map(|i| i + 100).collect();
        if let Ok(outputs) = StackOutputs::new(stack, overflow) {
            rep.checks += 1;
            let bytes = outputs.to_bytes();
            match StackOutputs::read_from_bytes(&bytes) {
                Ok(o) if o == outputs && o.to_bytes() == bytes => {}
                _ => rep.fail(
                    family,
                    &format!("stack outputs with {count} values"),
                    "round trip differs".into(),
                    "",
                ),
            }
        }
    }
    // program info derived from a compiled program
    rep.case(family);
    let program: Program = asms.get(Lib::None, false).compile("begin push.1 add end").unwrap();
    let info = ProgramInfo::from(program);
    rep.checks += 1;
    if ProgramInfo::read_from_bytes(&info.to_bytes()).ok() != Some(info) {
        rep.fail(family, "program info of a compiled program", "round trip differs".into(), "");
    }
}

// MAIN
// ================================================================================================

fn main() {
    let mut rep = Report::default();
    let asms = Assemblers::new();

    let start = std::time::Instant::now();
    let run = |name: &str, rep: &mut Report, f: &mut dyn FnMut(&mut Report)| {
        let (c0, f0) = (rep.cases, rep.failures.len());
        f(rep);
        println!(
            "[{:>7.1}s] family {:<12} {:>6} cases, {:>5} failures",
            start.elapsed().as_secs_f32(),
            name,
            rep.cases - c0,
            rep.failures.len() - f0
        );
    };
    run("nesting", &mut rep, &mut |r| family_nesting(r, &asms));
    run("siblings", &mut rep, &mut |r| family_siblings(r, &asms));
    run("repeat", &mut rep, &mut |r| family_repeat(r, &asms));
    run("locals", &mut rep, &mut |r| family_locals(r, &asms));
    run("docs", &mut rep, &mut |r| family_docs(r));
    run("proc-counts", &mut rep, &mut |r| family_proc_counts(r, &asms));
    run("imports", &mut rep, &mut |r| family_imports(r, &asms));
    run("decorators", &mut rep, &mut |r| family_decorators(r, &asms));
    run("libraries", &mut rep, &mut |r| family_libraries(r));
    run("data-types", &mut rep, &mut |r| family_data_types(r, &asms));

    println!();
    println!("==== summary ==================================================================");
    println!("cases: {}, checks: {}", rep.cases, rep.checks);
    println!(
        "compilation skipped for {} (source, options) pairs (too large to compile); {} compile \
         attempts failed identically on both sides",
        rep.compile_skipped, rep.not_compilable
    );
    println!("sources that fail to compile before and after the round trip with the same error:");
    for note in rep.not_compilable_descs.iter() {
        println!("    {}", note.chars().take(300).collect::<String>());
    }
    println!("per family (cases / failures):");
    for (family, (cases, fails)) in rep.families.iter() {
        println!("    {family:<22} {cases:>6} / {fails}");
    }

    println!();
    println!("==== sources rejected by the parser / constructors (not part of the property) ===");
    if rep.unparseable.is_empty() {
        println!("none");
    }
    for (family, desc, err) in rep.unparseable.iter() {
        println!("    [{family}] {desc}: {}", abbreviate(err));
    }

    println!();
    println!("==== deviations of the UNCHANGED code (reported separately, not in the verdict) ==");
    if rep.known.is_empty() {
        println!("none");
    }
    for (kind, (count, examples)) in rep.known.iter() {
        println!("  {kind}: {count} occurrences; first examples:");
        for example in examples {
            println!("    {example}");
        }
    }

    println!();
    println!("==== failures ==================================================================");
    if rep.failures.is_empty() {
        println!("none");
    }
    const MAX_PRINTED: usize = 40;
    for failure in rep.failures.iter().take(MAX_PRINTED) {
        println!("FAIL [{}] {}", failure.family, failure.desc);
        println!("     {}", failure.what);
        println!("     source: {}", abbreviate(&failure.source));
    }
    if rep.failures.len() > MAX_PRINTED {
        println!("... and {} more failures", rep.failures.len() - MAX_PRINTED);
    }

    // ---- machine-readable part (read by lib/bounded_tools.py: check_ast_shapes) ----
    for (kind, (count, examples)) in rep.known.iter() {
        println!(
            "FAILCASE {kind} :: {count} occurrences :: {}",
            examples.first().map(|e| e.replace('\n', " | ")).unwrap_or_default()
        );
    }
    for failure in rep.failures.iter().take(200) {
        println!(
            "FAILCASE {} :: {} :: {} :: source: {}",
            failure.family,
            failure.desc.replace('\n', " | "),
            failure.what.replace('\n', " | "),
            abbreviate(&failure.source).replace('\n', "\\n")
        );
    }
    println!("SUMMARY cases={} checks={} failures={}", rep.cases, rep.checks, rep.failures.len());
    println!();
    if rep.failures.is_empty() {
        println!("VERDICT: PASS ({} cases, {} checks)", rep.cases, rep.checks);
    } else {
        println!(
            "VERDICT: FAIL ({} failures in {} cases, {} checks)",
            rep.failures.len(),
            rep.cases,
            rep.checks
        );
        std::process::exit(1);
    }
}
