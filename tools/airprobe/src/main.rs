//! airprobe
//! Bounded fault enumeration for C04 (stand-in for OpFlags::new and the flag wiring, which are not
//! under a Verus contract): programs covering the field, u32, stack-manipulation, system and
//! control-flow operations are executed with the real processor; for every row pair of the real trace
//! the honest transition must satisfy every main transition constraint, and for every cell of the next
//! row among stack[0..16], b0 (depth), b1 (overflow address), h0, clk and fmp the transition with that
//! single cell incremented by one is evaluated with the real `ProcessorAir::evaluate_transition`.
//! Output: one line `UNENFORCED <op> <cell>` for every (operation, cell) pair whose perturbation leaves
//! all main transition constraints zero on EVERY row where the operation occurs, then SUMMARY.
//! Which of these pairs are expected (cells tied through chiplet buses / advice / the decoder, which the
//! main transition constraints of this version do not cover) is decided by the caller.
use miden_air::{
    trace::{decoder::OP_BITS_RANGE, CLK_COL_IDX, DECODER_TRACE_OFFSET, FMP_COL_IDX, STACK_TRACE_OFFSET},
    Felt, FieldElement, ProcessorAir, ProvingOptions, PublicInputs,
};
use miden_assembly::Assembler;
use miden_core::{Operation, StackInputs};
use miden_processor::{execute, DefaultHost, ExecutionOptions};
use std::collections::BTreeMap;
use winter_air::{Air, EvaluationFrame};
use winter_prover::Trace;

fn op_name(code: u64) -> String {
    let ops = [
        Operation::Noop, Operation::Eqz, Operation::Neg, Operation::Inv, Operation::Incr, Operation::Not, Operation::FmpAdd, Operation::MLoad,
        Operation::Swap, Operation::Caller, Operation::MovUp2, Operation::MovDn2, Operation::MovUp3, Operation::MovDn3, Operation::AdvPopW, Operation::Expacc,
        Operation::MovUp4, Operation::MovDn4, Operation::MovUp5, Operation::MovDn5, Operation::MovUp6, Operation::MovDn6, Operation::MovUp7, Operation::MovDn7,
        Operation::SwapW, Operation::Ext2Mul, Operation::MovUp8, Operation::MovDn8, Operation::SwapW2, Operation::SwapW3, Operation::SwapDW,
        Operation::Assert(0), Operation::Eq, Operation::Add, Operation::Mul, Operation::And, Operation::Or, Operation::U32and, Operation::U32xor, Operation::FriE2F4,
        Operation::Drop, Operation::CSwap, Operation::CSwapW, Operation::MLoadW, Operation::MStore, Operation::MStoreW, Operation::FmpUpdate,
        Operation::Pad, Operation::Dup0, Operation::Dup1, Operation::Dup2, Operation::Dup3, Operation::Dup4, Operation::Dup5, Operation::Dup6, Operation::Dup7,
        Operation::Dup9, Operation::Dup11, Operation::Dup13, Operation::Dup15, Operation::AdvPop, Operation::SDepth, Operation::Clk,
        Operation::U32add, Operation::U32sub, Operation::U32mul, Operation::U32div, Operation::U32split, Operation::U32assert2(miden_core::ZERO), Operation::U32add3, Operation::U32madd,
        Operation::HPerm, Operation::MpVerify, Operation::Pipe, Operation::MStream, Operation::Split, Operation::Loop, Operation::Span, Operation::Join, Operation::Dyn, Operation::RCombBase,
        Operation::MrUpdate, Operation::Push(miden_core::ZERO), Operation::SysCall, Operation::Call, Operation::End, Operation::Repeat, Operation::Respan, Operation::Halt,
    ];
    for op in ops {
        if op.op_code() as u64 == code {
            return format!("{op}").split('(').next().unwrap().to_uppercase();
        }
    }
    format!("OP{code}")
}

fn main() {
    let progs: Vec<(&str, Vec<u64>)> = vec![
        // field + boolean + comparisons
        ("begin push.3 push.4 add mul neg inv add.1 push.1 push.0 and push.1 or not eq eq.0 push.1 assert push.2 push.9 push.5 exp.u4 drop drop end", (1..=20).collect()),
        // stack manipulation: every dup / movup / movdn / swap variant
        ("begin dup.0 dup.1 dup.2 dup.3 dup.4 dup.5 dup.6 dup.7 dup.9 dup.11 dup.13 dup.15 drop drop drop drop drop drop drop drop drop drop drop drop swap movup.2 movdn.2 movup.3 movdn.3 movup.4 movdn.4 movup.5 movdn.5 movup.6 movdn.6 movup.7 movdn.7 movup.8 movdn.8 swapw swapw.2 swapw.3 swapdw padw dropw push.1 cswap push.0 cswapw end", (1..=22).collect()),
        // u32
        ("begin u32split u32assert2 push.7 push.9 u32overflowing_add drop push.3 u32overflowing_sub drop push.5 u32overflowing_mul drop push.6 u32divmod drop push.1 push.2 u32overflowing_add3 drop push.4 push.5 u32overflowing_madd drop push.12 u32and push.5 u32xor end", vec![77, 88, 99, 1, 2, 3, 4, 5, 6, 7, 8, 9, 10, 11, 12, 13, 14, 15]),
        // system ops and memory
        ("proc.f.2 push.5 loc_store.0 loc_load.0 end begin sdepth clk drop drop push.11 mem_store.4 mem_load.4 drop push.1.2.3.4 mem_storew.8 dropw padw mem_loadw.8 dropw exec.f drop end", (1..=18).collect()),
        // control flow: split, loop with repeat, call, ext2
        ("proc.g push.1 add end begin push.1 if.true push.5 else push.6 end push.3 push.1 while.true push.1 sub dup neq.0 end drop call.g ext2mul drop end", (1..=17).collect()),
    ];
    let mut seen: BTreeMap<(String, String), (u64, u64)> = BTreeMap::new();   // (op, cell) -> (rows probed, rows detected)
    let mut honest_bad = 0u64;
    let mut rows = 0u64;
    for (src, ins) in &progs {
        let program = Assembler::default().compile(*src).unwrap();
        let mut v = ins.clone();
        v.reverse();
        let inputs = StackInputs::try_from_values(v).unwrap();
        let trace = execute(&program, inputs.clone(), DefaultHost::default(), ExecutionOptions::default()).unwrap();
        let pub_inputs = PublicInputs::new(program.clone().into(), inputs, trace.stack_outputs().clone());
        let air = ProcessorAir::new(trace.get_info(), pub_inputs, ProvingOptions::default().into());
        let seg = trace.main_segment();
        let width = seg.num_cols();
        let n = trace.get_trace_len() - miden_processor::ExecutionTrace::NUM_RAND_ROWS;
        let row = |r: usize| -> Vec<Felt> { (0..width).map(|c| seg.get(c, r)).collect() };
        let ncons = air.context().num_main_transition_constraints();
        for r in 0..n - 1 {
            let cur = row(r);
            let nxt = row(r + 1);
            let mut code = 0u64;
            for (i, col) in OP_BITS_RANGE.enumerate() { code |= cur[DECODER_TRACE_OFFSET + col].as_int() << i; }
            let name = op_name(code);
            let periodic: Vec<Felt> = air.get_periodic_column_values().iter().map(|c| c[r % c.len()]).collect();
            let eval = |nx: &Vec<Felt>| -> bool {
                let frame = EvaluationFrame::from_rows(cur.clone(), nx.clone());
                let mut res = vec![Felt::ZERO; ncons];
                air.evaluate_transition(&frame, &periodic, &mut res);
                res.iter().any(|x| *x != Felt::ZERO)
            };
            rows += 1;
            if eval(&nxt) { honest_bad += 1; println!("HONEST-ROW-REJECTED {name} row {r}"); continue; }
            let mut cells: Vec<(String, usize)> = (0..16).map(|i| (format!("s{i}"), STACK_TRACE_OFFSET + i)).collect();
            cells.push(("b0".into(), STACK_TRACE_OFFSET + 16));
            cells.push(("b1".into(), STACK_TRACE_OFFSET + 17));
            cells.push(("h0".into(), STACK_TRACE_OFFSET + 18));
            cells.push(("clk".into(), CLK_COL_IDX));
            cells.push(("fmp".into(), FMP_COL_IDX));
            for (cn, idx) in cells {
                let mut forged = nxt.clone();
                forged[idx] = forged[idx] + Felt::ONE;
                let det = eval(&forged);
                let e = seen.entry((name.clone(), cn)).or_insert((0, 0));
                e.0 += 1;
                if det { e.1 += 1; }
            }
        }
    }
    let mut unenforced = 0;
    for ((op, cell), (probed, det)) in &seen {
        if *det == 0 { unenforced += 1; println!("UNENFORCED {op} {cell} rows={probed}"); }
        else if det < probed { println!("PARTLY {op} {cell} detected {det} of {probed}"); }
    }
    let ops: std::collections::BTreeSet<&String> = seen.keys().map(|k| &k.0).collect();
    println!("SUMMARY rows={rows} ops={} pairs={} unenforced={unenforced} honest_rejected={honest_bad}", ops.len(), seen.len());
    std::process::exit(if honest_bad > 0 { 1 } else { 0 });
}
