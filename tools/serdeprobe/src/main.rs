//! serdeprobe <type> <hex bytes>
//! Decodes the bytes with /repo's deserialiser; if accepted, re-encodes, decodes again and compares.
//! Prints REJECTED | ROUNDTRIP-OK | ROUNDTRIP-MISMATCH | PANIC <msg>.
use vm_core::utils::{Deserializable, Serializable, SliceReader};
use vm_core::{Kernel, ProgramInfo, StackInputs, StackOutputs};
use std::panic;

fn hex(s: &str) -> Vec<u8> {
    let s: String = s.chars().filter(|c| !c.is_whitespace()).collect();
    (0..s.len() / 2).map(|i| u8::from_str_radix(&s[2 * i..2 * i + 2], 16).unwrap()).collect()
}
fn probe<T: Deserializable + Serializable + PartialEq>(bytes: &[u8]) -> String {
    let mut r = SliceReader::new(bytes);
    match T::read_from(&mut r) {
        Err(e) => format!("REJECTED {e}"),
        Ok(v) => {
            let out = v.to_bytes();
            let mut r2 = SliceReader::new(&out);
            match T::read_from(&mut r2) {
                Ok(v2) if v2 == v => "ROUNDTRIP-OK".to_string(),
                Ok(_) => "ROUNDTRIP-MISMATCH decoded value differs".to_string(),
                Err(e) => format!("ROUNDTRIP-MISMATCH re-encoded bytes rejected: {e}"),
            }
        }
    }
}
fn main() {
    let args: Vec<String> = std::env::args().collect();
    let ty = args[1].clone();
    let bytes = hex(&args[2]);
    let r = panic::catch_unwind(move || match ty.as_str() {
        "kernel" => probe::<Kernel>(&bytes),
        "programinfo" => probe::<ProgramInfo>(&bytes),
        "stackoutputs" => probe::<StackOutputs>(&bytes),
        "libpath" => probe::<miden_assembly::LibraryPath>(&bytes),
        "proof" => match miden_air::ExecutionProof::from_bytes(&bytes) { Ok(_) => "ACCEPTED".into(), Err(e) => format!("REJECTED {e}") },
        _ => "unknown type".to_string(),
    });
    match r {
        Ok(s) => { println!("{s}"); std::process::exit(if s.starts_with("ROUNDTRIP-MISMATCH") { 3 } else { 0 }); }
        Err(e) => {
            let msg = e.downcast_ref::<String>().cloned().or_else(|| e.downcast_ref::<&str>().map(|s| s.to_string())).unwrap_or_default();
            println!("PANIC {msg}");
            std::process::exit(4);
        }
    }
}
