//! serdeprobe <type> <hex bytes>
//! Decodes the bytes with /repo's deserialiser; if accepted, re-encodes, decodes again and compares.
//! Prints REJECTED | ROUNDTRIP-OK | ROUNDTRIP-MISMATCH | PANIC <msg>.
use vm_core::utils::{Deserializable, Serializable, SliceReader};
use vm_core::{Kernel, ProgramInfo, StackInputs, StackOutputs};
use std::panic;

fn hex(s: &str) -> Vec<u8> {
    let s: String = s.chars().filter(|c| !c.is_whitespace()).collect();
    (0..s.len() / 2).map(|i| u8::from_str_radix(&s[2 * i..2 * i + 2], 16).unwrap()).collect()
}
fn probe<T: Deserializable + Serializable + PartialEq>(bytes: &[u8]) -> String {
    let mut r = SliceReader::new(bytes);
    match T::read_from(&mut r) {
        Err(e) => format!("REJECTED {e}"),
        Ok(v) => {
            let out = v.to_bytes();
            let mut r2 = SliceReader::new(&out);
            match T::read_from(&mut r2) {
                Ok(v2) if v2 == v => "ROUNDTRIP-OK".to_string(),
                Ok(_) => "ROUNDTRIP-MISMATCH decoded value differs".to_string(),
                Err(e) => format!("ROUNDTRIP-MISMATCH re-encoded bytes rejected: {e}"),
            }
        }
    }
}
fn main() {
    let args: Vec<String> = std::env::args().collect();
    let ty = args[1].clone();
    // `@path`: read the hex string from a file (inputs longer than the argv limit)
    let bytes = if let Some(path) = args[2].strip_prefix('@') { hex(&std::fs::read_to_string(path).unwrap()) } else { hex(&args[2]) };
    let r = panic::catch_unwind(move || match ty.as_str() {
        "kernel" => probe::<Kernel>(&bytes),
        "programinfo" => probe::<ProgramInfo>(&bytes),
        "stackoutputs" => probe::<StackOutputs>(&bytes),
        "libpath" => probe::<miden_assembly::LibraryPath>(&bytes),
        "ast" => {
            // bytes are the UTF-8 source text of a program: parse, serialise, deserialise, compare, recompile
            let src = String::from_utf8(bytes.clone()).unwrap();
            match miden_assembly::ast::ProgramAst::parse(&src) {
                Err(e) => format!("REJECTED parse: {e}"),
                Ok(ast) => {
                    let out = ast.to_bytes(miden_assembly::ast::AstSerdeOptions::new(false));
                    match miden_assembly::ast::ProgramAst::from_bytes(&out) {
                        Err(e) => format!("ROUNDTRIP-MISMATCH own bytes rejected: {e}"),
                        Ok(back) => {
                            let a = miden_assembly::Assembler::default().compile_ast(&ast).map(|p| p.hash());
                            let b = miden_assembly::Assembler::default().compile_ast(&back).map(|p| p.hash());
                            match (a, b) {
                                (Ok(x), Ok(y)) if x == y && back == ast => "ROUNDTRIP-OK".to_string(),
                                (Ok(x), Ok(y)) if x == y => "ROUNDTRIP-MISMATCH ast differs (same MAST root)".to_string(),
                                (x, y) => format!("ROUNDTRIP-MISMATCH compile: {:?} vs {:?}", x.map(|h| h.to_string()), y.map(|h| h.to_string())),
                            }
                        }
                    }
                }
            }
        }
        "program" => match miden_assembly::ast::ProgramAst::from_bytes(&bytes) {
            Err(e) => format!("REJECTED {e}"),
            Ok(ast) => {
                let out = ast.to_bytes(miden_assembly::ast::AstSerdeOptions::new(false));
                match miden_assembly::ast::ProgramAst::from_bytes(&out) {
                    Ok(back) if back == ast => "ROUNDTRIP-OK".to_string(),
                    Ok(_) => "ROUNDTRIP-MISMATCH decoded value differs".to_string(),
                    Err(e) => format!("ROUNDTRIP-MISMATCH re-encoded bytes rejected: {e}"),
                }
            }
        },
        "instr" => match <miden_assembly::ast::Instruction as Deserializable>::read_from_bytes(&bytes) { Ok(i) => format!("ACCEPTED {i}"), Err(e) => format!("REJECTED {e}") },
        "proof" => match miden_air::ExecutionProof::from_bytes(&bytes) { Ok(_) => "ACCEPTED".into(), Err(e) => format!("REJECTED {e}") },
        _ => "unknown type".to_string(),
    });
    match r {
        Ok(s) => { println!("{s}"); std::process::exit(if s.starts_with("ROUNDTRIP-MISMATCH") { 3 } else { 0 }); }
        Err(e) => {
            let msg = e.downcast_ref::<String>().cloned().or_else(|| e.downcast_ref::<&str>().map(|s| s.to_string())).unwrap_or_default();
            println!("PANIC {msg}");
            std::process::exit(4);
        }
    }
}
