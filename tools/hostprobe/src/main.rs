//! hostprobe: bounded stand-in `dishonest_host_full` for C09 (adapted from the demo written by the independent mutation
//! sub-agent for C09: a DishonestHost around MemAdviceProvider substitutes attacker values for every hint-producing
//! injector and for Merkle paths / nodes; machine-readable FAILCASE / SUMMARY lines added).
//! C09 demo: prover-supplied hints cannot change results.
//!
//! Every hinted instruction is assembled with the real assembler and executed with the real
//! processor (`processor::execute`) under a DISHONEST host, which answers the hint-producing
//! advice injectors with attacker-chosen values and the Merkle requests with attacker-chosen
//! nodes / paths. For every run that completes, the final stack must be the mathematically
//! correct result (computed natively here). With the honest default host every valid operand must
//! succeed with the correct result. The documented order of `adv_push.n`, `adv_loadw` and
//! `adv_pipe` is checked as well.
//!
//! Prints one PASS/FAIL line per instruction and exits non-zero if any check fails.

use std::collections::BTreeSet;
use std::panic::{catch_unwind, AssertUnwindSafe};
use std::sync::atomic::{AtomicBool, Ordering};

use assembly::Assembler;
use processor::{
    AdviceExtractor, AdviceInjector, AdviceInputs, AdviceProvider, AdviceSource, DefaultHost,
    ExecutionError, ExecutionOptions, Host, HostResponse, MemAdviceProvider, ProcessState, Program,
    StackInputs,
};
use stdlib::StdLibrary;
use vm_core::{
    crypto::{
        hash::{Rpo256, RpoDigest},
        merkle::{MerklePath, MerkleStore, MerkleTree, NodeIndex},
    },
    Felt, FieldElement, QuadExtension, Word, ZERO,
};

type QuadFelt = QuadExtension<Felt>;

/// Goldilocks modulus.
const P: u64 = 0xFFFF_FFFF_0000_0001;

// KNOWN BASELINE ACCEPTANCES
// ================================================================================================
// (instruction, operand, hint) triples for which the UNCHANGED code base already accepts a wrong
// hint. They are reported separately and excluded from the verdict. Empty: none were found.
const KNOWN_BASELINE: &[(&str, &str, &str)] = &[];

// DISHONEST HOST
// ================================================================================================

/// What the dishonest host answers instead of the honest hint. `None` = behave honestly.
#[derive(Default, Clone)]
struct Lies {
    /// answer to U32Clz / U32Ctz / U32Clo / U32Cto / ILog2
    count: Option<Felt>,
    /// answer to Ext2Inv: (b0', b1')
    ext2: Option<[Felt; 2]>,
    /// answer to U64Div: (q_lo, q_hi, r_lo, r_hi)
    u64div: Option<[Felt; 4]>,
    /// answer to MerkleNodeToStack
    node: Option<Word>,
    /// answer to GetMerklePath (MPVERIFY) and UpdateMerkleNode (MRUPDATE)
    path: Option<Vec<RpoDigest>>,
}

/// A host which wraps the default in-memory advice provider, but replaces the honest answers of
/// the hint-producing injectors / Merkle extractors with attacker-chosen values.
struct DishonestHost {
    adv: MemAdviceProvider,
    lies: Lies,
    lies_told: usize,
}

impl DishonestHost {
    fn new(inputs: AdviceInputs, lies: Lies) -> Self {
        Self { adv: MemAdviceProvider::from(inputs), lies, lies_told: 0 }
    }

    fn push(&mut self, v: Felt) -> Result<(), ExecutionError> {
        self.adv.push_stack(AdviceSource::Value(v))
    }
}

impl Host for DishonestHost {
    fn get_advice<S: ProcessState>(
        &mut self,
        process: &S,
        extractor: AdviceExtractor,
    ) -> Result<HostResponse, ExecutionError> {
        if let (AdviceExtractor::GetMerklePath, Some(path)) = (extractor, &self.lies.path) {
            self.lies_told += 1;
            return Ok(HostResponse::MerklePath(MerklePath::new(path.clone())));
        }
        self.adv.get_advice(process, &extractor)
    }

    fn set_advice<S: ProcessState>(
        &mut self,
        process: &S,
        injector: AdviceInjector,
    ) -> Result<HostResponse, ExecutionError> {
        match injector {
            AdviceInjector::U32Clz
            | AdviceInjector::U32Ctz
            | AdviceInjector::U32Clo
            | AdviceInjector::U32Cto
            | AdviceInjector::ILog2 => {
                if let Some(h) = self.lies.count {
                    self.lies_told += 1;
                    self.push(h)?;
                    return Ok(HostResponse::None);
                }
            }
            AdviceInjector::Ext2Inv => {
                if let Some([b0, b1]) = self.lies.ext2 {
                    // same layout as the honest injector: b0' ends up on top of the advice stack
                    self.lies_told += 1;
                    self.push(b1)?;
                    self.push(b0)?;
                    return Ok(HostResponse::None);
                }
            }
            AdviceInjector::U64Div => {
                if let Some([q_lo, q_hi, r_lo, r_hi]) = self.lies.u64div {
                    // same layout as the honest injector: advice stack = [q_lo, q_hi, r_lo, r_hi]
                    self.lies_told += 1;
                    self.push(r_hi)?;
                    self.push(r_lo)?;
                    self.push(q_hi)?;
                    self.push(q_lo)?;
                    return Ok(HostResponse::None);
                }
            }
            AdviceInjector::MerkleNodeToStack => {
                if let Some(node) = self.lies.node {
                    self.lies_told += 1;
                    self.push(node[3])?;
                    self.push(node[2])?;
                    self.push(node[1])?;
                    self.push(node[0])?;
                    return Ok(HostResponse::None);
                }
            }
            AdviceInjector::UpdateMerkleNode => {
                if let Some(path) = &self.lies.path {
                    self.lies_told += 1;
                    return Ok(HostResponse::MerklePath(MerklePath::new(path.clone())));
                }
            }
            _ => {}
        }
        self.adv.set_advice(process, &injector)
    }
}

// EXECUTION HELPERS
// ================================================================================================

/// Set while the VM is running: panics raised inside the VM are reported as "did not complete".
static IN_VM: AtomicBool = AtomicBool::new(false);

enum Outcome {
    /// the run completed; top 16 stack elements, top first
    Done(Vec<u64>),
    /// the run did not complete (execution error or panic)
    Aborted(String),
}

fn compile(src: &str) -> Program {
    Assembler::default()
        .with_library(&StdLibrary::default())
        .expect("failed to load stdlib")
        .compile(src)
        .expect("failed to compile")
}

/// Executes `program` with the given operand stack (`stack[0]` is the TOP of the stack).
fn run<H: Host>(program: &Program, stack_top_first: &[u64], host: H) -> Outcome {
    let inputs = StackInputs::try_from_values(stack_top_first.iter().rev().copied())
        .expect("invalid stack input");
    IN_VM.store(true, Ordering::SeqCst);
    let res = catch_unwind(AssertUnwindSafe(|| {
        processor::execute(program, inputs, host, ExecutionOptions::default())
    }));
    IN_VM.store(false, Ordering::SeqCst);
    match res {
        Ok(Ok(trace)) => {
            let mut out = trace.stack_outputs().stack().to_vec();
            out.truncate(16);
            Outcome::Done(out)
        }
        Ok(Err(e)) => Outcome::Aborted(format!("{e}")),
        Err(_) => Outcome::Aborted("panic".into()),
    }
}

fn run_lying(program: &Program, stack: &[u64], adv: AdviceInputs, lies: Lies) -> Outcome {
    let lying = lies.count.is_some()
        || lies.ext2.is_some()
        || lies.u64div.is_some()
        || lies.node.is_some()
        || lies.path.is_some();
    let mut host = DishonestHost::new(adv, lies);
    let out = run(program, stack, &mut host);
    // sanity check of the demo itself: a completed "dishonest" run must have been lied to
    if lying && matches!(out, Outcome::Done(_)) {
        if host.lies_told == 0 {
            println!("demo bug: the dishonest host was never asked for a hint");
            std::process::exit(2);
        }
    }
    out
}

fn run_honest(program: &Program, stack: &[u64], adv: AdviceInputs) -> Outcome {
    run(program, stack, DefaultHost::new(MemAdviceProvider::from(adv)))
}

/// Pads `top` with zeros up to 16 elements.
fn expect16(top: &[u64]) -> Vec<u64> {
    let mut v = top.to_vec();
    v.resize(16, 0);
    v
}

// REPORTING
// ================================================================================================

#[derive(Default)]
struct Report {
    name: String,
    runs: usize,
    completed: usize,
    honest_runs: usize,
    control_runs: usize,
    violations: Vec<String>,
    n_violations: usize,
    baseline: Vec<String>,
}

impl Report {
    fn new(name: &str) -> Self {
        Self { name: name.into(), ..Default::default() }
    }

    fn violation(&mut self, operand: String, hint: String, detail: String) {
        if KNOWN_BASELINE
            .iter()
            .any(|(i, o, h)| *i == self.name && *o == operand && *h == hint)
        {
            self.baseline.push(format!("operand={operand} hint={hint}: {detail}"));
            return;
        }
        self.n_violations += 1;
        if self.violations.len() < 8 {
            self.violations.push(format!("operand={operand} hint={hint}: {detail}"));
        }
    }

    /// Checks one dishonest run: if it completed, the output must be `expected` (or, if there is
    /// no correct result at all, it must not complete).
    fn check_lying(&mut self, out: Outcome, expected: Option<&[u64]>, operand: String, hint: String) {
        self.runs += 1;
        if let Outcome::Done(got) = out {
            self.completed += 1;
            match expected {
                Some(exp) if got == exp => {}
                Some(exp) => self.violation(
                    operand,
                    hint,
                    {
                        let n = trim(&got).len().max(trim(exp).len());
                        format!(
                            "WRONG RESULT from a completed run: final stack (top first) {:?}, correct {:?}",
                            &got[..n],
                            &exp[..n]
                        )
                    },
                ),
                None => self.violation(
                    operand,
                    hint,
                    format!("run completed with {:?} although no correct result exists", trim(&got)),
                ),
            }
        }
    }

    /// Checks one honest run on a valid operand: it must complete with `expected`.
    fn check_honest(&mut self, out: Outcome, expected: &[u64], operand: String) {
        self.honest_runs += 1;
        match out {
            Outcome::Done(got) if got == expected => {}
            Outcome::Done(got) => self.violation(
                operand,
                "honest".into(),
                format!("honest host: got {:?}, correct {:?}", trim(&got), trim(expected)),
            ),
            Outcome::Aborted(e) => {
                self.violation(operand, "honest".into(), format!("honest host: run failed: {e}"))
            }
        }
    }

    /// Control run: the dishonest host's channel is used to supply the CORRECT hint; the run must
    /// complete with the correct result (shows that the lies really reach the VM).
    fn check_control(&mut self, out: Outcome, expected: &[u64], operand: String) {
        self.control_runs += 1;
        match out {
            Outcome::Done(got) if got == expected => {}
            Outcome::Done(got) => self.violation(
                operand,
                "control".into(),
                format!("correct hint via the dishonest host: got {:?}, correct {:?}", trim(&got), trim(expected)),
            ),
            Outcome::Aborted(e) => self.violation(
                operand,
                "control".into(),
                format!("correct hint via the dishonest host: run failed: {e}"),
            ),
        }
    }

    /// Prints the verdict for this instruction; returns true on PASS.
    fn finish(self) -> bool {
        for b in &self.baseline {
            println!("[BASELINE] {}: already accepted by the unchanged code: {b}", self.name);
        }
        if self.n_violations == 0 {
            println!(
                "[PASS] {:<20} wrong-hint runs: {:>6} ({:>4} completed, all correct); honest-host runs: {:>4} ok; correct-hint controls: {:>4} ok",
                self.name, self.runs, self.completed, self.honest_runs, self.control_runs
            );
            true
        } else {
            println!(
                "[FAIL] {:<20} wrong-hint runs: {:>6} ({:>4} completed); honest-host runs: {:>4}; correct-hint controls: {:>4}; {} violation(s):",
                self.name, self.runs, self.completed, self.honest_runs, self.control_runs, self.n_violations
            );
            for v in &self.violations {
                println!("         {v}");
            }
            if let Some(v) = self.violations.first() {
                println!("FAILCASE {} :: {} violations :: {}", self.name.trim(), self.n_violations, v.to_string().replace('\n', " ").chars().take(900).collect::<String>());
            }
            if self.n_violations > self.violations.len() {
                println!("         ... and {} more", self.n_violations - self.violations.len());
            }
            false
        }
    }
}

/// Drops trailing zeros for printing.
fn trim(v: &[u64]) -> Vec<u64> {
    let mut v = v.to_vec();
    while v.len() > 1 && *v.last().unwrap() == 0 {
        v.pop();
    }
    v
}

// RNG (splitmix64; deterministic)
// ================================================================================================

struct Rng(u64);
impl Rng {
    fn next(&mut self) -> u64 {
        self.0 = self.0.wrapping_add(0x9E37_79B9_7F4A_7C15);
        let mut z = self.0;
        z = (z ^ (z >> 30)).wrapping_mul(0xBF58_476D_1CE4_E5B9);
        z = (z ^ (z >> 27)).wrapping_mul(0x94D0_49BB_1331_11EB);
        z ^ (z >> 31)
    }
    fn felt(&mut self) -> u64 {
        self.next() % P
    }
    fn word(&mut self) -> Word {
        [
            Felt::new(self.felt()),
            Felt::new(self.felt()),
            Felt::new(self.felt()),
            Felt::new(self.felt()),
        ]
    }
}

// U32 COUNT INSTRUCTIONS AND ILOG2
// ================================================================================================

fn u32_operands(rng: &mut Rng) -> Vec<u64> {
    let mut s = BTreeSet::new();
    for v in [0u32, 1, 2, 3, 5, 0x8000_0000, 0xFFFF_FFFF, 0x7FFF_FFFF, 0xFFFF_FFFE, 0xAAAA_AAAA, 0x5555_5555] {
        s.insert(v);
    }
    for k in 0..32 {
        let bit = 1u32 << k;
        s.insert(bit); // single bit
        s.insert(!bit); // single hole
        s.insert(bit - 1); // k trailing ones
        s.insert(!(bit - 1)); // 32 - k leading ones
        s.insert(bit | 1);
        s.insert(bit | 0x8000_0000);
        s.insert(!bit & 0x7FFF_FFFF);
        s.insert(!bit & 0xFFFF_FFFE);
    }
    for _ in 0..24 {
        s.insert(rng.next() as u32);
    }
    s.into_iter().map(|v| v as u64).collect()
}

/// Candidate hints: exhaustive 0..=64, a few mid-size values, a set of large field elements and
/// values derived from the true answer.
fn count_hints(truth: u64, truth_is_valid: bool) -> Vec<u64> {
    let mut s: BTreeSet<u64> = (0..=64).collect();
    s.extend([65, 95, 96, 97, 127, 128, 255, 256, 65535, 65536]);
    s.extend([
        (1 << 32) - 1,
        1 << 32,
        (1 << 32) + 1,
        (1 << 32) + 31,
        (1 << 32) + 32,
        1 << 63,
        (1 << 63) + 1,
        P - 1,
        P - 2,
        P - 31,
        P - 32,
        P - 33,
        P - 63,
        P - 64,
        P - (1 << 32),
        (P - 1) / 2,
        (P + 1) / 2,
    ]);
    s.extend([truth + 32, truth + 64, (1 << 32) + truth, (P - truth) % P, P - 32 + truth % 32]);
    if truth_is_valid {
        s.remove(&truth);
    }
    s.into_iter().filter(|&h| h < P).collect()
}

fn check_count_instr(
    name: &str,
    operands: &[u64],
    valid: impl Fn(u64) -> bool,
    oracle: impl Fn(u64) -> u64,
) -> bool {
    let program = compile(&format!("begin {name} end"));
    let mut rep = Report::new(name);
    for &n in operands {
        let is_valid = valid(n);
        let truth = oracle(n);
        let expected = expect16(&[truth]);
        if is_valid {
            let out = run_honest(&program, &[n], AdviceInputs::default());
            rep.check_honest(out, &expected, format!("{n:#x}"));
            let lies = Lies { count: Some(Felt::new(truth)), ..Default::default() };
            let out = run_lying(&program, &[n], AdviceInputs::default(), lies);
            rep.check_control(out, &expected, format!("{n:#x}"));
        }
        for h in count_hints(truth, is_valid) {
            let lies = Lies { count: Some(Felt::new(h)), ..Default::default() };
            let out = run_lying(&program, &[n], AdviceInputs::default(), lies);
            let exp = if is_valid { Some(expected.as_slice()) } else { None };
            rep.check_lying(out, exp, format!("{n:#x}"), format!("{h}"));
        }
    }
    rep.finish()
}

fn ilog2_operands(rng: &mut Rng) -> Vec<u64> {
    let mut s = BTreeSet::new();
    s.extend([0u64, 1, 2, 3, P - 1, P - 2, (1 << 32) - 1, 1 << 32, (1 << 32) + 1]);
    for k in 0..64 {
        let bit = 1u64 << k;
        s.insert(bit);
        s.insert(bit - 1);
        s.insert(bit + 1);
        s.insert(bit | 5);
        s.insert(bit | (1 << 31));
        s.insert(bit | (1 << 32));
        if k >= 32 {
            // high half has one bit, low half is small / arbitrary
            s.insert(bit | 0xFFFF_FFFF);
            s.insert(bit | (rng.next() & 0xFFFF_FFFF));
        }
    }
    for _ in 0..16 {
        s.insert(rng.next());
        s.insert(rng.next() >> 20);
    }
    s.into_iter().filter(|&v| v < P).collect()
}

// EXT2INV / EXT2DIV
// ================================================================================================

fn q(a0: u64, a1: u64) -> QuadFelt {
    QuadFelt::new(Felt::new(a0), Felt::new(a1))
}

fn q_ints(x: QuadFelt) -> (u64, u64) {
    let [x0, x1] = x.to_base_elements();
    (x0.as_int(), x1.as_int())
}

fn ext2_operands(rng: &mut Rng) -> Vec<QuadFelt> {
    let mut v = vec![
        q(1, 0),
        q(0, 1),
        q(2, 0),
        q(0, 2),
        q(1, 1),
        q(P - 1, 0),
        q(0, P - 1),
        q(P - 1, P - 1),
        q(7, 0),
        q(1 << 32, 1 << 32),
    ];
    for _ in 0..20 {
        v.push(q(rng.felt(), rng.felt()));
    }
    v
}

/// Wrong inverses for `b`. Each comes with a label. The families are described by the value of
/// the product `b * hint` they yield (anything but (1, 0)), plus a few perturbations of the true
/// inverse.
fn ext2_wrong_inverses(b: QuadFelt, rng: &mut Rng) -> Vec<(String, QuadFelt)> {
    let mut out: Vec<(String, QuadFelt)> = Vec::new();
    if b != QuadFelt::ZERO {
        let binv = b.inv();
        let ts = [1u64, 2, 3, P - 1, P - 2, (P + 1) / 2, 1 << 32, rng.felt(), rng.felt()];
        let mut products: Vec<QuadFelt> = vec![q(0, 0), q(0, 1), q(2, 0), q(P - 1, 0), q(1, 1), q(0, P - 1)];
        for &t in &ts {
            let t_f = Felt::new(t);
            let one_minus_t = (Felt::new(1) - t_f).as_int();
            let one_plus_t = (Felt::new(1) + t_f).as_int();
            let neg_t = (-t_f).as_int();
            products.push(q(1, t)); // first coordinate right, second wrong
            products.push(q(t, 0)); // second coordinate right, first wrong
            products.push(q(one_minus_t, t)); // coordinates sum to one
            products.push(q(t, one_minus_t));
            products.push(q(one_plus_t, neg_t));
            products.push(q(one_plus_t, t)); // difference is one
            products.push(q(t, t));
        }
        for pr in products {
            if pr != QuadFelt::ONE {
                let (p0, p1) = q_ints(pr);
                out.push((format!("inv(b)*({p0},{p1})"), binv * pr));
            }
        }
        let (i0, i1) = q_ints(binv);
        let (b0, b1) = q_ints(b);
        out.push(("inv(b)+(1,0)".into(), binv + q(1, 0)));
        out.push(("inv(b)+(0,1)".into(), binv + q(0, 1)));
        out.push(("-inv(b)".into(), -binv));
        out.push(("(inv0,0)".into(), q(i0, 0)));
        out.push(("(0,inv1)".into(), q(0, i1)));
        out.push(("(inv1,inv0)".into(), q(i1, i0)));
        out.push(("conj(inv(b))".into(), binv.conjugate()));
        out.push(("b".into(), b));
        out.push(("conj(b)".into(), b.conjugate()));
        let f_inv = |x: u64| if x == 0 { 0 } else { Felt::new(x).inv().as_int() };
        out.push(("(1/b0,1/b1)".into(), q(f_inv(b0), f_inv(b1))));
        out.retain(|(_, h)| *h != binv);
    }
    out.push(("(1,0)".into(), q(1, 0)));
    out.push(("(0,0)".into(), q(0, 0)));
    out.push(("(0,1)".into(), q(0, 1)));
    for _ in 0..4 {
        out.push(("random".into(), q(rng.felt(), rng.felt())));
    }
    if b != QuadFelt::ZERO {
        let binv = b.inv();
        out.retain(|(_, h)| *h != binv);
    }
    let mut seen = BTreeSet::new();
    out.retain(|(_, h)| seen.insert(q_ints(*h)));
    out
}

fn check_ext2inv(rng: &mut Rng) -> bool {
    let program = compile("begin ext2inv end");
    let mut rep = Report::new("ext2inv");
    let mut operands = ext2_operands(rng);
    operands.push(q(0, 0)); // not invertible: no run may complete
    for a in operands {
        let (a0, a1) = q_ints(a);
        let stack = [a1, a0];
        let op = format!("({a0},{a1})");
        let expected = if a != QuadFelt::ZERO {
            let (i0, i1) = q_ints(a.inv());
            Some(expect16(&[i1, i0]))
        } else {
            None
        };
        if let Some(exp) = &expected {
            rep.check_honest(run_honest(&program, &stack, AdviceInputs::default()), exp, op.clone());
            let lies = Lies { ext2: Some(a.inv().to_base_elements()), ..Default::default() };
            let out = run_lying(&program, &stack, AdviceInputs::default(), lies);
            rep.check_control(out, exp, op.clone());
        }
        for (label, h) in ext2_wrong_inverses(a, rng) {
            let [h0, h1] = h.to_base_elements();
            let lies = Lies { ext2: Some([h0, h1]), ..Default::default() };
            let out = run_lying(&program, &stack, AdviceInputs::default(), lies);
            rep.check_lying(out, expected.as_deref(), op.clone(), format!("{label}=({h0},{h1})"));
        }
    }
    rep.finish()
}

fn check_ext2div(rng: &mut Rng) -> bool {
    let program = compile("begin ext2div end");
    let mut rep = Report::new("ext2div");
    let mut divisors = ext2_operands(rng);
    divisors.push(q(0, 0)); // division by zero: no run may complete
    for b in divisors {
        let dividends = [q(1, 0), q(0, 1), q(3, 5), q(rng.felt(), rng.felt())];
        for a in dividends {
            let (a0, a1) = q_ints(a);
            let (b0, b1) = q_ints(b);
            let stack = [b1, b0, a1, a0];
            let op = format!("a=({a0},{a1}) b=({b0},{b1})");
            let expected = if b != QuadFelt::ZERO {
                let (c0, c1) = q_ints(a * b.inv());
                Some(expect16(&[c1, c0]))
            } else {
                None
            };
            if let Some(exp) = &expected {
                rep.check_honest(run_honest(&program, &stack, AdviceInputs::default()), exp, op.clone());
                let lies = Lies { ext2: Some(b.inv().to_base_elements()), ..Default::default() };
                let out = run_lying(&program, &stack, AdviceInputs::default(), lies);
                rep.check_control(out, exp, op.clone());
            }
            for (label, h) in ext2_wrong_inverses(b, rng) {
                let [h0, h1] = h.to_base_elements();
                let lies = Lies { ext2: Some([h0, h1]), ..Default::default() };
                let out = run_lying(&program, &stack, AdviceInputs::default(), lies);
                rep.check_lying(out, expected.as_deref(), op.clone(), format!("{label}=({h0},{h1})"));
            }
        }
    }
    rep.finish()
}

// STD::MATH::U64 DIVISION ROUTINES
// ================================================================================================

fn u64_values(rng: &mut Rng) -> Vec<u64> {
    let mut v = vec![
        0,
        1,
        2,
        3,
        7,
        (1 << 31) - 1,
        1 << 31,
        (1 << 32) - 1,
        1 << 32,
        (1 << 32) + 1,
        (1 << 33) + 5,
        1 << 62,
        (1 << 63) - 1,
        1 << 63,
        (1 << 63) + 1,
        u64::MAX - 1,
        u64::MAX,
        0xFFFF_FFFF_0000_0000,
        0x0000_0001_FFFF_FFFF,
    ];
    for _ in 0..3 {
        v.push(rng.next());
        v.push(rng.next() >> 32);
        v.push(rng.next() >> 17);
    }
    v
}

fn limbs(x: u64) -> (u64, u64) {
    (x & 0xFFFF_FFFF, x >> 32)
}

/// Wrong (q_lo, q_hi, r_lo, r_hi) hints for a / b. Limbs are field elements (may exceed 32 bits).
fn u64div_wrong_hints(a: u64, b: u64, rng: &mut Rng) -> Vec<(String, [u64; 4])> {
    let mut pairs: Vec<(String, u64, u64)> = Vec::new();
    let (tq, tr) = if b != 0 { (a / b, a % b) } else { (0, 0) };
    if b != 0 {
        pairs.push(("(q+1,r-b)".into(), tq.wrapping_add(1), tr.wrapping_sub(b)));
        pairs.push(("(q-1,r+b)".into(), tq.wrapping_sub(1), tr.wrapping_add(b)));
        pairs.push(("(q,r+1)".into(), tq, tr.wrapping_add(1)));
        pairs.push(("(q,r-1)".into(), tq, tr.wrapping_sub(1)));
        pairs.push(("(q+1,r)".into(), tq.wrapping_add(1), tr));
        pairs.push(("(q-1,r)".into(), tq.wrapping_sub(1), tr));
        pairs.push(("(q+2^32,r)".into(), tq.wrapping_add(1 << 32), tr));
        pairs.push(("(q,r+2^32)".into(), tq, tr.wrapping_add(1 << 32)));
        pairs.push(("(q^2^63,r)".into(), tq ^ (1 << 63), tr));
        pairs.push(("(r,q)".into(), tr, tq));
        pairs.push(("(b,q)".into(), b, tq));
        // q'*b + r' == a (mod 2^64), but with an overflow somewhere
        for k in [1u64, 2, 3, 1 << 31, 1 << 32, 1 << 63, u64::MAX, rng.next()] {
            let q1 = tq.wrapping_add(k);
            let r1 = a.wrapping_sub(q1.wrapping_mul(b));
            pairs.push((format!("(q+{k},a-(q+{k})*b mod 2^64)"), q1, r1));
        }
    }
    pairs.push(("(0,a)".into(), 0, a));
    pairs.push(("(a,0)".into(), a, 0));
    pairs.push(("(1,a-b)".into(), 1, a.wrapping_sub(b)));
    pairs.push(("(0,0)".into(), 0, 0));
    pairs.push(("(max,max)".into(), u64::MAX, u64::MAX));
    pairs.push(("random".into(), rng.next(), rng.next()));

    let mut out: Vec<(String, [u64; 4])> = Vec::new();
    for (label, q1, r1) in pairs {
        if b != 0 && q1 == tq && r1 == tr {
            continue;
        }
        let (ql, qh) = limbs(q1);
        let (rl, rh) = limbs(r1);
        out.push((label, [ql, qh, rl, rh]));
    }
    if b != 0 {
        // the right 64-bit values, but in limbs which are not 32-bit values
        let (ql, qh) = limbs(tq);
        let (rl, rh) = limbs(tr);
        if qh >= 1 {
            out.push(("q as (q_lo+2^32,q_hi-1)".into(), [ql + (1 << 32), qh - 1, rl, rh]));
        }
        if rh >= 1 {
            out.push(("r as (r_lo+2^32,r_hi-1)".into(), [ql, qh, rl + (1 << 32), rh - 1]));
        }
        out.push(("q as (q_lo+2^32, q_hi-1 mod p)".into(), [(ql + (1 << 32)) % P, if qh == 0 { P - 1 } else { qh - 1 }, rl, rh]));
        out.push(("r as (r_lo+2^32, r_hi-1 mod p)".into(), [ql, qh, (rl + (1 << 32)) % P, if rh == 0 { P - 1 } else { rh - 1 }]));
        out.push(("q_lo=p-1".into(), [P - 1, qh, rl, rh]));
        out.push(("r_lo=p-1".into(), [ql, qh, P - 1, rh]));
    }
    out
}

fn check_u64(proc_name: &str, rng: &mut Rng) -> bool {
    let program = compile(&format!("use.std::math::u64 begin exec.u64::{proc_name} end"));
    let mut rep = Report::new(&format!("u64::{proc_name}"));
    let vals = u64_values(rng);
    for &a in &vals {
        for &b in &vals {
            let (al, ah) = limbs(a);
            let (bl, bh) = limbs(b);
            let stack = [bh, bl, ah, al];
            let op = format!("a={a:#x} b={b:#x}");
            let expected = if b != 0 {
                let (ql, qh) = limbs(a / b);
                let (rl, rh) = limbs(a % b);
                Some(match proc_name {
                    "div" => expect16(&[qh, ql]),
                    "mod" => expect16(&[rh, rl]),
                    "divmod" => expect16(&[rh, rl, qh, ql]),
                    _ => unreachable!(),
                })
            } else {
                None
            };
            if let Some(exp) = &expected {
                rep.check_honest(run_honest(&program, &stack, AdviceInputs::default()), exp, op.clone());
                let (ql, qh) = limbs(a / b);
                let (rl, rh) = limbs(a % b);
                let lies = Lies {
                    u64div: Some([Felt::new(ql), Felt::new(qh), Felt::new(rl), Felt::new(rh)]),
                    ..Default::default()
                };
                let out = run_lying(&program, &stack, AdviceInputs::default(), lies);
                rep.check_control(out, exp, op.clone());
            }
            for (label, h) in u64div_wrong_hints(a, b, rng) {
                let lies = Lies {
                    u64div: Some([Felt::new(h[0]), Felt::new(h[1]), Felt::new(h[2]), Felt::new(h[3])]),
                    ..Default::default()
                };
                let out = run_lying(&program, &stack, AdviceInputs::default(), lies);
                rep.check_lying(
                    out,
                    expected.as_deref(),
                    op.clone(),
                    format!("{label}: q=({},{}) r=({},{}) [lo,hi]", h[0], h[1], h[2], h[3]),
                );
            }
        }
    }
    rep.finish()
}

// MERKLE OPERATIONS
// ================================================================================================

struct Trees {
    a: MerkleTree,
    b: MerkleTree,
    store: MerkleStore,
}

fn build_trees(rng: &mut Rng) -> Trees {
    let leaves_a: Vec<Word> = (0..8).map(|_| rng.word()).collect();
    let leaves_b: Vec<Word> = (0..8).map(|_| rng.word()).collect();
    let a = MerkleTree::new(leaves_a).unwrap();
    let b = MerkleTree::new(leaves_b).unwrap();
    let mut store = MerkleStore::from(&a);
    store.extend(b.inner_nodes());
    Trees { a, b, store }
}

/// The node of `tree` at (depth, index), if that is a position of the tree (depth >= 1).
fn oracle_node(tree: &MerkleTree, depth: u64, index: u64) -> Option<Word> {
    if depth == 0 || depth > tree.depth() as u64 || index >= (1 << depth) {
        return None;
    }
    let idx = NodeIndex::new(depth as u8, index).ok()?;
    tree.get_node(idx).ok().map(|d| d.into())
}

/// Root of `tree` after the node at (depth, index) has been replaced by `value`.
fn oracle_new_root(tree: &MerkleTree, depth: u64, index: u64, value: Word) -> Option<Word> {
    oracle_node(tree, depth, index)?;
    let path = tree.get_path(NodeIndex::new(depth as u8, index).ok()?).ok()?;
    let mut node: RpoDigest = value.into();
    let mut idx = index;
    for sibling in path.nodes() {
        node = if idx & 1 == 0 {
            Rpo256::merge(&[node, *sibling])
        } else {
            Rpo256::merge(&[*sibling, node])
        };
        idx >>= 1;
    }
    Some(node.into())
}

fn word_ints_top_first(w: Word) -> [u64; 4] {
    [w[3].as_int(), w[2].as_int(), w[1].as_int(), w[0].as_int()]
}

fn valid_positions(depth: u8) -> Vec<(u64, u64)> {
    let mut v = Vec::new();
    for d in 1..=depth as u64 {
        for i in 0..(1u64 << d) {
            v.push((d, i));
        }
    }
    v
}

/// (depth, index) pairs an attacker may put on the stack, valid and invalid.
fn claimed_positions() -> Vec<(u64, u64)> {
    let mut v = valid_positions(3);
    v.extend([
        (0, 0),
        (0, 1),
        (1, 2),
        (1, 3),
        (2, 4),
        (2, 5),
        (2, 7),
        (3, 8),
        (3, 9),
        (3, 13),
        (3, 15),
        (3, 16),
        (3, (1 << 32) + 5),
        (3, (1 << 63) + 5),
        (3, P - 1),
        (4, 0),
        (4, 5),
        (4, 13),
        (4, 16),
        (5, 5),
        (63, 5),
        (64, 0),
        (64, 5),
        (65, 5),
        ((1 << 32) + 3, 5),
        (P - 1, 0),
    ]);
    v
}

/// Paths the attacker may serve, built from the true path of tree A at `base` (and tree B).
fn path_variants(t: &Trees, base: (u64, u64), rng: &mut Rng) -> Vec<(String, Vec<RpoDigest>)> {
    let idx = NodeIndex::new(base.0 as u8, base.1).unwrap();
    let p: Vec<RpoDigest> = t.a.get_path(idx).unwrap().nodes().to_vec();
    let pb: Vec<RpoDigest> = t.b.get_path(idx).unwrap().nodes().to_vec();
    let extra: RpoDigest = rng.word().into();
    let mut v: Vec<(String, Vec<RpoDigest>)> = Vec::new();
    v.push((format!("A.path{base:?}"), p.clone()));
    v.push((format!("A.path{base:?}[1..]"), p[1..].to_vec()));
    v.push((format!("A.path{base:?}[..len-1]"), p[..p.len() - 1].to_vec()));
    let mut longer = p.clone();
    longer.push(extra);
    v.push((format!("A.path{base:?}+[x]"), longer));
    let mut longer = vec![extra];
    longer.extend(p.iter());
    v.push((format!("[x]+A.path{base:?}"), longer));
    let mut longer = p.clone();
    longer.push(t.a.root());
    v.push((format!("A.path{base:?}+[root]"), longer));
    if p.len() >= 2 {
        let mut sw = p.clone();
        sw.swap(0, 1);
        v.push((format!("A.path{base:?} swapped"), sw));
    }
    v.push((format!("B.path{base:?}"), pb));
    v.push(("empty".into(), vec![]));
    v
}

fn check_merkle(instr: &str, rng: &mut Rng) -> bool {
    let t = build_trees(rng);
    let program = compile(&format!("begin {instr} end"));
    let mut rep = Report::new(instr);
    let root = t.a.root();
    let root_w: Word = root.into();
    let r = word_ints_top_first(root_w);
    let v_new = rng.word();
    let vn = word_ints_top_first(v_new);
    let adv = || AdviceInputs::default().with_merkle_store(t.store.clone());

    // builds the operand stack (top first) and the expected output for a claim (d, i) and, for
    // mtree_verify, a claimed node value
    let stack_for = |d: u64, i: u64, claimed_node: Word| -> Vec<u64> {
        let c = word_ints_top_first(claimed_node);
        match instr {
            "mtree_get" => vec![d, i, r[0], r[1], r[2], r[3]],
            "mtree_set" => vec![d, i, r[0], r[1], r[2], r[3], vn[0], vn[1], vn[2], vn[3]],
            "mtree_verify" => vec![c[0], c[1], c[2], c[3], d, i, r[0], r[1], r[2], r[3]],
            _ => unreachable!(),
        }
    };
    let expected_for = |d: u64, i: u64, claimed_node: Word| -> Option<Vec<u64>> {
        let truth = oracle_node(&t.a, d, i)?;
        let tn = word_ints_top_first(truth);
        match instr {
            "mtree_get" => Some(expect16(&[tn[0], tn[1], tn[2], tn[3], r[0], r[1], r[2], r[3]])),
            "mtree_set" => {
                let nr = word_ints_top_first(oracle_new_root(&t.a, d, i, v_new)?);
                Some(expect16(&[tn[0], tn[1], tn[2], tn[3], nr[0], nr[1], nr[2], nr[3]]))
            }
            "mtree_verify" => {
                if claimed_node == truth {
                    Some(expect16(&[tn[0], tn[1], tn[2], tn[3], d, i, r[0], r[1], r[2], r[3]]))
                } else {
                    None // a wrong node must never verify
                }
            }
            _ => unreachable!(),
        }
    };

    // honest host: every position of the tree works
    for (d, i) in valid_positions(3) {
        let truth = oracle_node(&t.a, d, i).unwrap();
        let exp = expected_for(d, i, truth).unwrap();
        let out = run_honest(&program, &stack_for(d, i, truth), adv());
        rep.check_honest(out, &exp, format!("depth={d} index={i}"));
        let true_path = t.a.get_path(NodeIndex::new(d as u8, i).unwrap()).unwrap().nodes().to_vec();
        let lies = Lies { node: Some(truth), path: Some(true_path), ..Default::default() };
        let out = run_lying(&program, &stack_for(d, i, truth), adv(), lies);
        rep.check_control(out, &exp, format!("depth={d} index={i}"));
    }

    // dishonest host
    let bases = valid_positions(3);
    for (d, i) in claimed_positions() {
        for &base in &bases {
            // only combine a claim with "related" base positions to keep the run time reasonable:
            // same index modulo the tree width, same depth, parent / child, or first / last leaf
            let related = base.1 == i % (1 << base.0)
                || base == (d, i)
                || base.0 == d
                || base == (3, 0)
                || base == (3, 7)
                || base == (d.wrapping_sub(1), i >> 1)
                || base == (d + 1, i << 1);
            if !related {
                continue;
            }
            let base_idx = NodeIndex::new(base.0 as u8, base.1).unwrap();
            let mut nodes: Vec<(String, Word)> = vec![
                (format!("A.node{base:?}"), t.a.get_node(base_idx).unwrap().into()),
                (format!("B.node{base:?}"), t.b.get_node(base_idx).unwrap().into()),
                ("zero".into(), [ZERO; 4]),
            ];
            if let Some(truth) = oracle_node(&t.a, d, i) {
                nodes.push(("true node".into(), truth));
            }
            for (plabel, path) in path_variants(&t, base, rng) {
                for (nlabel, node) in &nodes {
                    // honest answer for a valid claim is not a lie; skip it
                    let honest_path = oracle_node(&t.a, d, i).is_some()
                        && path
                            == t.a.get_path(NodeIndex::new(d as u8, i).unwrap()).unwrap().nodes().to_vec();
                    if honest_path && Some(*node) == oracle_node(&t.a, d, i) {
                        continue;
                    }
                    let lies = Lies {
                        node: Some(*node),
                        path: Some(path.clone()),
                        ..Default::default()
                    };
                    let out = run_lying(&program, &stack_for(d, i, *node), adv(), lies);
                    let exp = expected_for(d, i, *node);
                    rep.check_lying(
                        out,
                        exp.as_deref(),
                        format!("depth={d} index={i}"),
                        format!("node={nlabel} path={plabel}"),
                    );
                }
            }
        }
    }
    rep.finish()
}

// ADVICE STACK ORDER
// ================================================================================================

fn check_adv_order() -> bool {
    let mut rep = Report::new("adv_push/loadw/pipe");
    // advice stack, top first: 101, 102, ...
    let adv_vals: Vec<u64> = (101..=124).collect();
    let adv = || AdviceInputs::default().with_stack_values(adv_vals.iter().copied()).unwrap();

    // adv_push.n: the first value popped ends up deepest
    for n in 1..=16usize {
        let program = compile(&format!("begin adv_push.{n} end"));
        let mut exp: Vec<u64> = adv_vals[..n].iter().rev().copied().collect();
        exp.resize(16, 0);
        for honest in [true, false] {
            let out = if honest {
                run_honest(&program, &[], adv())
            } else {
                run_lying(&program, &[], adv(), Lies::default())
            };
            rep.check_honest(out, &exp, format!("adv_push.{n}"));
        }
    }

    // adv_loadw: overwrites the top word, same order as adv_push.4
    let program = compile("begin adv_loadw end");
    let exp = expect16(&[104, 103, 102, 101, 5, 6]);
    rep.check_honest(run_honest(&program, &[1, 2, 3, 4, 5, 6], adv()), &exp, "adv_loadw".into());

    // two adv_loadw in a row consume consecutive words
    let program = compile("begin adv_loadw padw adv_loadw end");
    let exp = expect16(&[108, 107, 106, 105, 104, 103, 102, 101]);
    rep.check_honest(run_honest(&program, &[], adv()), &exp, "adv_loadw x2".into());

    // adv_pipe: [C, B, A, a] -> [E, D, A, a + 2]; mem[a] = D = first word popped, mem[a+1] = E
    let program = compile(
        "begin push.1000 padw padw padw adv_pipe padw mem_loadw.1000 padw mem_loadw.1001 end",
    );
    let exp = vec![
        108, 107, 106, 105, // mem[1001] = second word popped
        104, 103, 102, 101, // mem[1000] = first word popped
        108, 107, 106, 105, 104, 103, 102, 101, // operand stack after adv_pipe
    ];
    rep.check_honest(run_honest(&program, &[], adv()), &exp, "adv_pipe".into());

    // address is incremented by two and the third word is untouched
    let program = compile("begin push.1000 push.1.2.3.4 padw padw adv_pipe dropw dropw end");
    let exp = expect16(&[4, 3, 2, 1, 1002]);
    rep.check_honest(run_honest(&program, &[], adv()), &exp, "adv_pipe (addr)".into());

    // adv_push after adv_pipe continues with the ninth value
    let program = compile("begin push.1000 padw padw padw adv_pipe dropw dropw dropw drop adv_push.2 end");
    let exp = expect16(&[110, 109]);
    rep.check_honest(run_honest(&program, &[], adv()), &exp, "adv_pipe + adv_push.2".into());

    rep.finish()
}

// MAIN
// ================================================================================================

fn main() {
    // runs which panic inside the VM count as "did not complete"; keep the output readable
    let default_hook = std::panic::take_hook();
    std::panic::set_hook(Box::new(move |info| {
        if !IN_VM.load(Ordering::SeqCst) {
            default_hook(info);
        }
    }));

    let mut rng = Rng(0xC09);
    let mut ok = true;

    let u32_ops = u32_operands(&mut rng);
    let is_u32 = |_n: u64| true;
    ok &= check_count_instr("u32clz", &u32_ops, is_u32, |n| (n as u32).leading_zeros() as u64);
    ok &= check_count_instr("u32ctz", &u32_ops, is_u32, |n| (n as u32).trailing_zeros() as u64);
    ok &= check_count_instr("u32clo", &u32_ops, is_u32, |n| (n as u32).leading_ones() as u64);
    ok &= check_count_instr("u32cto", &u32_ops, is_u32, |n| (n as u32).trailing_ones() as u64);

    let ilog2_ops = ilog2_operands(&mut rng);
    ok &= check_count_instr(
        "ilog2",
        &ilog2_ops,
        |n| n != 0,
        |n| if n == 0 { 0 } else { 63 - n.leading_zeros() as u64 },
    );

    ok &= check_ext2inv(&mut rng);
    ok &= check_ext2div(&mut rng);

    ok &= check_u64("div", &mut rng);
    ok &= check_u64("mod", &mut rng);
    ok &= check_u64("divmod", &mut rng);

    ok &= check_merkle("mtree_get", &mut rng);
    ok &= check_merkle("mtree_set", &mut rng);
    ok &= check_merkle("mtree_verify", &mut rng);

    ok &= check_adv_order();

    println!("SUMMARY ok={}", ok);
    if ok {
        println!("PASS: no dishonest host could change a result; honest host succeeds on all valid operands");
    } else {
        println!("FAIL: some completed run produced a wrong result (see above)");
        std::process::exit(1);
    }
}
