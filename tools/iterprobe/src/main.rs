//! iterprobe
//! Bounded check of C14 on a family of programs (straight line with stack overflow, loops, call with
//! a deep caller stack, memory, locals):
//!  (1) determinism: two executions give identical main traces;
//!  (2) the expected-cycles hint (64, 128, 1024, 4096) and debug-mode assembly do not change the main
//!      trace (system, decoder op bits, stack columns) nor the outputs;
//!  (3) step iterator vs trace: at every clock t the reported stack has exactly b0[t] elements, its top
//!      16 equal the stack columns of row t, fmp and ctx equal the system columns of row t; stepping
//!      back from the end reproduces the forward states;
//!  (4) `clk` pushes the clock value;
//!  (5) decorator-only instructions (adv.push_mapval, adv.push_mapvaln, adv.insert_mem) behave the same
//!      under debug-mode and release assembly.
//! Prints `FAIL <program> <kind> clk=<t> <detail>` (first 3 per kind and program), exit 1 on failure.
use miden_air::trace::{CLK_COL_IDX, CTX_COL_IDX, FMP_COL_IDX, STACK_TRACE_OFFSET, stack::B0_COL_IDX};
use miden_assembly::Assembler;
use miden_processor::{crypto::RpoDigest, execute, execute_iter, AdviceInputs, DefaultHost, ExecutionOptions, ExecutionTrace, MemAdviceProvider, Program, StackInputs, VmState};
use vm_core::Felt;
use std::collections::HashMap;
use winter_prover::Trace;

fn col(t: &ExecutionTrace, c: usize, n: usize) -> Vec<u64> {
    let seg = t.main_segment();
    (0..n).map(|r| seg.get(c, r).as_int()).collect()
}

fn main() {
    std::panic::set_hook(Box::new(|_| {}));
    let progs: Vec<(&str, &str, Vec<u64>)> = vec![
        ("overflow", "begin push.1 push.2 push.3 add add drop end", (1..=16).map(|x| 100 + x).collect()),
        ("deep-inputs", "begin dup.3 movup.5 swap drop drop end", (1..=16).map(|x| 200 + x).collect()),
        ("loop", "begin push.3 push.1 while.true push.1 sub dup neq.0 end drop end", vec![]),
        ("call-deep-caller", "proc.foo push.7 add end begin push.1 push.2 push.3 call.foo drop drop drop end", (1..=16).map(|x| 300 + x).collect()),
        ("memory-locals", "proc.bar.2 push.5 loc_store.1 loc_load.1 end begin push.9 mem_store.3 exec.bar mem_load.3 add drop end", vec![]),
        ("clk", "begin push.0 drop clk clk drop drop end", vec![]),
    ];
    let mut fails = 0u64;
    let mut checks = 0u64;
    for (name, src, ins) in &progs {
        let mut shown: HashMap<&str, u32> = HashMap::new();
        let mut fail = |kind: &'static str, clk: usize, detail: String| {
            fails += 1;
            let c = shown.entry(kind).or_insert(0);
            *c += 1;
            if *c <= 3 { println!("FAIL {name} {kind} clk={clk} {detail}"); }
        };
        let compile = |debug: bool| -> Program { Assembler::default().with_debug_mode(debug).compile(*src).unwrap() };
        let inputs = || { let mut v = ins.clone(); v.reverse(); StackInputs::try_from_values(v).unwrap() };
        let run = |p: &Program, exp: u32| execute(p, inputs(), DefaultHost::default(), ExecutionOptions::new(None, exp, false).unwrap()).unwrap();
        let p = compile(false);
        let base = run(&p, 64);
        let n = base.get_trace_len() - ExecutionTrace::NUM_RAND_ROWS;
        let width = base.main_segment().num_cols().min(STACK_TRACE_OFFSET + 19);
        let snapshot = |t: &ExecutionTrace| -> Vec<Vec<u64>> { (0..width).map(|c| col(t, c, n.min(t.get_trace_len() - ExecutionTrace::NUM_RAND_ROWS))).collect() };
        let ref_cols = snapshot(&base);
        // (1) determinism, (2) hint / debug independence
        let variants: Vec<(&str, ExecutionTrace)> = vec![
            ("rerun", run(&p, 64)), ("expected_cycles=128", run(&p, 128)), ("expected_cycles=1024", run(&p, 1024)),
            ("expected_cycles=4096", run(&p, 4096)), ("debug-assembly", run(&compile(true), 64)),
        ];
        for (vn, t) in &variants {
            checks += 1;
            if t.stack_outputs() != base.stack_outputs() { fail("outputs-differ", 0, format!("variant {vn}")); }
            let m = t.get_trace_len() - ExecutionTrace::NUM_RAND_ROWS;
            // compare the rows both traces have (padding may differ in length, not in content of executed rows)
            let last_clk = col(&base, CLK_COL_IDX, n).len().min(m);
            let cols = snapshot(t);
            for c in 0..width {
                for r in 0..last_clk.min(cols[c].len()) {
                    if cols[c][r] != ref_cols[c][r] { fail("trace-differs", r, format!("variant {vn} column {c}: {} vs {}", cols[c][r], ref_cols[c][r])); break; }
                }
            }
        }
        // (3) step iterator vs trace
        let b0 = col(&base, STACK_TRACE_OFFSET + B0_COL_IDX, n);
        let fmp = col(&base, FMP_COL_IDX, n);
        let ctx = col(&base, CTX_COL_IDX, n);
        let stack_cols: Vec<Vec<u64>> = (0..16).map(|i| col(&base, STACK_TRACE_OFFSET + i, n)).collect();
        let mut it = execute_iter(&p, inputs(), DefaultHost::default());
        let mut fwd: Vec<VmState> = vec![];
        while let Some(st) = it.next() {
            match st { Ok(s) => fwd.push(s), Err(e) => { fail("iterator-error", fwd.len(), format!("{e}")); break; } }
        }
        for s in &fwd {
            let t = s.clk as usize;
            if t >= n { continue; }
            checks += 1;
            if s.stack.len() as u64 != b0[t] { fail("stack-depth", t, format!("iterator reports {} elements, trace row holds depth {}", s.stack.len(), b0[t])); }
            for i in 0..16.min(s.stack.len()) {
                if s.stack[i].as_int() != stack_cols[i][t] { fail("stack-top", t, format!("position {i}: {} vs trace {}", s.stack[i].as_int(), stack_cols[i][t])); break; }
            }
            if s.fmp.as_int() != fmp[t] { fail("fmp", t, format!("{} vs trace {}", s.fmp.as_int(), fmp[t])); }
            if u64::from(u32::from(s.ctx)) != ctx[t] { fail("ctx", t, format!("{:?} vs trace {}", s.ctx, ctx[t])); }
        }
        // backward stepping reproduces the forward states
        while let Some(s) = it.back() {
            checks += 1;
            match fwd.iter().find(|f| f.clk == s.clk) {
                Some(f) => {
                    if s.stack != f.stack || s.fmp != f.fmp || s.ctx != f.ctx || s.memory != f.memory {
                        fail("backward-differs", s.clk as usize, format!("back() at clk {} differs from the forward state at the same clock", s.clk));
                    }
                }
                None => fail("backward-differs", s.clk as usize, "no forward state with this clock".to_string()),
            }
        }
        // zig-zag: next(), back(), next() at every clock; the state reported after turning around must be the
        // forward state of the same clock (stack, fmp, ctx and memory)
        {
            let mut it = execute_iter(&p, inputs(), DefaultHost::default());
            let mut guard = 0usize;
            loop {
                guard += 1;
                if guard > 4 * n + 64 { break; }
                let a = match it.next() { Some(Ok(s)) => s, _ => break };
                if a.clk == 0 { continue; }
                let b = it.back();
                let c = it.next();
                checks += 1;
                match (b, c) {
                    (Some(_), Some(Ok(c))) => {
                        match fwd.iter().find(|f| f.clk == c.clk) {
                            Some(f) => {
                                if c.clk != a.clk { fail("zigzag-differs", a.clk as usize, format!("next, back, next at clk {} ends at clk {}", a.clk, c.clk)); break; }
                                if c.stack != f.stack || c.fmp != f.fmp || c.ctx != f.ctx || c.memory != f.memory {
                                    fail("zigzag-differs", c.clk as usize, format!("next() after back() at clk {}: ctx {:?} fmp {} vs forward ctx {:?} fmp {}", c.clk, c.ctx, c.fmp.as_int(), f.ctx, f.fmp.as_int()));
                                }
                            }
                            None => fail("zigzag-differs", c.clk as usize, "no forward state with this clock".to_string()),
                        }
                    }
                    _ => { fail("zigzag-differs", a.clk as usize, "iterator ended while turning around".to_string()); break; }
                }
            }
        }
        // (4) clk pushes the clock value
        if *name == "clk" {
            for w in fwd.windows(2) {
                if let Some(vm_core::Operation::Clk) = w[1].op {
                    checks += 1;
                    if w[1].stack[0].as_int() != w[0].clk as u64 { fail("clk-value", w[1].clk as usize, format!("pushed {} at clock {}", w[1].stack[0].as_int(), w[0].clk)); }
                }
            }
        }
    }
    // (5) instructions that compile to a decorator only (zero cycles): debug-mode assembly must not
    //     change what the program does (advice injectors still run, same outputs)
    let adv_cases: Vec<(&str, &str, Vec<u64>, Vec<([u64; 4], Vec<u64>)>)> = vec![
        ("adv.push_mapval", "begin adv.push_mapval dropw adv_push.4 swapw dropw end", vec![1, 2, 3, 4], vec![([1, 2, 3, 4], vec![8, 7, 6, 5])]),
        ("adv.push_mapvaln-mid-span", "begin push.0 push.0 add drop adv.push_mapvaln dropw adv_push.6 movup.6 drop movup.6 drop movup.6 drop movup.6 drop movup.6 drop movup.6 drop end", vec![1, 2, 3, 4], vec![([1, 2, 3, 4], vec![11, 12, 13, 14, 15])]),
        ("adv.insert_mem+push_mapval", "begin mem_storew.2 dropw mem_storew.3 push.2.4 movdn.4 movdn.4 adv.insert_mem adv.push_mapval dropw adv_loadw swapw adv_loadw swapw end", vec![8, 7, 6, 5, 4, 3, 2, 1], vec![]),
    ];
    for (name, src, stack, map) in &adv_cases {
        let run = |debug: bool| -> Result<Vec<u64>, String> {
            let p = Assembler::default().with_debug_mode(debug).compile(*src).map_err(|e| format!("asm: {e}"))?;
            let adv = AdviceInputs::default().with_map(map.iter().map(|(k, v)| (RpoDigest::try_from(*k).unwrap(), v.iter().map(|&x| Felt::new(x)).collect::<Vec<_>>())));
            let host = DefaultHost::new(MemAdviceProvider::from(adv));
            execute(&p, StackInputs::try_from_values(stack.clone()).unwrap(), host, ExecutionOptions::default())
                .map(|t| t.stack_outputs().stack().to_vec()).map_err(|e| format!("{e}"))
        };
        checks += 1;
        let (rel, dbg) = (run(false), run(true));
        if rel != dbg {
            fails += 1;
            println!("FAIL {name} debug-assembly-differs clk=0 release {:?} vs debug {:?}", rel, dbg);
        }
    }
    // (6) turning around at the first state must not panic: next() (clock 0) followed by back()
    {
        checks += 1;
        let p = Assembler::default().compile("begin push.1 drop end").unwrap();
        let r = std::panic::catch_unwind(|| {
            let mut it = execute_iter(&p, StackInputs::default(), DefaultHost::default());
            let first = it.next();
            let b = it.back();
            let again = it.next();
            (first.map(|s| s.map(|v| v.clk).ok()), b.map(|v| v.clk), again.map(|s| s.map(|v| v.clk).ok()))
        });
        if r.is_err() { fails += 1; println!("FAIL turnaround-at-clk-0 iterator-panic clk=0 next() then back() panics"); }
    }
    // (7) debug-mode assembly must accept what release assembly accepts (a decorator in front of exec)
    {
        checks += 1;
        let src = "proc.foo push.1 drop end begin debug.stack exec.foo end";
        let rel = std::panic::catch_unwind(|| Assembler::default().compile(src).is_ok());
        let dbg = std::panic::catch_unwind(|| Assembler::default().with_debug_mode(true).compile(src).is_ok());
        match (rel, dbg) {
            (Ok(a), Ok(b)) if a == b => {}
            (a, b) => { fails += 1; println!("FAIL debug.stack-before-exec debug-assembly-panics clk=0 release {:?} vs debug {:?}", a.map_err(|_| "panic"), b.map_err(|_| "panic")); }
        }
    }
    println!("SUMMARY programs={} checks={checks} failures={fails}", progs.len() + adv_cases.len() + 2);
    std::process::exit(if fails > 0 { 1 } else { 0 });
}
