//! proveit '<masm source>' [stack inputs, top first ...]
//! Assembles, proves (96-bit, blake3) and verifies with /repo's prover and verifier.
//! Prints PROVED-AND-VERIFIED <security> | EXECERR | PROVEERR | VERIFYERR | PANIC.
use miden_vm::{prove, verify, Assembler, DefaultHost, ProvingOptions, StackInputs};
use std::panic;

fn main() {
    let args: Vec<String> = std::env::args().collect();
    let src = args[1].clone();
    let mut vals: Vec<u64> = args[2..].iter().map(|s| s.parse::<u64>().unwrap()).collect();
    vals.reverse();
    let r = panic::catch_unwind(move || {
        let program = match Assembler::default().compile(&src) {
            Ok(p) => p,
            Err(e) => return format!("ASMERR {e}"),
        };
        let inputs = StackInputs::try_from_values(vals).unwrap();
        let (outputs, proof) = match prove(&program, inputs.clone(), DefaultHost::default(), ProvingOptions::default()) {
            Ok(x) => x,
            Err(e) => return format!("PROVEERR {e}"),
        };
        match verify(program.into(), inputs, outputs, proof) {
            Ok(level) => format!("PROVED-AND-VERIFIED {level}"),
            Err(e) => format!("VERIFYERR {e}"),
        }
    });
    match r {
        Ok(s) => { println!("{s}"); std::process::exit(if s.starts_with("PROVED") { 0 } else { 3 }); }
        Err(e) => {
            let msg = e.downcast_ref::<String>().cloned().or_else(|| e.downcast_ref::<&str>().map(|s| s.to_string())).unwrap_or_default();
            println!("PANIC {msg}");
            std::process::exit(4);
        }
    }
}
