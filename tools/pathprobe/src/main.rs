//! pathprobe <max_len>
//! Bounded exhaustive check of `LibraryPath::read_from` (C19): every byte string of length <= max_len
//! over a small alphabet chosen around the grammar ('#', ':', letters of "sys"/"exec", a letter, a
//! digit, '_', a 2-byte UTF-8 char) is framed with its u16 length and decoded.  Checked per input:
//! no panic; the verdict equals an independent oracle written from the doc comment of
//! `LibraryPath::new`; an accepted value re-encodes to bytes that decode to an equal value.
//! Prints `FAIL <hex> <what>` for the first failures and a summary line; exit 1 on failure.
use miden_assembly::LibraryPath;
use std::panic;
use vm_core::utils::{Deserializable, Serializable, SliceReader};

const ALPHABET: &[u8] = &[b'#', b':', b's', b'y', b'e', b'x', b'c', b'a', b'1', b'_', 0xC3, 0xA9];

/// documented grammar: components separated by "::", each non-empty, at most 255 bytes, starting with
/// an ASCII letter and made of ASCII alphanumerics / '_'; the first component may be exactly "#sys"
/// or "#exec"; the whole path is non-empty and at most 1023 bytes.
fn oracle(s: &str) -> bool {
    if s.is_empty() || s.len() > 1023 {
        return false;
    }
    for (i, c) in s.split("::").enumerate() {
        if i == 0 && (c == "#sys" || c == "#exec") {
            continue;
        }
        let mut chars = c.chars();
        match chars.next() {
            Some(f) if f.is_ascii_alphabetic() => {}
            _ => return false,
        }
        if c.len() > 255 || !chars.all(|ch| ch.is_ascii_alphanumeric() || ch == '_') {
            return false;
        }
    }
    true
}

fn hex(b: &[u8]) -> String {
    b.iter().map(|x| format!("{x:02x}")).collect()
}

fn main() {
    let max_len: usize = std::env::args().nth(1).and_then(|s| s.parse().ok()).unwrap_or(5);
    panic::set_hook(Box::new(|_| {}));
    let (mut total, mut accepted, mut fails) = (0u64, 0u64, 0u64);
    for len in 0..=max_len {
        let mut idx = vec![0usize; len];
        loop {
            let body: Vec<u8> = idx.iter().map(|&i| ALPHABET[i]).collect();
            let mut bytes = (len as u16).to_le_bytes().to_vec();
            bytes.extend_from_slice(&body);
            total += 1;
            let b2 = bytes.clone();
            let r = panic::catch_unwind(move || {
                let mut rd = SliceReader::new(&b2);
                match LibraryPath::read_from(&mut rd) {
                    Err(_) => None,
                    Ok(v) => {
                        let out = v.to_bytes();
                        let mut r2 = SliceReader::new(&out);
                        let again = LibraryPath::read_from(&mut r2).ok();
                        Some((again.as_ref() == Some(&v), v.num_components()))
                    }
                }
            });
            let expect = std::str::from_utf8(&body).map(oracle).unwrap_or(false);
            let what = match r {
                Err(_) => Some("panic".to_string()),
                Ok(None) if expect => Some("rejected a path the documented grammar accepts".to_string()),
                Ok(Some(_)) if !expect => Some("accepted a path the documented grammar rejects".to_string()),
                Ok(Some((false, _))) => Some("accepted value does not round-trip".to_string()),
                Ok(Some((true, n))) => {
                    accepted += 1;
                    let comps = std::str::from_utf8(&body).unwrap().split("::").count();
                    if n != comps { Some(format!("num_components {n} != {comps}")) } else { None }
                }
                Ok(None) => None,
            };
            if let Some(w) = what {
                fails += 1;
                if fails <= 5 {
                    println!("FAIL {} {}", hex(&bytes), w);
                }
            }
            // next index vector
            let mut k = 0;
            while k < len {
                idx[k] += 1;
                if idx[k] < ALPHABET.len() { break; }
                idx[k] = 0;
                k += 1;
            }
            if k == len { break; }
        }
    }
    println!("SUMMARY inputs={total} accepted={accepted} failures={fails} max_len={max_len} alphabet={}", ALPHABET.len());
    std::process::exit(if fails > 0 { 1 } else { 0 });
}
