//! [adapted for /verif from the demo of the third C16 sub-agent: FAILCASE / SUMMARY lines added]
//! C16 demo: "standard-library integer arithmetic is exact".
//!
//! For every exported procedure of `std::math::u64` and `std::math::u256` this program assembles
//! `begin exec.<module>::<proc> end` with the real assembler against the real (build-time
//! assembled) standard library, executes it with the real processor on
//!   * the full limb-boundary grid,
//!   * all shift / rotation amounts 0..=64,
//!   * zero divisors,
//!   * u256 covering families (single limb position, pairs of limb positions, carry / borrow
//!     chains of every start and length, block products),
//!   * seeded random operands (random limbs, equal limbs, boundary limbs),
//! each time with 0..=12 extra elements below the operands, and compares the COMPLETE final stack
//! (and success / failure) with an independent reference written with u128 / two-u128 arithmetic.
//!
//! Exit code 0 = PASS, 1 = FAIL.

use std::collections::{BTreeMap, BTreeSet};
use std::panic::{catch_unwind, AssertUnwindSafe};
use std::sync::atomic::{AtomicUsize, Ordering};
use std::sync::Mutex;
use std::time::Instant;

use assembly::{Assembler, Library};
use processor::{DefaultHost, ExecutionOptions, Process, Program, StackInputs};
use stdlib::StdLibrary;

// CONSTANTS
// ================================================================================================

const M: u32 = u32::MAX;
/// Modulus of the VM's base field.
const P: u64 = 0xFFFF_FFFF_0000_0001;
const SEED: u64 = 0xC16_C16_C16_C16;
const LIMB_GRID: [u32; 9] =
    [0, 1, 2, 0xFFFF, 0x1_0000, 0x7FFF_FFFF, 0x8000_0000, 0xFFFF_FFFE, 0xFFFF_FFFF];
const TRI: [u32; 3] = [0, 1, M];
const MIN_STACK_DEPTH: usize = 16;

// RNG (splitmix64; seeded, reproducible)
// ================================================================================================

#[derive(Clone)]
struct Rng(u64);

impl Rng {
    fn for_case(family: u64, idx: u64) -> Self {
        let mut r = Rng(SEED
            ^ family.wrapping_mul(0x9E37_79B9_7F4A_7C15)
            ^ idx.wrapping_mul(0xD1B5_4A32_D192_ED03).rotate_left(17));
        r.next();
        r.next();
        r
    }
    fn next(&mut self) -> u64 {
        self.0 = self.0.wrapping_add(0x9E37_79B9_7F4A_7C15);
        let mut z = self.0;
        z = (z ^ (z >> 30)).wrapping_mul(0xBF58_476D_1CE4_E5B9);
        z = (z ^ (z >> 27)).wrapping_mul(0x94D0_49BB_1331_11EB);
        z ^ (z >> 31)
    }
    fn u32(&mut self) -> u32 {
        (self.next() >> 32) as u32
    }
    fn below(&mut self, n: u64) -> u64 {
        self.next() % n
    }
    /// A limb which is a boundary value half of the time.
    fn mixed_limb(&mut self) -> u32 {
        if self.below(2) == 0 {
            LIMB_GRID[self.below(9) as usize]
        } else {
            self.u32()
        }
    }
}

// 256-BIT REFERENCE ARITHMETIC (two u128 halves)
// ================================================================================================

#[derive(Clone, Copy, PartialEq, Eq, Debug)]
struct U256 {
    hi: u128,
    lo: u128,
}

/// Full 128 x 128 -> 256 bit product, returned as (hi, lo).
fn mul_wide(x: u128, y: u128) -> (u128, u128) {
    const MASK: u128 = u64::MAX as u128;
    let (x1, x0) = (x >> 64, x & MASK);
    let (y1, y0) = (y >> 64, y & MASK);
    let p00 = x0 * y0;
    let p01 = x0 * y1;
    let p10 = x1 * y0;
    let p11 = x1 * y1;
    let mid = (p00 >> 64) + (p01 & MASK) + (p10 & MASK);
    let lo = (p00 & MASK) | (mid << 64);
    let hi = p11 + (p01 >> 64) + (p10 >> 64) + (mid >> 64);
    (hi, lo)
}

impl U256 {
    const ZERO: U256 = U256 { hi: 0, lo: 0 };

    /// limbs[0] is the least significant 32-bit limb.
    fn from_limbs(l: [u32; 8]) -> Self {
        let mut lo = 0u128;
        let mut hi = 0u128;
        for i in 0..4 {
            lo |= (l[i] as u128) << (32 * i);
            hi |= (l[i + 4] as u128) << (32 * i);
        }
        U256 { hi, lo }
    }
    fn limbs(&self) -> [u32; 8] {
        let mut l = [0u32; 8];
        for i in 0..4 {
            l[i] = (self.lo >> (32 * i)) as u32;
            l[i + 4] = (self.hi >> (32 * i)) as u32;
        }
        l
    }
    fn add(&self, o: &U256) -> U256 {
        let (lo, c) = self.lo.overflowing_add(o.lo);
        U256 { hi: self.hi.wrapping_add(o.hi).wrapping_add(c as u128), lo }
    }
    fn sub(&self, o: &U256) -> U256 {
        let (lo, b) = self.lo.overflowing_sub(o.lo);
        U256 { hi: self.hi.wrapping_sub(o.hi).wrapping_sub(b as u128), lo }
    }
    fn mul(&self, o: &U256) -> U256 {
        let (h, lo) = mul_wide(self.lo, o.lo);
        let hi = h
            .wrapping_add(self.lo.wrapping_mul(o.hi))
            .wrapping_add(self.hi.wrapping_mul(o.lo));
        U256 { hi, lo }
    }
    fn and(&self, o: &U256) -> U256 {
        U256 { hi: self.hi & o.hi, lo: self.lo & o.lo }
    }
    fn or(&self, o: &U256) -> U256 {
        U256 { hi: self.hi | o.hi, lo: self.lo | o.lo }
    }
    fn xor(&self, o: &U256) -> U256 {
        U256 { hi: self.hi ^ o.hi, lo: self.lo ^ o.lo }
    }
    fn is_zero(&self) -> bool {
        self.hi == 0 && self.lo == 0
    }
    /// most significant limb first (the order used on the operand stack)
    fn stack_limbs(&self) -> Vec<u64> {
        self.limbs().iter().rev().map(|&v| v as u64).collect()
    }
    fn hex(&self) -> String {
        format!("0x{:032x}{:032x}", self.hi, self.lo)
    }
}

/// Second, structurally different implementation used only to cross-check the reference itself:
/// schoolbook product on 32-bit limbs with a u64 accumulator per column step.
fn mul_schoolbook(a: &U256, b: &U256) -> U256 {
    let (x, y) = (a.limbs(), b.limbs());
    let mut r = [0u32; 8];
    for i in 0..8 {
        let mut carry = 0u64;
        for j in 0..(8 - i) {
            let t = (x[i] as u64) * (y[j] as u64) + (r[i + j] as u64) + carry;
            r[i + j] = t as u32;
            carry = t >> 32;
        }
    }
    U256::from_limbs(r)
}

fn add_schoolbook(a: &U256, b: &U256) -> U256 {
    let (x, y) = (a.limbs(), b.limbs());
    let mut r = [0u32; 8];
    let mut c = 0u64;
    for i in 0..8 {
        let t = x[i] as u64 + y[i] as u64 + c;
        r[i] = t as u32;
        c = t >> 32;
    }
    U256::from_limbs(r)
}

fn reference_self_test() {
    let mut rng = Rng::for_case(0x5E1F, 0);
    let mut vals = vec![];
    for &v in &TRI {
        vals.push(U256::from_limbs([v; 8]));
    }
    for _ in 0..2000 {
        let mut l = [0u32; 8];
        for x in l.iter_mut() {
            *x = rng.mixed_limb();
        }
        vals.push(U256::from_limbs(l));
    }
    for i in 0..vals.len() {
        let a = vals[i];
        let b = vals[(i * 7 + 3) % vals.len()];
        assert_eq!(U256::from_limbs(a.limbs()), a);
        assert_eq!(a.mul(&b), mul_schoolbook(&a, &b), "reference mul self-test");
        assert_eq!(a.add(&b), add_schoolbook(&a, &b), "reference add self-test");
        assert_eq!(a.add(&b).sub(&b), a, "reference sub self-test");
        assert_eq!(a.sub(&b).add(&b), a, "reference sub self-test");
        assert_eq!(a.xor(&b).xor(&b), a);
        assert_eq!(a.and(&b).or(&a.xor(&b)), a.or(&b));
    }
    // 64-bit helpers
    for i in 0..2000u64 {
        let a = rng.next() >> (i % 64);
        assert_eq!(r_clz(a), a.leading_zeros() as u64);
        assert_eq!(r_ctz(a), a.trailing_zeros() as u64);
        assert_eq!(r_clz(!a), a.leading_ones() as u64);
        assert_eq!(r_ctz(!a), a.trailing_ones() as u64);
        let s = (i % 64) as u32;
        assert_eq!(r_rotl(a, s as u64), a.rotate_left(s));
        assert_eq!(r_rotr(a, s as u64), a.rotate_right(s));
    }
}

// OPERANDS
// ================================================================================================

#[derive(Clone, Debug)]
enum Ops {
    /// (a, b): stack [b_hi, b_lo, a_hi, a_lo, ...]
    B64(u64, u64),
    /// a: stack [a_hi, a_lo, ...]
    U64(u64),
    /// (a, s): stack [s, a_hi, a_lo, ...]
    S64(u64, u64),
    /// (a, b): stack [b7..b0, a7..a0, ...]
    B256(U256, U256),
    /// a: stack [a7..a0, ...]
    U256(U256),
}

fn hi(x: u64) -> u64 {
    x >> 32
}
fn lo(x: u64) -> u64 {
    x & 0xFFFF_FFFF
}

impl Ops {
    /// operand part of the initial stack, top of the stack first
    fn stack(&self) -> Vec<u64> {
        match self {
            Ops::B64(a, b) => vec![hi(*b), lo(*b), hi(*a), lo(*a)],
            Ops::U64(a) => vec![hi(*a), lo(*a)],
            Ops::S64(a, s) => vec![*s, hi(*a), lo(*a)],
            Ops::B256(a, b) => {
                let mut v = b.stack_limbs();
                v.extend(a.stack_limbs());
                v
            }
            Ops::U256(a) => a.stack_limbs(),
        }
    }
    fn describe(&self) -> String {
        match self {
            Ops::B64(a, b) => format!("a=0x{:016x} b=0x{:016x}", a, b),
            Ops::U64(a) => format!("a=0x{:016x}", a),
            Ops::S64(a, s) => format!("a=0x{:016x} shift={}", a, s),
            Ops::B256(a, b) => format!("a={} b={}", a.hex(), b.hex()),
            Ops::U256(a) => format!("a={}", a.hex()),
        }
    }
}

// REFERENCE SEMANTICS
// ================================================================================================

/// Expected outcome: the values that replace the operands on the stack, or a failed execution.
#[derive(Clone, Debug, PartialEq, Eq)]
enum Exp {
    Stack(Vec<u64>),
    Fail,
}

fn w64(x: u64) -> Vec<u64> {
    vec![hi(x), lo(x)]
}
fn flag(b: bool) -> Exp {
    Exp::Stack(vec![b as u64])
}
fn r_clz(a: u64) -> u64 {
    let mut n = 0;
    let mut bit = 63i32;
    while bit >= 0 && (a >> bit) & 1 == 0 {
        n += 1;
        bit -= 1;
    }
    n
}
fn r_ctz(a: u64) -> u64 {
    let mut n = 0;
    let mut bit = 0;
    while bit < 64 && (a >> bit) & 1 == 0 {
        n += 1;
        bit += 1;
    }
    n
}
fn r_rotl(a: u64, s: u64) -> u64 {
    let y = (a as u128) << s; // s < 64
    (y as u64) | ((y >> 64) as u64)
}
fn r_rotr(a: u64, s: u64) -> u64 {
    let y = ((a as u128) << 64) >> s; // s < 64
    ((y >> 64) as u64) | (y as u64)
}

#[derive(Clone, Copy, PartialEq, Eq, Debug)]
enum Kind {
    U64Bin,
    U64Un,
    U64Shift,
    U256Bin,
    U256Un,
}

struct Spec {
    module: &'static str,
    name: &'static str,
    kind: Kind,
    doc: &'static str,
}

const U64: &str = "u64";
const U256M: &str = "u256";

fn specs() -> Vec<Spec> {
    use Kind::*;
    let s = |module, name, kind, doc| Spec { module, name, kind, doc };
    vec![
        s(U64, "overflowing_add", U64Bin, "[b,a] -> [overflow_flag, c_hi, c_lo], c=(a+b)%2^64"),
        s(U64, "wrapping_add", U64Bin, "[b,a] -> [c_hi, c_lo], c=(a+b)%2^64"),
        s(U64, "wrapping_sub", U64Bin, "[b,a] -> [c_hi, c_lo], c=(a-b)%2^64"),
        s(U64, "overflowing_sub", U64Bin, "[b,a] -> [underflow_flag, c_hi, c_lo], c=(a-b)%2^64"),
        s(U64, "wrapping_mul", U64Bin, "[b,a] -> [c_hi, c_lo], c=(a*b)%2^64"),
        s(U64, "overflowing_mul", U64Bin, "[b,a] -> [c_hi, c_mid_hi, c_mid_lo, c_lo], c=a*b (128 bit)"),
        s(U64, "lt", U64Bin, "[b,a] -> [a<b]"),
        s(U64, "gt", U64Bin, "[b,a] -> [a>b]"),
        s(U64, "lte", U64Bin, "[b,a] -> [a<=b]"),
        s(U64, "gte", U64Bin, "[b,a] -> [a>=b]"),
        s(U64, "eq", U64Bin, "[b,a] -> [a==b]"),
        s(U64, "neq", U64Bin, "[b,a] -> [a!=b]"),
        s(U64, "eqz", U64Un, "[a] -> [a==0]"),
        s(U64, "min", U64Bin, "[b,a] -> [min(a,b)]"),
        s(U64, "max", U64Bin, "[b,a] -> [max(a,b)]"),
        s(U64, "div", U64Bin, "[b,a] -> [a/b], fails if b==0"),
        s(U64, "mod", U64Bin, "[b,a] -> [a%b], fails if b==0"),
        s(U64, "divmod", U64Bin, "[b,a] -> [r_hi, r_lo, q_hi, q_lo], fails if b==0"),
        s(U64, "and", U64Bin, "[b,a] -> [a&b]"),
        s(U64, "or", U64Bin, "[b,a] -> [a|b]"),
        s(U64, "xor", U64Bin, "[b,a] -> [a^b]"),
        s(U64, "shl", U64Shift, "[s,a] -> [(a<<s)%2^64], error unless s in [0,64)"),
        s(U64, "shr", U64Shift, "[s,a] -> [a>>s], error unless s in [0,64)"),
        s(U64, "rotl", U64Shift, "[s,a] -> [rotl(a,s)], error unless s in [0,64)"),
        s(U64, "rotr", U64Shift, "[s,a] -> [rotr(a,s)], error unless s in [0,64)"),
        s(U64, "clz", U64Un, "[a] -> [leading zeros]"),
        s(U64, "ctz", U64Un, "[a] -> [trailing zeros]"),
        s(U64, "clo", U64Un, "[a] -> [leading ones]"),
        s(U64, "cto", U64Un, "[a] -> [trailing ones]"),
        s(U256M, "add_unsafe", U256Bin, "[b7..b0,a7..a0] -> [c7..c0], c=(a+b)%2^256"),
        s(U256M, "sub_unsafe", U256Bin, "[b7..b0,a7..a0] -> [c7..c0], c=(a-b)%2^256"),
        s(U256M, "and", U256Bin, "[b7..b0,a7..a0] -> [c7..c0], c=a&b"),
        s(U256M, "or", U256Bin, "[b7..b0,a7..a0] -> [c7..c0], c=a|b"),
        s(U256M, "xor", U256Bin, "[b7..b0,a7..a0] -> [c7..c0], c=a^b"),
        s(U256M, "iszero_unsafe", U256Un, "[a7..a0] -> [a==0]"),
        s(U256M, "eq_unsafe", U256Bin, "[b7..b0,a7..a0] -> [a==b]"),
        s(U256M, "mul_unsafe", U256Bin, "[b7..b0,a7..a0] -> [c7..c0], c=(a*b)%2^256"),
    ]
}

/// The independent reference. All 64-bit results are derived from u128 arithmetic.
fn reference(spec: &Spec, ops: &Ops) -> Exp {
    const TWO64: u128 = 1u128 << 64;
    match (spec.module, spec.name, ops) {
        (U64, name, Ops::B64(a, b)) => {
            let (a, b) = (*a, *b);
            let (wa, wb) = (a as u128, b as u128);
            match name {
                "overflowing_add" => {
                    let s = wa + wb;
                    let mut v = vec![(s >> 64) as u64];
                    v.extend(w64(s as u64));
                    Exp::Stack(v)
                }
                "wrapping_add" => Exp::Stack(w64(((wa + wb) % TWO64) as u64)),
                "wrapping_sub" => Exp::Stack(w64(((TWO64 + wa - wb) % TWO64) as u64)),
                "overflowing_sub" => {
                    let mut v = vec![(wa < wb) as u64];
                    v.extend(w64(((TWO64 + wa - wb) % TWO64) as u64));
                    Exp::Stack(v)
                }
                "wrapping_mul" => Exp::Stack(w64(((wa * wb) % TWO64) as u64)),
                "overflowing_mul" => {
                    let p = wa * wb;
                    let mut v = w64((p >> 64) as u64);
                    v.extend(w64(p as u64));
                    Exp::Stack(v)
                }
                "lt" => flag(wa < wb),
                "gt" => flag(wa > wb),
                "lte" => flag(wa <= wb),
                "gte" => flag(wa >= wb),
                "eq" => flag(wa == wb),
                "neq" => flag(wa != wb),
                "min" => Exp::Stack(w64(if wa < wb { a } else { b })),
                "max" => Exp::Stack(w64(if wa > wb { a } else { b })),
                "div" => {
                    if b == 0 {
                        Exp::Fail
                    } else {
                        Exp::Stack(w64((wa / wb) as u64))
                    }
                }
                "mod" => {
                    if b == 0 {
                        Exp::Fail
                    } else {
                        Exp::Stack(w64((wa % wb) as u64))
                    }
                }
                "divmod" => {
                    if b == 0 {
                        Exp::Fail
                    } else {
                        let (q, r) = (wa / wb, wa % wb);
                        assert!(q * wb + r == wa && r < wb);
                        let mut v = w64(r as u64);
                        v.extend(w64(q as u64));
                        Exp::Stack(v)
                    }
                }
                "and" => Exp::Stack(w64(a & b)),
                "or" => Exp::Stack(w64(a | b)),
                "xor" => Exp::Stack(w64(a ^ b)),
                _ => panic!("no reference for u64::{name}"),
            }
        }
        (U64, name, Ops::U64(a)) => {
            let a = *a;
            match name {
                "eqz" => flag(a == 0),
                "clz" => Exp::Stack(vec![r_clz(a)]),
                "ctz" => Exp::Stack(vec![r_ctz(a)]),
                "clo" => Exp::Stack(vec![r_clz(!a)]),
                "cto" => Exp::Stack(vec![r_ctz(!a)]),
                _ => panic!("no reference for u64::{name}"),
            }
        }
        (U64, name, Ops::S64(a, s)) => {
            let (a, s) = (*a, *s);
            if s >= 64 {
                return Exp::Fail;
            }
            match name {
                "shl" => Exp::Stack(w64((((a as u128) << s) % TWO64) as u64)),
                "shr" => Exp::Stack(w64(((a as u128) >> s) as u64)),
                "rotl" => Exp::Stack(w64(r_rotl(a, s))),
                "rotr" => Exp::Stack(w64(r_rotr(a, s))),
                _ => panic!("no reference for u64::{name}"),
            }
        }
        (U256M, name, Ops::B256(a, b)) => match name {
            "add_unsafe" => Exp::Stack(a.add(b).stack_limbs()),
            "sub_unsafe" => Exp::Stack(a.sub(b).stack_limbs()),
            "mul_unsafe" => Exp::Stack(a.mul(b).stack_limbs()),
            "and" => Exp::Stack(a.and(b).stack_limbs()),
            "or" => Exp::Stack(a.or(b).stack_limbs()),
            "xor" => Exp::Stack(a.xor(b).stack_limbs()),
            "eq_unsafe" => flag(a == b),
            _ => panic!("no reference for u256::{name}"),
        },
        (U256M, "iszero_unsafe", Ops::U256(a)) => flag(a.is_zero()),
        _ => panic!("no reference for {}::{} with {:?}", spec.module, spec.name, ops),
    }
}

/// Deviations of the UNCHANGED code base from the masm documentation / from the property that were
/// found by running this demo on the unpatched tree. They are reported separately and excluded
/// from the verdict, but only if the observed behaviour is exactly the (wrong) behaviour recorded
/// here.
fn baseline_deviation(
    spec: &Spec,
    ops: &Ops,
    exp: &Exp,
    extras: &[u64],
    actual: &Outcome,
) -> Option<String> {
    match (spec.module, spec.name, ops) {
        // doc: "The shift value should be in the range [0, 64), otherwise it will result in an
        // error" -- but rotl by 64 succeeds and behaves like a rotation by 32 ...
        (U64, "rotl", Ops::S64(a, 64)) => {
            if matches(&Exp::Stack(w64(r_rotl(*a, 32))), extras, actual) {
                return Some(
                    "u64::rotl with shift 64 does not fail (returns a rotated by 32)".to_string(),
                );
            }
        }
        // ... and rotr by 64 succeeds and returns the operand unchanged.
        (U64, "rotr", Ops::S64(a, 64)) => {
            if matches(&Exp::Stack(w64(*a)), extras, actual) {
                return Some(
                    "u64::rotr with shift 64 does not fail (returns a unchanged)".to_string(),
                );
            }
        }
        // mul_unsafe computes the right product and leaves the elements below the operands in
        // place, but it ends with MORE elements on the stack than [c7..c0, ...]: while it runs the
        // stack depth drops to the minimum depth of 16 (where `drop` shifts in zeros) and the
        // following pushes then grow the stack again, so zeros get inserted below the caller's
        // elements. All values agree; only the final depth is larger.
        (U256M, "mul_unsafe", _) => {
            if let (Exp::Stack(r), Outcome::Stack(s)) = (exp, actual) {
                let want = full_stack(r, extras);
                if s.len() > want.len()
                    && s[..want.len()] == want[..]
                    && s[want.len()..].iter().all(|&v| v == 0)
                {
                    return Some(format!(
                        "u256::mul_unsafe: values correct, but final stack depth is {} instead of {} ({} zero elements inserted at the bottom)",
                        s.len(),
                        want.len(),
                        s.len() - want.len()
                    ));
                }
            }
        }
        _ => {}
    }
    None
}

// CASE FAMILIES
// ================================================================================================

struct Shared {
    grid64: Vec<u64>,
    chains: Vec<(U256, U256)>,
    nrand: usize,
}

fn build_chains() -> Vec<(U256, U256)> {
    let mut out: Vec<(U256, U256)> = vec![];
    let mut rng = Rng::for_case(0xC4A1, 0);
    let push = |out: &mut Vec<(U256, U256)>, a: [u32; 8], b: [u32; 8]| {
        out.push((U256::from_limbs(a), U256::from_limbs(b)));
        out.push((U256::from_limbs(b), U256::from_limbs(a)));
    };
    for s in 0..8usize {
        for len in 1..=(8 - s) {
            let chain = s..s + len;
            // (1) addition carry chain: a = ones over the chain, b = 1 at the start of the chain
            for bg in 0..3 {
                let mut a = [0u32; 8];
                let mut b = [0u32; 8];
                if bg > 0 {
                    for i in 0..8 {
                        a[i] = if bg == 1 { rng.u32() >> 1 } else { TRI[(i + s) % 3] };
                        b[i] = if bg == 1 { rng.u32() >> 1 } else { 0 };
                    }
                }
                for i in chain.clone() {
                    a[i] = M;
                    b[i] = 0;
                }
                b[s] = 1;
                push(&mut out, a, b);
                // (2) every limb of the chain generates and receives a carry
                let mut b2 = b;
                for i in chain.clone() {
                    b2[i] = M;
                }
                push(&mut out, a, b2);
            }
            // (3) subtraction borrow chain through zero limbs of a
            for bg in [0u32, 1, M, 0x8000_0000] {
                let mut a = [bg; 8];
                let mut b = [0u32; 8];
                for i in chain.clone() {
                    a[i] = 0;
                }
                b[s] = 1;
                push(&mut out, a, b);
            }
            // (4) subtraction borrow chain through all-ones limbs of b: a borrow is generated at
            //     limb s and every following chain limb has b_i + borrow = 2^32
            for fill in 0..5 {
                let mut a = [0u32; 8];
                let mut b = [0u32; 8];
                b[s] = 1;
                for i in chain.clone().skip(1) {
                    b[i] = M;
                    a[i] = match fill {
                        0 => 0,
                        1 => 1,
                        2 => M,
                        3 => 0x8000_0000,
                        _ => rng.u32(),
                    };
                }
                for i in (s + len)..8 {
                    a[i] = if fill % 2 == 0 { 5 } else { 0 };
                }
                push(&mut out, a, b);
                // same, with the borrow generated by a_s < b_s for non-trivial limbs
                let mut a2 = a;
                let mut b2 = b;
                a2[s] = 0x7FFF_FFFF;
                b2[s] = 0x8000_0000;
                push(&mut out, a2, b2);
            }
        }
    }
    // (5) block products: ones over [s, s+len) times ones over [t, t+k)
    for s in 0..8usize {
        for len in 1..=(8 - s) {
            for t in 0..8usize {
                for k in 1..=(8 - t) {
                    let mut a = [0u32; 8];
                    let mut b = [0u32; 8];
                    for i in s..s + len {
                        a[i] = M;
                    }
                    for i in t..t + k {
                        b[i] = M;
                    }
                    out.push((U256::from_limbs(a), U256::from_limbs(b)));
                }
            }
        }
    }
    out
}

const F_GRID: u64 = 1;
const F_ZERODIV: u64 = 2;
const F_RANDOM: u64 = 3;
const F_ONEPOS: u64 = 4;
const F_TWOPOS: u64 = 5;
const F_CHAINS: u64 = 6;
const F_TRIALL: u64 = 7;

const N_ZERODIV: usize = 81 + 1000;

fn families(kind: Kind, sh: &Shared) -> Vec<(u64, &'static str, usize)> {
    match kind {
        Kind::U64Bin => vec![
            (F_GRID, "9^4 limb grid", 6561),
            (F_ZERODIV, "zero divisor", N_ZERODIV),
            (F_RANDOM, "random", sh.nrand),
        ],
        Kind::U64Un => vec![(F_GRID, "9^2 limb grid", 81), (F_RANDOM, "random", sh.nrand)],
        Kind::U64Shift => {
            vec![(F_GRID, "9^2 grid x shift 0..=64", 81 * 65), (F_RANDOM, "random", sh.nrand)]
        }
        Kind::U256Bin => vec![
            (F_ONEPOS, "one limb position x backgrounds", 8 * 9 * 9),
            (F_TWOPOS, "two limb positions x backgrounds", 28 * 81 * 9),
            (F_CHAINS, "carry/borrow chains + block products", sh.chains.len()),
            (F_RANDOM, "random", sh.nrand),
        ],
        Kind::U256Un => vec![(F_TRIALL, "{0,1,2^32-1}^8", 6561), (F_RANDOM, "random", sh.nrand)],
    }
}

fn random_u64_pair(rng: &mut Rng, idx: usize) -> (u64, u64) {
    let mk = |h: u32, l: u32| ((h as u64) << 32) | l as u64;
    match idx % 6 {
        0 => (rng.next(), rng.next()),
        // equal high limbs
        1 => {
            let h = rng.u32();
            (mk(h, rng.u32()), mk(h, rng.u32()))
        }
        // equal low limbs
        2 => {
            let l = rng.u32();
            (mk(rng.u32(), l), mk(rng.u32(), l))
        }
        // boundary / random limb mix
        3 => (mk(rng.mixed_limb(), rng.mixed_limb()), mk(rng.mixed_limb(), rng.mixed_limb())),
        // equal high limbs from the boundary set, low limbs close to each other
        4 => {
            let h = rng.mixed_limb();
            let l = rng.u32();
            let d = rng.below(3) as u32;
            (mk(h, l), mk(h, l.wrapping_add(d).wrapping_sub(1)))
        }
        // small divisor / small operands of random bit length
        _ => {
            let sa = rng.below(64);
            let sb = rng.below(64);
            (rng.next() >> sa, rng.next() >> sb)
        }
    }
}

fn random_u256(rng: &mut Rng) -> U256 {
    let mut l = [0u32; 8];
    for x in l.iter_mut() {
        *x = rng.u32();
    }
    U256::from_limbs(l)
}

fn random_u256_pair(rng: &mut Rng, idx: usize) -> (U256, U256) {
    match idx % 5 {
        0 => (random_u256(rng), random_u256(rng)),
        // each limb pair equal with probability 1/2
        1 => {
            let a = random_u256(rng).limbs();
            let mut b = random_u256(rng).limbs();
            for i in 0..8 {
                if rng.below(2) == 0 {
                    b[i] = a[i];
                }
            }
            (U256::from_limbs(a), U256::from_limbs(b))
        }
        // boundary / random limb mix
        2 => {
            let mut a = [0u32; 8];
            let mut b = [0u32; 8];
            for i in 0..8 {
                a[i] = rng.mixed_limb();
                b[i] = rng.mixed_limb();
            }
            (U256::from_limbs(a), U256::from_limbs(b))
        }
        // limbs from {0, 1, 2^32-1} only
        3 => {
            let mut a = [0u32; 8];
            let mut b = [0u32; 8];
            for i in 0..8 {
                a[i] = TRI[rng.below(3) as usize];
                b[i] = TRI[rng.below(3) as usize];
            }
            (U256::from_limbs(a), U256::from_limbs(b))
        }
        // equal operands except (possibly) one limb
        _ => {
            let a = random_u256(rng).limbs();
            let mut b = a;
            if rng.below(4) != 0 {
                let i = rng.below(8) as usize;
                b[i] = if rng.below(2) == 0 { rng.u32() } else { b[i].wrapping_add(1) };
            }
            (U256::from_limbs(a), U256::from_limbs(b))
        }
    }
}

fn make_ops(kind: Kind, fam: u64, idx: usize, sh: &Shared) -> Ops {
    let mut rng = Rng::for_case(fam ^ ((kind as u64) << 8), idx as u64);
    match (kind, fam) {
        (Kind::U64Bin, F_GRID) => Ops::B64(sh.grid64[idx / 81], sh.grid64[idx % 81]),
        (Kind::U64Bin, F_ZERODIV) => {
            if idx < 81 {
                Ops::B64(sh.grid64[idx], 0)
            } else {
                Ops::B64(random_u64_pair(&mut rng, idx).0, 0)
            }
        }
        (Kind::U64Bin, F_RANDOM) => {
            let (a, b) = random_u64_pair(&mut rng, idx);
            Ops::B64(a, b)
        }
        (Kind::U64Un, F_GRID) => Ops::U64(sh.grid64[idx]),
        (Kind::U64Un, F_RANDOM) => {
            let (a, b) = random_u64_pair(&mut rng, idx);
            // also exercise runs of leading / trailing zeros and ones of every length
            match idx % 4 {
                0 => Ops::U64(a),
                1 => Ops::U64(a >> (b % 64)),
                2 => Ops::U64(!(a >> (b % 64))),
                _ => Ops::U64(if b & 1 == 0 { a << (b % 64) } else { !(a << (b % 64)) }),
            }
        }
        (Kind::U64Shift, F_GRID) => Ops::S64(sh.grid64[idx / 65], (idx % 65) as u64),
        (Kind::U64Shift, F_RANDOM) => {
            let (a, _) = random_u64_pair(&mut rng, idx);
            Ops::S64(a, rng.below(64))
        }
        (Kind::U256Bin, F_ONEPOS) => {
            // limb position i takes all 9 (a_i, b_i) combinations; all other limbs of a (resp. b)
            // are set to a common background value, all 9 background combinations
            let pos = idx / 81;
            let combo = (idx / 9) % 9;
            let bg = idx % 9;
            let mut a = [TRI[bg / 3]; 8];
            let mut b = [TRI[bg % 3]; 8];
            a[pos] = TRI[combo / 3];
            b[pos] = TRI[combo % 3];
            Ops::B256(U256::from_limbs(a), U256::from_limbs(b))
        }
        (Kind::U256Bin, F_TWOPOS) => {
            let pair = idx / (81 * 9);
            let combo = (idx / 9) % 81;
            let bg = idx % 9;
            // decode pair index -> (i, j), i < j
            let (mut i, mut j, mut k) = (0, 1, 0);
            'outer: for x in 0..8 {
                for y in (x + 1)..8 {
                    if k == pair {
                        i = x;
                        j = y;
                        break 'outer;
                    }
                    k += 1;
                }
            }
            let mut a = [TRI[bg / 3]; 8];
            let mut b = [TRI[bg % 3]; 8];
            a[i] = TRI[combo % 3];
            b[i] = TRI[(combo / 3) % 3];
            a[j] = TRI[(combo / 9) % 3];
            b[j] = TRI[(combo / 27) % 3];
            Ops::B256(U256::from_limbs(a), U256::from_limbs(b))
        }
        (Kind::U256Bin, F_CHAINS) => {
            let (a, b) = sh.chains[idx];
            Ops::B256(a, b)
        }
        (Kind::U256Bin, F_RANDOM) => {
            let (a, b) = random_u256_pair(&mut rng, idx);
            Ops::B256(a, b)
        }
        (Kind::U256Un, F_TRIALL) => {
            let mut l = [0u32; 8];
            let mut x = idx;
            for v in l.iter_mut() {
                *v = TRI[x % 3];
                x /= 3;
            }
            Ops::U256(U256::from_limbs(l))
        }
        (Kind::U256Un, F_RANDOM) => {
            let (a, _) = random_u256_pair(&mut rng, idx);
            // zero and "almost zero" values are the interesting ones for iszero
            match idx % 4 {
                0 => Ops::U256(a),
                1 => Ops::U256(U256::ZERO),
                _ => {
                    let mut l = [0u32; 8];
                    l[rng.below(8) as usize] = if idx % 4 == 2 { rng.mixed_limb() } else { rng.u32() };
                    Ops::U256(U256::from_limbs(l))
                }
            }
        }
        _ => unreachable!(),
    }
}

fn family_label(kind: Kind, fam: u64, idx: usize) -> String {
    let name = match fam {
        F_GRID => "limb-boundary grid",
        F_ZERODIV => "zero divisor",
        F_RANDOM => "random",
        F_ONEPOS => "u256 one limb position x backgrounds",
        F_TWOPOS => "u256 two limb positions x backgrounds",
        F_CHAINS => "u256 carry/borrow chains + block products",
        F_TRIALL => "u256 {0,1,2^32-1}^8",
        _ => "?",
    };
    if fam != F_RANDOM {
        return name.to_string();
    }
    let mode = match kind {
        Kind::U64Bin | Kind::U64Shift => [
            "fully random",
            "equal high limbs",
            "equal low limbs",
            "boundary/random limb mix",
            "equal high limbs, close low limbs",
            "random bit lengths",
        ][idx % 6],
        Kind::U256Bin => [
            "fully random limbs",
            "limb pairs equal with probability 1/2",
            "boundary/random limb mix",
            "limbs from {0,1,2^32-1}",
            "equal operands except one limb",
        ][idx % 5],
        _ => "mixed",
    };
    format!("random: {mode}")
}

/// 0..=12 extra elements placed below the operands (top-most extra element first).
fn make_extras(kind: Kind, fam: u64, idx: usize) -> Vec<u64> {
    let mut rng = Rng::for_case(0xE7A5 ^ fam ^ ((kind as u64) << 8), idx as u64);
    let n = ((idx as u64 + rng.below(2) * 7) % 13) as usize;
    (0..n)
        .map(|_| match rng.below(6) {
            0 => rng.below(16),
            1 => rng.u32() as u64,
            2 => P - 1 - rng.below(4),
            3 => (1u64 << 32) + rng.below(4),
            _ => rng.next() % P,
        })
        .collect()
}

// EXECUTION
// ================================================================================================

#[derive(Debug, PartialEq, Eq)]
enum Outcome {
    Stack(Vec<u64>),
    Fail(String),
}

fn run(program: &Program, top_first: &[u64]) -> Outcome {
    let mut bottom_first = top_first.to_vec();
    bottom_first.reverse();
    let res = catch_unwind(AssertUnwindSafe(|| {
        let inputs = StackInputs::try_from_values(bottom_first).expect("valid field elements");
        let host = DefaultHost::default();
        let mut process =
            Process::new(program.kernel().clone(), inputs, host, ExecutionOptions::default());
        match process.execute(program) {
            Ok(out) => Outcome::Stack(out.stack().to_vec()),
            Err(e) => Outcome::Fail(format!("{e}")),
        }
    }));
    match res {
        Ok(o) => o,
        Err(_) => Outcome::Fail("PANIC inside the processor".to_string()),
    }
}

fn full_stack(result: &[u64], extras: &[u64]) -> Vec<u64> {
    let mut v = result.to_vec();
    v.extend_from_slice(extras);
    while v.len() < MIN_STACK_DEPTH {
        v.push(0);
    }
    v
}

fn matches(exp: &Exp, extras: &[u64], actual: &Outcome) -> bool {
    match (exp, actual) {
        (Exp::Fail, Outcome::Fail(_)) => true,
        (Exp::Stack(r), Outcome::Stack(s)) => &full_stack(r, extras) == s,
        _ => false,
    }
}

fn show_exp(exp: &Exp, extras: &[u64]) -> String {
    match exp {
        Exp::Fail => "execution FAILS".to_string(),
        Exp::Stack(r) => format!("{:?}", full_stack(r, extras)),
    }
}
fn show_out(o: &Outcome) -> String {
    match o {
        Outcome::Fail(e) => format!("execution FAILED: {e}"),
        Outcome::Stack(s) => format!("{:?}", s),
    }
}

#[derive(Default, Clone)]
struct Stat {
    cases: usize,
    expected_failures: usize,
    mismatches: usize,
    deviations: usize,
    mismatch_msgs: Vec<String>,
    deviation_msgs: Vec<String>,
    deviation_kinds: BTreeMap<String, usize>,
    mismatch_families: BTreeMap<String, usize>,
}

struct Task {
    spec: usize,
    fam: u64,
    start: usize,
    end: usize,
}

fn compile(asm: &Assembler, spec: &Spec) -> Program {
    let src = format!(
        "use.std::math::{m}\nbegin\n    exec.{m}::{p}\nend",
        m = spec.module,
        p = spec.name
    );
    asm.compile(src).unwrap_or_else(|e| panic!("failed to assemble {}::{}: {e}", spec.module, spec.name))
}

fn main() {
    let args: Vec<String> = std::env::args().collect();
    let mut nrand = 200_000usize;
    let mut threads = std::thread::available_parallelism().map(|n| n.get()).unwrap_or(4).min(16);
    let mut max_print = 6usize;
    let mut only: Option<String> = None;
    let mut i = 1;
    while i < args.len() {
        match args[i].as_str() {
            "--random" => {
                nrand = args[i + 1].parse().unwrap();
                i += 1;
            }
            "--threads" => {
                threads = args[i + 1].parse().unwrap();
                i += 1;
            }
            "--max-print" => {
                max_print = args[i + 1].parse().unwrap();
                i += 1;
            }
            "--only" => {
                only = Some(args[i + 1].clone());
                i += 1;
            }
            other => panic!("unknown argument {other}"),
        }
        i += 1;
    }

    let t0 = Instant::now();
    reference_self_test();
    println!("reference self-test: ok");

    // ---- every export of the two modules must have a reference ---------------------------------
    let specs = specs();
    let lib = StdLibrary::default();
    let mut exported = BTreeSet::new();
    for module in lib.modules() {
        let path = module.path.to_string();
        let short = match path.as_str() {
            "std::math::u64" => U64,
            "std::math::u256" => U256M,
            _ => continue,
        };
        for p in module.ast.procs() {
            if p.is_export {
                exported.insert(format!("{short}::{}", p.name.to_string()));
            }
        }
        for p in module.ast.reexported_procs() {
            exported.insert(format!("{short}::{}", p.name().to_string()));
        }
    }
    let specified: BTreeSet<String> =
        specs.iter().map(|s| format!("{}::{}", s.module, s.name)).collect();
    println!("exported procedures found in the assembled stdlib: {}", exported.len());
    let mut coverage_ok = true;
    for e in exported.difference(&specified) {
        println!("FAIL: exported procedure {e} has no reference in this demo");
        coverage_ok = false;
    }
    for e in specified.difference(&exported) {
        println!("FAIL: procedure {e} is not exported by the stdlib any more");
        coverage_ok = false;
    }

    // ---- shared case data -----------------------------------------------------------------------
    let mut grid64 = vec![];
    for &h in &LIMB_GRID {
        for &l in &LIMB_GRID {
            grid64.push(((h as u64) << 32) | l as u64);
        }
    }
    let sh = Shared { grid64, chains: build_chains(), nrand };

    // ---- tasks ------------------------------------------------------------------------------------
    let mut tasks = vec![];
    for (si, spec) in specs.iter().enumerate() {
        if let Some(o) = &only {
            if &format!("{}::{}", spec.module, spec.name) != o {
                continue;
            }
        }
        if !exported.contains(&format!("{}::{}", spec.module, spec.name)) {
            continue;
        }
        let chunk = if spec.name == "mul_unsafe" { 500 } else { 4000 };
        for (fam, _, size) in families(spec.kind, &sh) {
            let mut s = 0;
            while s < size {
                let e = (s + chunk).min(size);
                tasks.push(Task { spec: si, fam, start: s, end: e });
                s = e;
            }
        }
    }
    // heavy tasks first
    tasks.sort_by_key(|t| if specs[t.spec].name == "mul_unsafe" { 0 } else { 1 });
    let total_cases: usize = tasks.iter().map(|t| t.end - t.start).sum();
    println!(
        "running {} cases in {} tasks on {} threads (random cases per procedure: {})",
        total_cases,
        tasks.len(),
        threads,
        nrand
    );

    let stats: Mutex<Vec<Stat>> = Mutex::new(vec![Stat::default(); specs.len()]);
    let next = AtomicUsize::new(0);
    let done_cases = AtomicUsize::new(0);

    // silence the default panic message of worker threads (panics are reported as failures)
    std::panic::set_hook(Box::new(|_| {}));

    std::thread::scope(|scope| {
        for _ in 0..threads {
            scope.spawn(|| {
                let asm = Assembler::default()
                    .with_library(&StdLibrary::default())
                    .expect("failed to load stdlib");
                let mut programs: Vec<Option<Program>> = (0..specs.len()).map(|_| None).collect();
                loop {
                    let ti = next.fetch_add(1, Ordering::SeqCst);
                    if ti >= tasks.len() {
                        break;
                    }
                    let task = &tasks[ti];
                    let spec = &specs[task.spec];
                    if programs[task.spec].is_none() {
                        programs[task.spec] = Some(compile(&asm, spec));
                    }
                    let program = programs[task.spec].as_ref().unwrap();
                    let mut st = Stat::default();
                    for idx in task.start..task.end {
                        let ops = make_ops(spec.kind, task.fam, idx, &sh);
                        let extras = make_extras(spec.kind, task.fam, idx);
                        let mut input = ops.stack();
                        input.extend_from_slice(&extras);
                        let exp = reference(spec, &ops);
                        let actual = run(program, &input);
                        st.cases += 1;
                        if exp == Exp::Fail {
                            st.expected_failures += 1;
                        }
                        if matches(&exp, &extras, &actual) {
                            continue;
                        }
                        let msg = |tag: &str| {
                            format!(
                                "{tag} {}::{}  ({})\n      operands : {}\n      initial  : {:?}\n      expected : {}\n      actual   : {}",
                                spec.module,
                                spec.name,
                                spec.doc,
                                ops.describe(),
                                input,
                                show_exp(&exp, &extras),
                                show_out(&actual)
                            )
                        };
                        if let Some(why) = baseline_deviation(spec, &ops, &exp, &extras, &actual) {
                            st.deviations += 1;
                            *st.deviation_kinds.entry(why.clone()).or_insert(0) += 1;
                            if st.deviation_msgs.len() < 2 {
                                st.deviation_msgs.push(format!(
                                    "{}\n      note     : {}",
                                    msg("BASELINE-DEVIATION"),
                                    why
                                ));
                            }
                            continue;
                        }
                        st.mismatches += 1;
                        *st.mismatch_families
                            .entry(family_label(spec.kind, task.fam, idx))
                            .or_insert(0) += 1;
                        if st.mismatch_msgs.len() < max_print {
                            st.mismatch_msgs.push(msg("MISMATCH"));
                        }
                    }
                    let d = done_cases.fetch_add(st.cases, Ordering::SeqCst) + st.cases;
                    if (d / 500_000) != ((d - st.cases) / 500_000) {
                        eprintln!("  progress: {d}/{total_cases} cases, {:.0}s", t0.elapsed().as_secs_f64());
                    }
                    let mut all = stats.lock().unwrap();
                    let s = &mut all[task.spec];
                    s.cases += st.cases;
                    s.expected_failures += st.expected_failures;
                    s.mismatches += st.mismatches;
                    s.deviations += st.deviations;
                    for m in st.mismatch_msgs {
                        if s.mismatch_msgs.len() < max_print {
                            s.mismatch_msgs.push(m);
                        }
                    }
                    for (k, n) in st.deviation_kinds {
                        *s.deviation_kinds.entry(k).or_insert(0) += n;
                    }
                    for (k, n) in st.mismatch_families {
                        *s.mismatch_families.entry(k).or_insert(0) += n;
                    }
                    for m in st.deviation_msgs {
                        if s.deviation_msgs.len() < 2 {
                            s.deviation_msgs.push(m);
                        }
                    }
                }
            });
        }
    });

    // ---- report -----------------------------------------------------------------------------------
    let stats = stats.into_inner().unwrap();
    let mut failed = !coverage_ok;
    let mut total = 0;
    let mut total_dev = 0;
    println!();
    for (spec, st) in specs.iter().zip(stats.iter()) {
        if st.cases == 0 {
            continue;
        }
        total += st.cases;
        total_dev += st.deviations;
        let verdict = if st.mismatches == 0 { "PASS" } else { "FAIL" };
        println!(
            "{verdict}  {:>4}::{:<16} cases={:<7} expected-failures={:<6} mismatches={:<6} baseline-deviations(excluded)={}",
            spec.module, spec.name, st.cases, st.expected_failures, st.mismatches, st.deviations
        );
        if st.mismatches > 0 {
            failed = true;
        }
    }
    if total_dev > 0 {
        println!("\n--- deviations of the UNCHANGED code from its documentation (reported separately, excluded from the verdict) ---");
        for st in stats.iter() {
            for (k, n) in &st.deviation_kinds {
                println!("  [{n} cases] {k}");
            }
        }
        println!("  examples:");
        for st in stats.iter() {
            for m in &st.deviation_msgs {
                println!("  {m}");
            }
        }
    }
    if failed {
        println!("\n--- mismatches (first {max_print} per procedure) ---");
        for (spec, st) in specs.iter().zip(stats.iter()) {
            if st.mismatches > 0 {
                println!("  {}::{}: mismatches by case family:", spec.module, spec.name);
                for (k, n) in &st.mismatch_families {
                    println!("      {n:>7}  {k}");
                }
            }
            for m in &st.mismatch_msgs {
                println!("  {m}");
            }
        }
    }
    // ---- machine-readable part (read by lib/bounded_tools.py: check_int_grid) ----
    let mut nfail = 0usize;
    for (spec, st) in specs.iter().zip(stats.iter()) {
        if st.mismatches > 0 {
            nfail += 1;
            println!(
                "FAILCASE {}::{} :: {} mismatches in {} cases :: {}",
                spec.module,
                spec.name,
                st.mismatches,
                st.cases,
                st.mismatch_msgs.first().map(|m| m.replace('\n', " | ")).unwrap_or_default()
            );
        }
    }
    if !coverage_ok {
        println!("FAILCASE coverage :: an exported procedure has no reference :: -");
    }
    println!("SUMMARY cases={total} procedures_failing={nfail} baseline_deviations={total_dev}");
    println!(
        "\ntotal cases: {total}, excluded baseline deviations: {total_dev}, elapsed: {:.0}s",
        t0.elapsed().as_secs_f64()
    );
    if failed {
        println!("VERDICT: FAIL");
        std::process::exit(1);
    } else {
        println!("VERDICT: PASS");
    }
}
