//! astprobe: bounded stand-in `ast_roundtrip` for C10 (adapted from the round-trip demo written by the
//! independent mutation sub-agent for C10; ExecutionProof dropped - proofprobe / provegrid cover it; the
//! informational probes are counted checks here).
//!
//! For a large family of small MASM sources (every instruction mnemonic the parser accepts, each
//! immediate form with boundary immediates, nested control flow, docs, imports, re-exports,
//! container-size boundaries) this program:
//!
//!   1. parses the source into a `ProgramAst` (and, for most cases, also a `ModuleAst`),
//!   2. serialises it with the real `to_bytes` (imports serialised and not serialised),
//!   3. deserialises it with the real `from_bytes`,
//!   4. compares the objects for equality (and checks the serialisation is a fix-point),
//!   5. writes the source locations, reloads them and compares again (including the locations),
//!   6. compiles both the original and the round-tripped AST and compares the MAST roots and the
//!      complete compiled program (debug rendering, which includes decorators),
//!   7. for a handful of complete programs, executes both and compares the stack outputs.
//!
//! It also round-trips a `MaslLibrary` (with/without locations, with dependencies), and the core
//! data types (`ProgramInfo`, `Kernel`, `StackInputs`, `StackOutputs`, `ExecutionProof`).
//!
//! Prints PASS/FAIL per group (with the offending instruction) and exits non-zero on any FAIL.

use assembly::{
    ast::{AstSerdeOptions, ModuleAst, Node, ProgramAst, SourceLocation},
    utils::{Deserializable, Serializable, SliceReader},
    Assembler, AssemblyContext, Library, LibraryNamespace, LibraryPath, MaslLibrary, Module,
    Version,
};
use miden_stdlib::StdLibrary;
use processor::{DefaultHost, ExecutionOptions};
use std::panic::{catch_unwind, AssertUnwindSafe};
use vm_core::{
    crypto::hash::RpoDigest, Felt, Kernel, Program, ProgramInfo, StackInputs, StackOutputs,
};

const MODULUS: u64 = 0xFFFF_FFFF_0000_0001;

const KERNEL_SRC: &str = "export.kfoo add end export.kbar caller dropw end";

// CASE DESCRIPTION
// ================================================================================================

#[derive(Clone, Copy, PartialEq, Eq, Debug)]
enum Ctx {
    /// instruction goes to the `begin` body of a program / a zero-locals exported proc of a module
    Body,
    /// instruction goes to a procedure with the given number of locals
    Proc(u16),
}

#[derive(Clone, Debug)]
struct Case {
    /// the instruction (or block) under test; this is what gets reported on failure
    instr: String,
    ctx: Ctx,
    /// compile the original and the round-tripped AST and compare results
    compile: bool,
}

fn case(instr: impl Into<String>) -> Case {
    Case { instr: instr.into(), ctx: Ctx::Body, compile: true }
}

fn case_proc(instr: impl Into<String>, locals: u16) -> Case {
    Case { instr: instr.into(), ctx: Ctx::Proc(locals), compile: true }
}

fn case_nocompile(instr: impl Into<String>) -> Case {
    Case { instr: instr.into(), ctx: Ctx::Body, compile: false }
}

/// Builds the list of all single-instruction cases.
fn instruction_cases(foo_root_hex: &str) -> Vec<Case> {
    let mut v: Vec<Case> = Vec::new();

    // ----- instructions without immediates ------------------------------------------------------
    let simple = [
        "assert", "assertz", "assert_eq", "assert_eqw", "add", "sub", "mul", "div", "neg", "inv",
        "pow2", "exp", "ilog2", "not", "and", "or", "xor", "eq", "neq", "lt", "lte", "gt", "gte",
        "is_odd", "eqw", "ext2add", "ext2sub", "ext2mul", "ext2div", "ext2neg", "ext2inv",
        "u32test", "u32testw", "u32assert", "u32assert2", "u32assertw", "u32cast", "u32split",
        "u32wrapping_add", "u32overflowing_add", "u32overflowing_add3", "u32wrapping_add3",
        "u32wrapping_sub", "u32overflowing_sub", "u32wrapping_mul", "u32overflowing_mul",
        "u32overflowing_madd", "u32wrapping_madd", "u32div", "u32mod", "u32divmod", "u32and",
        "u32or", "u32xor", "u32not", "u32shr", "u32shl", "u32rotr", "u32rotl", "u32popcnt",
        "u32clz", "u32ctz", "u32clo", "u32cto", "u32lt", "u32lte", "u32gt", "u32gte", "u32min",
        "u32max", "drop", "dropw", "padw", "dup", "dupw", "swap", "swapw", "swapdw", "cswap",
        "cswapw", "cdrop", "cdropw", "sdepth", "caller", "clk", "mem_load", "mem_loadw",
        "mem_store", "mem_storew", "mem_stream", "adv_pipe", "adv_loadw", "hash", "hmerge",
        "hperm", "mtree_get", "mtree_set", "mtree_merge", "mtree_verify", "fri_ext2fold4",
        "rcomb_base", "dynexec", "dyncall",
    ];
    v.extend(simple.iter().map(|s| case(*s)));

    // ----- stack manipulation with an index -----------------------------------------------------
    for i in 0..=15 {
        v.push(case(format!("dup.{i}")));
    }
    for i in 0..=3 {
        v.push(case(format!("dupw.{i}")));
    }
    for i in 1..=15 {
        v.push(case(format!("swap.{i}")));
    }
    for i in 1..=3 {
        v.push(case(format!("swapw.{i}")));
    }
    for i in 2..=15 {
        v.push(case(format!("movup.{i}")));
        v.push(case(format!("movdn.{i}")));
    }
    for i in 2..=3 {
        v.push(case(format!("movupw.{i}")));
        v.push(case(format!("movdnw.{i}")));
    }

    // ----- u32 error codes ----------------------------------------------------------------------
    let u32_vals: [u64; 9] = [0, 1, 255, 256, 65535, 65536, 0x0102_0304, 0x7FFF_FFFF, 0xFFFF_FFFF];
    for op in [
        "assert", "assertz", "assert_eq", "assert_eqw", "u32assert", "u32assert2", "u32assertw",
    ] {
        for val in u32_vals {
            v.push(case(format!("{op}.err={val}")));
        }
    }

    // ----- field immediates ---------------------------------------------------------------------
    let felt_vals: [u64; 12] = [
        0,
        1,
        2,
        255,
        256,
        65535,
        65536,
        0xFFFF_FFFF,
        0x1_0000_0000,
        0x0102_0304_0506_0708,
        MODULUS - 2,
        MODULUS - 1,
    ];
    for op in ["add", "sub", "mul", "div", "exp", "eq", "neq"] {
        for val in felt_vals {
            if op == "div" && val == 0 {
                continue;
            }
            v.push(case(format!("{op}.{val}")));
        }
    }
    for bits in [0u8, 1, 7, 8, 31, 32, 33, 63, 64] {
        v.push(case(format!("exp.u{bits}")));
    }

    // ----- u32 immediates -----------------------------------------------------------------------
    for op in [
        "u32wrapping_add",
        "u32overflowing_add",
        "u32wrapping_sub",
        "u32overflowing_sub",
        "u32wrapping_mul",
        "u32overflowing_mul",
        "u32div",
        "u32mod",
        "u32divmod",
    ] {
        for val in u32_vals {
            if val == 0 && (op == "u32div" || op == "u32mod" || op == "u32divmod") {
                continue;
            }
            v.push(case(format!("{op}.{val}")));
        }
    }
    for op in ["u32shr", "u32shl", "u32rotr", "u32rotl"] {
        for n in [0u8, 1, 2, 15, 16, 30, 31] {
            v.push(case(format!("{op}.{n}")));
        }
    }

    // ----- push (single value) ------------------------------------------------------------------
    for val in felt_vals {
        v.push(case(format!("push.{val}")));
    }
    for hex in [
        "0x00",
        "0x01",
        "0xff",
        "0x0100",
        "0xffff",
        "0x010000",
        "0xffffffff",
        "0x0100000000",
        "0xabc234",
        "0x0102030405060708",
        "0xffffffff00000000",
    ] {
        v.push(case(format!("push.{hex}")));
    }
    // long hex (word) forms
    v.push(case(
        "push.0x0100000000000000020000000000000003000000000000000400000000000000".to_string(),
    ));
    v.push(case(
        "push.0x00000000ffffffff00000000ffffffff00000000ffffffff00000000ffffffff".to_string(),
    ));
    v.push(case(
        "push.0x0001000000000000000200000000000000030000000000000004000000000000".to_string(),
    ));
    v.push(case(
        "push.0x0000010000000000000002000000000000000300000000000000040000000000".to_string(),
    ));

    // ----- push (lists) -------------------------------------------------------------------------
    let list = |n: usize, f: &dyn Fn(usize) -> u64| -> String {
        let vals: Vec<String> = (0..n).map(|i| f(i).to_string()).collect();
        format!("push.{}", vals.join("."))
    };
    for n in [2usize, 3, 4, 5, 15, 16] {
        v.push(case(list(n, &|i| i as u64))); // u8 list
        v.push(case(list(n, &|i| 255 - i as u64))); // u8 list at the upper edge
        v.push(case(list(n, &|i| 256 + i as u64))); // u16 list
        v.push(case(list(n, &|i| if i == 0 { 65535 } else { i as u64 }))); // u16 list mixed
        v.push(case(list(n, &|i| 65536 + i as u64))); // u32 list
        v.push(case(list(n, &|i| if i == 1 { 0xFFFF_FFFF } else { 7 }))); // u32 list mixed
        v.push(case(list(n, &|i| 0x1_0000_0000 + i as u64))); // felt list / word
        v.push(case(list(n, &|i| if i == n - 1 { MODULUS - 1 } else { i as u64 }))); // felt mixed
    }
    v.push(case("push.0x01.0x0200.0x030000.0x0400000000"));

    // ----- locals -------------------------------------------------------------------------------
    for op in ["locaddr", "loc_load", "loc_loadw", "loc_store", "loc_storew"] {
        for (idx, locals) in [
            (0u16, 1u16),
            (1, 2),
            (3, 4),
            (255, 256),
            (256, 257),
            (257, 300),
            (65534, 65535),
            // out of range index: compilation must fail identically for both ASTs
            (65535, 65535),
        ] {
            v.push(case_proc(format!("{op}.{idx}"), locals));
        }
    }

    // ----- memory with immediate address --------------------------------------------------------
    for op in ["mem_load", "mem_loadw", "mem_store", "mem_storew"] {
        for val in u32_vals {
            v.push(case(format!("{op}.{val}")));
        }
    }

    // ----- advice -------------------------------------------------------------------------------
    for n in [1u8, 2, 3, 8, 15, 16] {
        v.push(case(format!("adv_push.{n}")));
    }
    for inj in [
        "push_u64div",
        "push_ext2intt",
        "push_smtget",
        "push_smtset",
        "push_smtpeek",
        "push_mapval",
        "push_mapvaln",
        "push_mtnode",
        "insert_mem",
        "insert_hdword",
        "insert_hperm",
        "push_sig.rpo_falcon512",
    ] {
        v.push(case(format!("adv.{inj}")));
    }
    for off in [0u8, 1, 2, 4, 8, 11, 12] {
        v.push(case(format!("adv.push_mapval.{off}")));
        v.push(case(format!("adv.push_mapvaln.{off}")));
    }
    for dom in [0u8, 1, 2, 127, 128, 254, 255] {
        v.push(case(format!("adv.insert_hdword.{dom}")));
    }

    // ----- procedure invocation -----------------------------------------------------------------
    // (the harness always defines local procs `foo` (index 0) and `bar` (index 1), imports
    // std::math::u64 and std::crypto::hashes::blake3, and configures a kernel with `kfoo`, `kbar`)
    for target in ["foo", "bar", "u64::wrapping_add", "blake3::hash_2to1"] {
        v.push(case(format!("exec.{target}")));
        v.push(case(format!("call.{target}")));
        v.push(case(format!("procref.{target}")));
    }
    v.push(case(format!("call.{foo_root_hex}")));
    // phantom call: not compilable via compile_ast, but must still round-trip as AST and fail to
    // compile identically
    v.push(case(
        "call.0x0102030405060708111213141516171821222324252627283132333435363738".to_string(),
    ));
    v.push(case(
        "call.0xffffffff00000000feffffff00000000fdffffff00000000fcffffff00000000".to_string(),
    ));
    v.push(case("syscall.kfoo"));
    v.push(case("syscall.kbar"));

    // ----- debug / events -----------------------------------------------------------------------
    v.push(case("debug.stack"));
    for n in [1u32, 2, 255, 256, 65535] {
        v.push(case(format!("debug.stack.{n}")));
    }
    v.push(case("debug.mem"));
    for n in [1u64, 255, 256, 65535, 65536, 0xFFFF_FFFF] {
        v.push(case(format!("debug.mem.{n}")));
    }
    for (n, m) in [
        (0u64, 0u64),
        (0, 1),
        (1, 2),
        (255, 256),
        (256, 65536),
        (65535, 65536),
        (1, 0xFFFF_FFFF),
        (0xFFFF_FFFE, 0xFFFF_FFFF),
        (0xFFFF_FFFF, 0xFFFF_FFFF),
    ] {
        v.push(case(format!("debug.mem.{n}.{m}")));
    }
    for locals in [0u16, 1, 5, 256, 65535] {
        v.push(case_proc("debug.local", locals));
    }
    for (n, locals) in [(0u16, 1u16), (1, 2), (255, 256), (256, 300), (65535, 7)] {
        v.push(case_proc(format!("debug.local.{n}"), locals));
    }
    for (n, m, locals) in [
        (0u16, 0u16, 1u16),
        (0, 1, 2),
        (1, 2, 3),
        (2, 258, 513),
        (255, 256, 1000),
        (0, 65535, 65535),
        (65534, 65535, 9),
    ] {
        v.push(case_proc(format!("debug.local.{n}.{m}"), locals));
    }
    for val in u32_vals {
        v.push(case(format!("emit.{val}")));
        v.push(case(format!("trace.{val}")));
    }

    // ----- control flow -------------------------------------------------------------------------
    v.push(case("if.true add end"));
    v.push(case("if.true add else mul end"));
    v.push(case("if.true add sub else mul end"));
    v.push(case("if.true add else mul sub neg end"));
    v.push(case("while.true add end"));
    v.push(case("while.true push.1 push.2 add eq.3 end"));
    for n in [1u64, 2, 3, 255, 256, 257, 1000] {
        v.push(case(format!("repeat.{n} add end")));
    }
    // (huge repeat counts cannot be compiled in reasonable memory: AST round-trip only)
    for n in [0u64, 65535, 65536, 65537, 0x0102_0304, 0xFFFF_FFFF] {
        v.push(case_nocompile(format!("repeat.{n} add end")));
    }
    v.push(case(
        "if.true while.true repeat.3 if.true push.1 else push.2.3 end end push.0 end else \
         repeat.2 while.true if.true add end push.0 end end end",
    ));
    v.push(case(
        "repeat.2 repeat.3 repeat.4 push.1.2.3.4 dropw end end end if.true if.true if.true \
         assert_eqw.err=5 else assert_eq.err=6 end end end",
    ));
    // instruction with an immediate directly followed by other nodes inside nested bodies (so a
    // wrong immediate width shifts what follows)
    v.push(case("if.true push.65536 add.7 mem_storew.1000 swap else emit.1 trace.2 drop end"));
    v.push(case(
        "while.true u32shl.31 u32rotr.1 adv_push.16 exp.u64 assert.err=1 adv.push_mapvaln.3 \
         adv.insert_hdword.9 debug.mem.1.2 debug.stack.4 push.1.256.65536 end",
    ));

    // body-length boundaries (u16 length prefix)
    for n in [254usize, 255, 256, 257, 1000, 65534, 65535] {
        let body = vec!["add"; n].join(" ");
        v.push(Case { instr: format!("if.true {body} else {body} end"), ctx: Ctx::Body, compile: n < 2000 });
        v.push(Case { instr: format!("while.true {body} end"), ctx: Ctx::Body, compile: n < 2000 });
        v.push(Case { instr: format!("repeat.2 {body} end"), ctx: Ctx::Body, compile: n < 2000 });
        v.push(Case { instr: body, ctx: Ctx::Body, compile: n < 2000 });
    }

    v
}

// SOURCE TEMPLATES
// ================================================================================================

fn program_source(c: &Case) -> String {
    let hdr = "use.std::math::u64\nuse.std::crypto::hashes::blake3\n\n\
               proc.foo\n    add\nend\n\nproc.bar.2\n    loc_load.1 mul\nend\n\n";
    match c.ctx {
        Ctx::Body => format!("{hdr}begin\n    {}\nend\n", c.instr),
        Ctx::Proc(n) => format!(
            "{hdr}#! proc under test\nproc.tproc.{n}\n    {}\nend\n\nbegin\n    exec.tproc\nend\n",
            c.instr
        ),
    }
}

fn module_source(c: &Case) -> String {
    let hdr = "#! module docs\n#! second line\n\nuse.std::math::u64\nuse.std::crypto::hashes::blake3\n\n\
               proc.foo\n    add\nend\n\n#! bar docs\nexport.bar.2\n    loc_load.1 mul\nend\n\n";
    let n = match c.ctx {
        Ctx::Body => 0,
        Ctx::Proc(n) => n,
    };
    format!("{hdr}#! proc under test\nexport.tproc.{n}\n    {}\nend\n", c.instr)
}

fn label(c: &Case) -> String {
    let s = &c.instr;
    let short = if s.len() > 110 {
        format!("{} ... [{} chars]", &s[..100], s.len())
    } else {
        s.clone()
    };
    match c.ctx {
        Ctx::Body => short,
        Ctx::Proc(n) => format!("{short}  (in proc with {n} locals)"),
    }
}

// ASSEMBLER HELPERS
// ================================================================================================

struct Env {
    stdlib: StdLibrary,
}

impl Env {
    fn assembler(&self) -> Assembler {
        Assembler::default()
            .with_debug_mode(true)
            .with_library(&self.stdlib)
            .expect("failed to load stdlib")
            .with_kernel(KERNEL_SRC)
            .expect("failed to load kernel")
    }
}

/// Result of compiling a program: either (MAST root, full debug rendering) or an error string.
type Compiled = Result<(RpoDigest, String), String>;

fn render_program(p: &Program) -> (RpoDigest, String) {
    (p.hash(), format!("{p:?}"))
}

fn compile_program(env: &Env, ast: &ProgramAst) -> Compiled {
    let asm = env.assembler();
    match catch_unwind(AssertUnwindSafe(|| asm.compile_ast(ast))) {
        Ok(Ok(p)) => Ok(render_program(&p)),
        Ok(Err(e)) => Err(format!("assembly error: {e}")),
        Err(_) => Err("PANIC during compilation".to_string()),
    }
}

fn compile_module(env: &Env, ast: &ModuleAst) -> Result<Vec<RpoDigest>, String> {
    let asm = env.assembler();
    let path = LibraryPath::new("demo::tmod").unwrap();
    match catch_unwind(AssertUnwindSafe(|| {
        let mut ctx = AssemblyContext::for_module(false);
        asm.compile_module(ast, Some(&path), &mut ctx)
    })) {
        Ok(Ok(roots)) => Ok(roots),
        Ok(Err(e)) => Err(format!("assembly error: {e}")),
        Err(_) => Err("PANIC during compilation".to_string()),
    }
}

// ROUND-TRIP CHECKS
// ================================================================================================

/// Returns a copy of the program AST with all source locations removed (the byte format does not
/// carry locations; they are written / loaded separately).
fn strip_program_locations(ast: &ProgramAst) -> ProgramAst {
    let procs: Vec<_> = ast
        .procedures()
        .iter()
        .cloned()
        .map(|mut p| {
            p.clear_locations();
            p
        })
        .collect();
    ProgramAst::new(ast.body().nodes().to_vec(), procs)
        .expect("failed to rebuild program AST")
        .with_import_info(ast.import_info().clone())
}

fn check_program(env: &Env, src: &str, compile: bool) -> Result<(), String> {
    let ast = ProgramAst::parse(src).map_err(|e| format!("HARNESS: source does not parse: {e}"))?;

    let mut recompile: Option<ProgramAst> = None;
    for serialize_imports in [true, false] {
        let tag = if serialize_imports { "imports=yes" } else { "imports=no" };
        let bytes = ast.to_bytes(AstSerdeOptions::new(serialize_imports));
        let de = match catch_unwind(|| ProgramAst::from_bytes(&bytes)) {
            Ok(Ok(de)) => de,
            Ok(Err(e)) => return Err(format!("[{tag}] from_bytes failed on own output: {e}")),
            Err(_) => return Err(format!("[{tag}] from_bytes PANICKED on own output")),
        };

        // object equality (locations are not part of the byte format; CodeBody::eq ignores them
        // when one side has none; imports only if serialised)
        let mut expected = strip_program_locations(&ast);
        if !serialize_imports {
            expected.clear_imports();
        }
        if expected != de {
            // also recompile both, to show the effect on the MAST root
            let note = if compile {
                let de = if serialize_imports {
                    de.clone()
                } else {
                    de.clone().with_import_info(ast.import_info().clone())
                };
                match (compile_program(env, &ast), compile_program(env, &de)) {
                    (Ok((h0, _)), Ok((h1, _))) if h0 == h1 => {
                        "MAST roots of the two recompiled ASTs are equal".to_string()
                    }
                    (Ok((h0, _)), Ok((h1, _))) => format!(
                        "MAST roots of the two recompiled ASTs DIFFER:\n        original {}\n        reloaded {}",
                        hex(h0),
                        hex(h1)
                    ),
                    (c0, c1) => format!(
                        "recompilation: original={:?} reloaded={:?}",
                        c0.map(|x| hex(x.0)),
                        c1.map(|x| hex(x.0))
                    ),
                }
            } else {
                "not recompiled".to_string()
            };
            return Err(format!(
                "[{tag}] deserialised ProgramAst != original\n      original body: {:?}\n      \
                 reloaded body: {:?}\n      {note}",
                truncate(render_program_nodes(&ast)),
                truncate(render_program_nodes(&de))
            ));
        }
        if render_nodes(expected.body().nodes()) != render_nodes(de.body().nodes())
            || expected.procedures().iter().map(|p| render_nodes(p.body.nodes())).collect::<Vec<_>>()
                != de.procedures().iter().map(|p| render_nodes(p.body.nodes())).collect::<Vec<_>>()
        {
            return Err(format!("[{tag}] deserialised nodes render differently"));
        }

        // serialisation must be a fix-point
        let bytes2 = de.to_bytes(AstSerdeOptions::new(serialize_imports));
        if bytes != bytes2 {
            return Err(format!("[{tag}] re-serialised bytes differ from the original bytes"));
        }

        // locations: write / reload
        let mut loc_bytes = Vec::new();
        ast.write_source_locations(&mut loc_bytes);
        let mut de = de;
        de.load_source_locations(&mut SliceReader::new(&loc_bytes))
            .map_err(|e| format!("[{tag}] load_source_locations failed: {e}"))?;
        let de = if serialize_imports { de } else { de.with_import_info(ast.import_info().clone()) };
        if ast != de {
            return Err(format!("[{tag}] ProgramAst with reloaded locations != original"));
        }
        let l0: Vec<SourceLocation> = ast.source_locations().cloned().collect();
        let l1: Vec<SourceLocation> = de.source_locations().cloned().collect();
        if l0 != l1 {
            return Err(format!("[{tag}] reloaded program body locations differ"));
        }
        for (p0, p1) in ast.procedures().iter().zip(de.procedures().iter()) {
            let l0: Vec<SourceLocation> = p0.source_locations().cloned().collect();
            let l1: Vec<SourceLocation> = p1.source_locations().cloned().collect();
            if l0 != l1 {
                return Err(format!("[{tag}] reloaded locations of proc {} differ", p0.name));
            }
            note_nested_locations(&format!("program proc {}", p0.name), p0.body.nodes(), p1.body.nodes());
        }
        note_nested_locations("program body", ast.body().nodes(), de.body().nodes());
        let mut loc_bytes2 = Vec::new();
        de.write_source_locations(&mut loc_bytes2);
        if loc_bytes != loc_bytes2 {
            return Err(format!("[{tag}] re-written location bytes differ"));
        }
        if serialize_imports {
            recompile = Some(de);
        }
    }

    if compile {
        let de = recompile.unwrap();
        let c0 = compile_program(env, &ast);
        let c1 = compile_program(env, &de);
        match (&c0, &c1) {
            (Ok((h0, d0)), Ok((h1, d1))) => {
                if h0 != h1 {
                    return Err(format!(
                        "MAST root of recompiled round-tripped AST differs: {h0:?} vs {h1:?}"
                    ));
                }
                if d0 != d1 {
                    return Err("compiled programs differ (same MAST root, different decorators / \
                                cb-table / kernel)"
                        .to_string());
                }
            }
            (Err(e0), Err(e1)) => {
                if e0 != e1 {
                    return Err(format!("compile errors differ: `{e0}` vs `{e1}`"));
                }
            }
            _ => {
                return Err(format!(
                    "one AST compiles and the other does not: original={:?} reloaded={:?}",
                    c0.as_ref().map(|x| x.0).map_err(|e| e.clone()),
                    c1.as_ref().map(|x| x.0).map_err(|e| e.clone())
                ))
            }
        }
    }
    Ok(())
}

fn check_module(env: &Env, src: &str, compile: bool) -> Result<(), String> {
    let ast = ModuleAst::parse(src).map_err(|e| format!("HARNESS: source does not parse: {e}"))?;

    let mut recompile: Option<ModuleAst> = None;
    for serialize_imports in [true, false] {
        let tag = if serialize_imports { "imports=yes" } else { "imports=no" };
        let bytes = ast.to_bytes(AstSerdeOptions::new(serialize_imports));
        let de = match catch_unwind(|| ModuleAst::from_bytes(&bytes)) {
            Ok(Ok(de)) => de,
            Ok(Err(e)) => return Err(format!("[{tag}] from_bytes failed on own output: {e}")),
            Err(_) => return Err(format!("[{tag}] from_bytes PANICKED on own output")),
        };
        let mut expected = ast.clone();
        expected.clear_locations();
        if !serialize_imports {
            expected.clear_imports();
        }
        if expected != de {
            let bodies = |m: &ModuleAst| {
                truncate(
                    m.procs()
                        .iter()
                        .map(|p| format!("{}: {}", p.name, render_nodes(p.body.nodes())))
                        .collect::<Vec<_>>()
                        .join(" | "),
                )
            };
            return Err(format!(
                "[{tag}] deserialised ModuleAst != original\n      original procs: {}\n      \
                 reloaded procs: {}",
                bodies(&ast),
                bodies(&de)
            ));
        }
        if expected.docs() != de.docs() {
            return Err(format!("[{tag}] module docs differ"));
        }
        let bytes2 = de.to_bytes(AstSerdeOptions::new(serialize_imports));
        if bytes != bytes2 {
            return Err(format!("[{tag}] re-serialised bytes differ from the original bytes"));
        }

        let mut loc_bytes = Vec::new();
        ast.write_source_locations(&mut loc_bytes);
        let mut de = de;
        de.load_source_locations(&mut SliceReader::new(&loc_bytes))
            .map_err(|e| format!("[{tag}] load_source_locations failed: {e}"))?;
        let de = if serialize_imports { de } else { de.with_import_info(ast.import_info().clone()) };
        if ast != de {
            return Err(format!("[{tag}] ModuleAst with reloaded locations != original"));
        }
        for (p0, p1) in ast.procs().iter().zip(de.procs().iter()) {
            let l0: Vec<SourceLocation> = p0.source_locations().cloned().collect();
            let l1: Vec<SourceLocation> = p1.source_locations().cloned().collect();
            if l0 != l1 {
                return Err(format!("[{tag}] reloaded locations of proc {} differ", p0.name));
            }
            if p0.docs != p1.docs || p0.is_export != p1.is_export || p0.num_locals != p1.num_locals {
                return Err(format!("[{tag}] proc header of {} differs", p0.name));
            }
            note_nested_locations(&format!("module proc {}", p0.name), p0.body.nodes(), p1.body.nodes());
        }
        if serialize_imports {
            recompile = Some(de);
        }
    }

    if compile {
        let de = recompile.unwrap();
        let c0 = compile_module(env, &ast);
        let c1 = compile_module(env, &de);
        if c0 != c1 {
            return Err(format!(
                "exported MAST roots of recompiled round-tripped module differ:\n      original: \
                 {c0:?}\n      reloaded: {c1:?}"
            ));
        }
    }
    Ok(())
}

/// Location-insensitive rendering of a node sequence (nested bodies included).
fn render_nodes(nodes: &[Node]) -> String {
    let mut out = String::new();
    for n in nodes {
        match n {
            Node::Instruction(i) => out.push_str(&format!("{i:?}; ")),
            Node::IfElse { true_case, false_case } => out.push_str(&format!(
                "if {{ {} }} else {{ {} }}; ",
                render_nodes(true_case.nodes()),
                render_nodes(false_case.nodes())
            )),
            Node::Repeat { times, body } => {
                out.push_str(&format!("repeat {times} {{ {} }}; ", render_nodes(body.nodes())))
            }
            Node::While { body } => {
                out.push_str(&format!("while {{ {} }}; ", render_nodes(body.nodes())))
            }
        }
    }
    out
}

fn render_program_nodes(p: &ProgramAst) -> String {
    let mut parts: Vec<String> = p
        .procedures()
        .iter()
        .map(|p| format!("{}: {}", p.name, render_nodes(p.body.nodes())))
        .collect();
    parts.push(format!("begin: {}", render_nodes(p.body().nodes())));
    parts.join(" | ")
}

fn hex(d: RpoDigest) -> String {
    let bytes: [u8; 32] = d.into();
    let mut s = String::from("0x");
    for b in bytes {
        s.push_str(&format!("{b:02x}"));
    }
    s
}

fn truncate(s: String) -> String {
    if s.len() > 600 {
        format!("{} ... [{} chars]", &s[..600], s.len())
    } else {
        s
    }
}

// NESTED SOURCE LOCATIONS (strict comparison; CodeBody::eq deliberately ignores a side without locations)
// ================================================================================================

static NESTED_LOC: std::sync::Mutex<(usize, String)> = std::sync::Mutex::new((0, String::new()));

fn nested_locations(nodes: &[Node], out: &mut Vec<Vec<SourceLocation>>) {
    for n in nodes {
        match n {
            Node::IfElse { true_case, false_case } => {
                out.push(true_case.source_locations().to_vec());
                nested_locations(true_case.nodes(), out);
                out.push(false_case.source_locations().to_vec());
                nested_locations(false_case.nodes(), out);
            }
            Node::Repeat { body, .. } | Node::While { body } => {
                out.push(body.source_locations().to_vec());
                nested_locations(body.nodes(), out);
            }
            Node::Instruction(_) => {}
        }
    }
}

/// records (without ending the case) a body whose nested blocks lost their locations on reload
fn note_nested_locations(what: &str, a: &[Node], b: &[Node]) {
    let (mut l0, mut l1) = (Vec::new(), Vec::new());
    nested_locations(a, &mut l0);
    nested_locations(b, &mut l1);
    if l0 != l1 {
        let mut g = NESTED_LOC.lock().unwrap();
        g.0 += 1;
        if g.1.is_empty() {
            let i = l0.iter().zip(l1.iter()).position(|(x, y)| x != y).unwrap_or(0);
            g.1 = format!(
                "{what}: nested body #{i} had {} locations, reloaded with {}",
                l0.get(i).map(|v| v.len()).unwrap_or(0),
                l1.get(i).map(|v| v.len()).unwrap_or(0)
            );
        }
    }
}

// GROUP RUNNER
// ================================================================================================

#[derive(Default)]
struct Report {
    checks: usize,
    failures: Vec<String>,
}

impl Report {
    fn record(&mut self, group: &str, what: &str, res: Result<(), String>) {
        self.checks += 1;
        if let Err(e) = res {
            println!("FAIL [{group}] {what} :: {}", e.replace('\n', " | "));
            self.failures.push(format!("[{group}] {what}"));
        }
    }
}

static LAST_PANIC: std::sync::Mutex<String> = std::sync::Mutex::new(String::new());

fn guarded<F: FnOnce() -> Result<(), String>>(f: F) -> Result<(), String> {
    match catch_unwind(AssertUnwindSafe(f)) {
        Ok(r) => r,
        Err(_) => Err(format!("PANIC: {}", LAST_PANIC.lock().unwrap())),
    }
}

// CONTAINER-SHAPE CASES
// ================================================================================================

/// Whole-source cases for programs (returns (label, source, compile)).
fn program_shape_cases() -> Vec<(String, String, bool)> {
    let mut v = Vec::new();

    v.push(("empty-ish program".to_string(), "begin add end".to_string(), true));
    v.push((
        "program with constants".to_string(),
        "const.A=3\nconst.B=A*3+5\nconst.BIG=4294967296\nbegin repeat.A push.B end push.BIG \
         mem_store.A emit.B assert.err=A end"
            .to_string(),
        true,
    ));

    // number of local procedures at u8 / u16 boundaries
    for n in [1usize, 2, 255, 256, 257, 1000] {
        let mut s = String::new();
        for i in 0..n {
            s.push_str(&format!("proc.p{i}.{}\n    push.{i} drop\nend\n", i % 3));
        }
        s.push_str(&format!(
            "begin exec.p0 exec.p{} call.p{} procref.p{} drop drop drop drop end\n",
            n - 1,
            n / 2,
            n - 1
        ));
        v.push((format!("program with {n} local procs (exec/call/procref of the last)"), s, true));
    }

    // procedure docs length boundaries
    for n in [1usize, 2, 254, 255, 256, 257, 65534, 65535] {
        let docs: String = std::iter::repeat('d').take(n).collect();
        let s = format!("#! {docs}\nproc.foo.1\n    add\nend\nbegin exec.foo end\n");
        v.push((format!("program proc with docs of length {n}"), s, true));
    }
    v.push((
        "multi-line proc docs".to_string(),
        "#! line one\n#! line two\n#!\n#! line four\nproc.foo add end begin exec.foo end".to_string(),
        true,
    ));

    // procedure name length boundaries
    for n in [1usize, 2, 100, 254, 255] {
        let name: String = std::iter::repeat('a').take(n).collect();
        let s = format!("proc.{name}\n    add\nend\nbegin exec.{name} end\n");
        v.push((format!("program proc with name of length {n}"), s, true));
    }

    // num_locals boundaries
    for n in [0u32, 1, 2, 255, 256, 257, 65534, 65535] {
        let s = format!("proc.foo.{n}\n    add\nend\nbegin exec.foo end\n");
        v.push((format!("program proc with {n} locals"), s, true));
    }

    // many imports / many invoked imported procs
    v.push((
        "program with many imports".to_string(),
        "use.std::math::u64\nuse.std::math::u256\nuse.std::crypto::hashes::blake3\n\
         use.std::crypto::hashes::sha256\nuse.std::mem\nuse.std::sys\nuse.std::collections::smt\n\
         begin exec.u64::wrapping_add exec.u64::wrapping_mul call.u256::add exec.blake3::hash_2to1 \
         exec.sha256::hash_2to1 exec.mem::memcopy exec.sys::truncate_stack procref.smt::get drop drop drop drop end"
            .to_string(),
        true,
    ));
    {
        let c = |ch: char, n: usize| std::iter::repeat(ch).take(n).collect::<String>();
        for last in [1usize, 200, 253] {
            let path = format!("{}::{}::{}::{}", c('a', 253), c('b', 255), c('c', 255), c('d', last));
            v.push((
                format!("program with import path of {} bytes", path.len()),
                format!("use.{path}\nbegin add end"),
                true,
            ));
        }
    }
    v.push((
        "program with unused imports".to_string(),
        "use.std::math::u64\nuse.std::mem\nbegin add end".to_string(),
        true,
    ));

    v
}

/// Whole-source cases for modules.
fn module_shape_cases() -> Vec<(String, String, bool)> {
    let mut v = Vec::new();

    v.push(("module without docs/imports".to_string(), "export.foo add end".to_string(), true));
    v.push((
        "module: internal + exported procs, local calls".to_string(),
        "proc.a.1 loc_store.0 end\nexport.b exec.a call.a procref.a dropw end\nproc.c exec.a exec.b end\n\
         export.d.3 exec.c loc_loadw.2 end"
            .to_string(),
        true,
    ));

    // module docs length boundaries
    for n in [1usize, 2, 254, 255, 256, 257, 65534, 65535] {
        let docs: String = std::iter::repeat('m').take(n).collect();
        let s = format!("#! {docs}\n\nexport.foo\n    add\nend\n");
        v.push((format!("module docs of length {n}"), s, true));
    }
    for n in [1usize, 255, 256, 65535] {
        let docs: String = std::iter::repeat('p').take(n).collect();
        let s = format!("#! mod\n\n#! {docs}\nexport.foo\n    add\nend\n");
        v.push((format!("module proc docs of length {n}"), s, true));
    }

    // re-exports
    v.push((
        "module with re-exports (plain and aliased, with docs)".to_string(),
        "#! mod docs\n\nuse.std::math::u64\nuse.std::math::u256\n\n#! re-export docs\n\
         export.u64::wrapping_add\nexport.u64::wrapping_mul->my_mul\n#! another\nexport.u256::add->add256\n\n\
         export.foo\n    exec.u64::wrapping_sub\nend\n"
            .to_string(),
        true,
    ));
    v.push((
        "module with only re-exports".to_string(),
        "use.std::math::u64\nexport.u64::wrapping_add\nexport.u64::checked_add->cadd\n".to_string(),
        true,
    ));
    for n in [255usize, 256, 257] {
        // many re-exports of the same target under different aliases
        let mut s = String::from("use.std::math::u64\n");
        for i in 0..n {
            s.push_str(&format!("export.u64::wrapping_add->alias{i}\n"));
        }
        v.push((format!("module with {n} re-exports"), s, true));
    }

    // number of procs
    for n in [255usize, 256, 257] {
        let mut s = String::new();
        for i in 0..n {
            let kw = if i % 2 == 0 { "export" } else { "proc" };
            s.push_str(&format!("{kw}.p{i}.{}\n    push.{i} drop\nend\n", i % 4));
        }
        s.push_str(&format!("export.last exec.p{} call.p1 end\n", n - 1));
        v.push((format!("module with {} procs", n + 1), s, true));
    }

    v
}

// LIBRARY ROUND TRIP
// ================================================================================================

fn check_library(
    has_locations: bool,
    deps: &[&str],
    version: &str,
    extra_modules: usize,
    root_module: bool,
) -> Result<(), String> {
    let mut modules = Vec::new();
    let sources: Vec<(String, String)> = {
        let mut s = vec![
            (
                "demo::alpha".to_string(),
                "#! alpha docs\n\nuse.std::math::u64\n#! foo docs\nexport.foo.2\n    loc_store.1 \
                 assert_eqw.err=3 exec.u64::wrapping_add if.true push.1.2.3 else adv.push_mapvaln.2 drop end\nend\n\
                 proc.hidden\n    mem_storew.77 emit.5\nend\n"
                    .to_string(),
            ),
            (
                "demo::beta::gamma".to_string(),
                "use.demo::alpha\nexport.alpha::foo->refoo\nexport.bar\n    repeat.3 u32shr.7 end \
                 while.true debug.stack.3 push.0 end\nend\n"
                    .to_string(),
            ),
            (
                "demo::rootish".to_string(),
                "export.root_proc\n    push.18446744069414584320\nend\n".to_string(),
            ),
        ];
        if root_module {
            s.push(("demo".to_string(), "export.at_root\n    add\nend\n".to_string()));
        }
        for i in 0..extra_modules {
            s.push((format!("demo::gen::m{i}"), format!("export.p{i}\n    push.{i}\nend\n")));
        }
        s
    };
    for (path, src) in &sources {
        let ast = ModuleAst::parse(src).map_err(|e| format!("HARNESS: {path}: {e}"))?;
        modules.push(Module::new(LibraryPath::new(path).unwrap(), ast));
    }
    let ns = LibraryNamespace::new("demo").unwrap();
    let version = Version::try_from(version).map_err(|e| format!("HARNESS: version: {e}"))?;
    let deps: Vec<LibraryNamespace> = deps.iter().map(|d| LibraryNamespace::new(*d).unwrap()).collect();
    let lib = match MaslLibrary::new(ns, version, has_locations, modules, deps) {
        Ok(l) => l,
        // a constructor that refuses the value is fine: there is nothing to round-trip
        Err(_) if root_module => return Ok(()),
        Err(e) => return Err(format!("HARNESS: library: {e}")),
    };

    let mut bytes = Vec::new();
    lib.write_into(&mut bytes);
    let de = match catch_unwind(|| MaslLibrary::read_from(&mut SliceReader::new(&bytes))) {
        Ok(Ok(de)) => de,
        Ok(Err(e)) => return Err(format!("read_from failed on own output: {e}")),
        Err(_) => return Err("read_from PANICKED on own output".to_string()),
    };
    let mut expected = lib.clone();
    if !has_locations {
        expected.clear_locations();
    }
    for (m0, m1) in lib.modules().zip(de.modules()) {
        for (p0, p1) in m0.ast.procs().iter().zip(m1.ast.procs().iter()) {
            if render_nodes(p0.body.nodes()) != render_nodes(p1.body.nodes()) {
                return Err(format!(
                    "module {} proc {} body differs after library round trip\n      original: {}\n      reloaded: {}",
                    m0.path,
                    p0.name,
                    truncate(render_nodes(p0.body.nodes())),
                    truncate(render_nodes(p1.body.nodes()))
                ));
            }
        }
    }
    if expected != de {
        return Err("deserialised MaslLibrary != original".to_string());
    }
    let mut bytes2 = Vec::new();
    de.write_into(&mut bytes2);
    if bytes != bytes2 {
        return Err("re-serialised library bytes differ".to_string());
    }
    if lib.root_ns() != de.root_ns() || lib.version() != de.version() || lib.dependencies() != de.dependencies() {
        return Err("library header (namespace/version/dependencies) differs".to_string());
    }
    for (m0, m1) in lib.modules().zip(de.modules()) {
        if m0.path != m1.path {
            return Err(format!("module path differs: {} vs {}", m0.path, m1.path));
        }
        for (p0, p1) in m0.ast.procs().iter().zip(m1.ast.procs().iter()) {
            if render_nodes(p0.body.nodes()) != render_nodes(p1.body.nodes()) {
                return Err(format!("module {} proc {} body differs", m0.path, p0.name));
            }
            if has_locations {
                let l0: Vec<SourceLocation> = p0.source_locations().cloned().collect();
                let l1: Vec<SourceLocation> = p1.source_locations().cloned().collect();
                if l0 != l1 {
                    return Err(format!("module {} proc {} locations differ", m0.path, p0.name));
                }
            }
        }
    }

    // compile a program against both libraries
    let prog = "use.demo::alpha\nuse.demo::beta::gamma\nuse.demo::rootish\nbegin exec.alpha::foo \
                exec.gamma::bar exec.gamma::refoo exec.rootish::root_proc end";
    let compile = |l: &MaslLibrary| -> Compiled {
        let asm = Assembler::default()
            .with_debug_mode(true)
            .with_library(&StdLibrary::default())
            .map_err(|e| e.to_string())?
            .with_library(l)
            .map_err(|e| e.to_string())?;
        asm.compile(prog).map(|p| render_program(&p)).map_err(|e| e.to_string())
    };
    let c0 = compile(&lib);
    let c1 = compile(&de);
    if c0.is_err() {
        return Err(format!("HARNESS: program against original library does not compile: {c0:?}"));
    }
    if c0 != c1 {
        return Err(format!(
            "program compiled against the round-tripped library differs: {:?} vs {:?}",
            c0.map(|x| x.0),
            c1.map(|x| x.0)
        ));
    }
    Ok(())
}

// EXECUTION
// ================================================================================================

fn exec_cases() -> Vec<(&'static str, Vec<u64>)> {
    vec![
        ("begin push.1.2 add end", vec![]),
        ("begin push.1.2.3.4 push.1.2.3.4 assert_eqw end", vec![]),
        ("begin push.1.2.3.4 push.1.2.3.4 assert_eqw.err=7 end", vec![]),
        ("begin push.5 push.5 assert_eq.err=9 push.0 assertz.err=1 push.1 assert.err=2 end", vec![]),
        ("begin push.7 u32assert.err=1 push.8 u32assert2.err=2 u32assertw.err=3 end", vec![1, 2]),
        ("begin add.5 mul.3 sub.2 eq.19 neq.0 end", vec![2]),
        ("begin push.3 exp.5 push.2 exp.u8 add end", vec![]),
        ("begin u32wrapping_add.4294967295 u32overflowing_add.7 u32wrapping_sub.3 u32wrapping_mul.65536 end", vec![9]),
        ("begin u32div.3 u32mod.5 u32divmod.2 u32shl.3 u32shr.1 u32rotl.31 u32rotr.31 end", vec![100]),
        ("begin push.1.2.3.4 mem_storew.4294967295 dropw mem_loadw.4294967295 push.9 mem_store.65536 mem_load.65536 end", vec![]),
        ("proc.foo.3 push.11 loc_store.2 push.1.2.3.4 loc_storew.1 dropw loc_load.2 locaddr.0 padw loc_loadw.1 end begin exec.foo end", vec![]),
        ("proc.foo add end proc.bar mul end begin push.2.3 exec.foo push.4 call.bar procref.foo dropw end", vec![]),
        ("use.std::math::u64 begin push.1.0 push.2.0 exec.u64::wrapping_add end", vec![]),
        ("begin push.1 if.true push.10 else push.20 end push.3 repeat.4 add.1 end push.1 while.true push.0 end end", vec![]),
        ("begin push.256.65536.4294967296 push.0x0100000000000000020000000000000003000000000000000400000000000000 end", vec![]),
        ("begin syscall.kfoo end", vec![3, 4]),
        ("begin trace.2 trace.4294967295 push.1 drop end", vec![]),
    ]
}

fn run_program(p: &Program, inputs: &[u64]) -> Result<Vec<u64>, String> {
    let stack = StackInputs::try_from_values(inputs.iter().copied()).map_err(|e| e.to_string())?;
    match catch_unwind(AssertUnwindSafe(|| {
        processor::execute(p, stack, DefaultHost::default(), ExecutionOptions::default())
    })) {
        Ok(Ok(trace)) => Ok(trace.stack_outputs().stack().to_vec()),
        Ok(Err(e)) => Err(format!("execution error: {e}")),
        Err(_) => Err("PANIC during execution".to_string()),
    }
}

fn check_exec(env: &Env, src: &str, inputs: &[u64]) -> Result<(), String> {
    let ast = ProgramAst::parse(src).map_err(|e| format!("HARNESS: parse: {e}"))?;
    let bytes = ast.to_bytes(AstSerdeOptions::new(true));
    let de = ProgramAst::from_bytes(&bytes).map_err(|e| format!("from_bytes failed: {e}"))?;
    let p0 = env.assembler().compile_ast(&ast).map_err(|e| format!("HARNESS: compile: {e}"))?;
    let p1 = env
        .assembler()
        .compile_ast(&de)
        .map_err(|e| format!("round-tripped AST does not compile: {e}"))?;
    let r0 = run_program(&p0, inputs);
    if let Err(e) = &r0 {
        return Err(format!("HARNESS: original program does not execute: {e}"));
    }
    let r1 = run_program(&p1, inputs);
    if r0 != r1 {
        return Err(format!("execution results differ: original={r0:?} reloaded={r1:?}"));
    }
    if p0.hash() != p1.hash() {
        return Err("MAST roots differ".to_string());
    }
    Ok(())
}

// CORE DATA TYPES
// ================================================================================================

fn digest(seed: u64) -> RpoDigest {
    RpoDigest::new([
        Felt::new(seed),
        Felt::new(seed.wrapping_mul(0x9E37_79B9_7F4A_7C15) % MODULUS),
        Felt::new(MODULUS - 1 - (seed % 1000)),
        Felt::new(seed << 32 | 0xFFFF_FFFF),
    ])
}

fn check_core_types(env: &Env, rep: &mut Report) {
    let g = "core";

    // Kernel
    for n in [0usize, 1, 2, 3, 254, 255] {
        rep.record(g, &format!("Kernel with {n} procedures"), guarded(|| {
            let hashes: Vec<RpoDigest> = (0..n as u64).map(|i| digest(i + 1)).collect();
            let k = Kernel::new(&hashes).map_err(|e| format!("HARNESS: {e}"))?;
            let bytes = k.to_bytes();
            let de = Kernel::read_from_bytes(&bytes).map_err(|e| format!("read failed: {e}"))?;
            if k != de { return Err("Kernel differs".into()); }
            if de.to_bytes() != bytes { return Err("Kernel bytes differ".into()); }

            // ProgramInfo
            let info = ProgramInfo::new(digest(42), k.clone());
            let bytes = info.to_bytes();
            let de = ProgramInfo::read_from_bytes(&bytes).map_err(|e| format!("read failed: {e}"))?;
            if info != de { return Err("ProgramInfo differs".into()); }
            if de.to_bytes() != bytes { return Err("ProgramInfo bytes differ".into()); }
            Ok(())
        }));
    }

    // ProgramInfo from a real program with a kernel
    rep.record(g, "ProgramInfo from compiled program with kernel", guarded(|| {
        let p = env.assembler().compile("begin syscall.kfoo end").map_err(|e| format!("HARNESS: {e}"))?;
        let info = ProgramInfo::from(p);
        let de = ProgramInfo::read_from_bytes(&info.to_bytes()).map_err(|e| format!("read failed: {e}"))?;
        if info != de { return Err("ProgramInfo differs".into()); }
        if info.kernel_procedures().len() != 2 { return Err("HARNESS: expected 2 kernel procs".into()); }
        Ok(())
    }));

    // StackInputs
    for n in [0usize, 1, 2, 15, 16, 17, 255, 256, 257, 65535, 65536, 70000] {
        rep.record(g, &format!("StackInputs with {n} values"), guarded(|| {
            let vals: Vec<u64> = (0..n as u64).map(|i| if i % 3 == 0 { MODULUS - 1 - i } else { i }).collect();
            let s = StackInputs::try_from_values(vals).map_err(|e| format!("HARNESS: {e}"))?;
            let bytes = s.to_bytes();
            let de = StackInputs::read_from_bytes(&bytes).map_err(|e| format!("read failed: {e}"))?;
            if s.values() != de.values() { return Err("StackInputs differ".into()); }
            if de.to_bytes() != bytes { return Err("StackInputs bytes differ".into()); }
            Ok(())
        }));
    }

    // StackOutputs
    for n in [0usize, 1, 15, 16, 17, 18, 255, 256, 257, 65534, 65535] {
        rep.record(g, &format!("StackOutputs with {n} stack values"), guarded(|| {
            let stack: Vec<u64> = (0..n as u64).map(|i| if i % 2 == 0 { MODULUS - 1 - i } else { i }).collect();
            // one overflow address per element beyond the top 16, plus one for the previous pointer
            let overflow: Vec<u64> = if n > 16 { (0..(n - 16 + 1) as u64).map(|i| 0x1_0000_0000 + i).collect() } else { vec![] };
            let s = StackOutputs::new(stack, overflow).map_err(|e| format!("HARNESS: {e}"))?;
            let bytes = s.to_bytes();
            let de = StackOutputs::read_from_bytes(&bytes).map_err(|e| format!("read failed: {e}"))?;
            if s != de { return Err("StackOutputs differ".into()); }
            if de.to_bytes() != bytes { return Err("StackOutputs bytes differ".into()); }
            Ok(())
        }));
    }

}

// PROBES OF THE UNCHANGED CODE (informational; never counted as failures)
// ================================================================================================

fn probes(env: &Env, rep: &mut Report) {
    let mut progs: Vec<(String, String)> = vec![
        ("breakpoint as only instruction".into(), "begin breakpoint end".into()),
        ("breakpoint followed by instruction".into(), "begin breakpoint add end".into()),
        ("breakpoint inside if".into(), "begin if.true breakpoint add else mul end end".into()),
        ("aliased import".into(), "use.std::math::u64->bigint\nbegin exec.bigint::wrapping_add end".into()),
        ("empty doc comment on proc".into(), "#!\nproc.foo add end begin exec.foo end".into()),
        ("repeat.0".into(), "begin repeat.0 add end end".into()),
        ("debug.local outside proc".into(), "begin debug.local end".into()),
        ("debug.local.1.2 outside proc".into(), "begin debug.local.1.2 end".into()),
    ];
    {
        // import path of exactly MAX_PATH_LEN (1023) bytes: accepted by LibraryPath::validate
        let c = |ch: char, n: usize| std::iter::repeat(ch).take(n).collect::<String>();
        let path = format!("{}::{}::{}::{}", c('a', 253), c('b', 255), c('c', 255), c('d', 254));
        assert_eq!(path.len(), 1023);
        progs.push(("import path of exactly 1023 bytes".into(), format!("use.{path}\nbegin add end")));
    }
    for (what, src) in &progs {
        // a source the parser rejects is not an AST the parser can produce: nothing to round-trip
        if ProgramAst::parse(src).is_err() { rep.record("probe", what, Ok(())); continue; }
        rep.record("probe", what, guarded(|| check_program(env, src, true)));
    }
    for (what, src) in [
        ("aliased import (module)", "use.std::math::u64->bigint\nexport.foo exec.bigint::wrapping_add end"),
        ("empty module doc comment", "#!\n\nexport.foo add end"),
    ] {
        if ModuleAst::parse(src).is_err() { rep.record("probe", what, Ok(())); continue; }
        rep.record("probe", what, guarded(|| check_module(env, src, true)));
    }
    for (what, deps, root) in [
        ("MaslLibrary with dependencies not in sorted order", vec!["std", "other"], false),
        ("MaslLibrary with duplicate dependencies", vec!["std", "std"], false),
        ("MaslLibrary with a module at the namespace root", vec!["std"], true),
    ] {
        rep.record("probe", what, guarded(|| check_library(true, &deps, "0.1.0", 0, root)));
    }
}

// MAIN
// ================================================================================================

fn main() {
    // silence panic messages of caught panics (they are reported as failures by the harness)
    std::panic::set_hook(Box::new(|info| {
        *LAST_PANIC.lock().unwrap() = info.to_string();
    }));

    let env = Env { stdlib: StdLibrary::default() };
    let mut rep = Report::default();

    // MAST root of `proc.foo add end` to be used for `call.<mast root>`
    let foo_root = Assembler::default().compile("begin add end").unwrap().hash();
    let foo_root_hex = hex(foo_root);

    // ----- every instruction, as program and as module ------------------------------------------
    let cases = instruction_cases(&foo_root_hex);
    println!("== instruction sweep: {} instruction forms ==", cases.len());
    let before = rep.failures.len();
    for c in &cases {
        let src = program_source(c);
        rep.record("program/instr", &label(c), guarded(|| check_program(&env, &src, c.compile)));
    }
    println!(
        "{} ProgramAst instruction sweep ({} forms)",
        if rep.failures.len() == before { "PASS" } else { "FAIL" },
        cases.len()
    );
    let before = rep.failures.len();
    for c in &cases {
        if c.instr.starts_with("syscall") || c.instr.starts_with("call.0x") {
            // syscall / phantom targets are program-level features; still check the AST part
            let src = module_source(c);
            rep.record("module/instr", &label(c), guarded(|| check_module(&env, &src, false)));
            continue;
        }
        let src = module_source(c);
        rep.record("module/instr", &label(c), guarded(|| check_module(&env, &src, c.compile)));
    }
    println!(
        "{} ModuleAst instruction sweep ({} forms)",
        if rep.failures.len() == before { "PASS" } else { "FAIL" },
        cases.len()
    );

    // ----- container shapes ---------------------------------------------------------------------
    let before = rep.failures.len();
    let shapes = program_shape_cases();
    for (what, src, compile) in &shapes {
        rep.record("program/shape", what, guarded(|| check_program(&env, src, *compile)));
    }
    println!(
        "{} ProgramAst container shapes ({} cases)",
        if rep.failures.len() == before { "PASS" } else { "FAIL" },
        shapes.len()
    );
    let before = rep.failures.len();
    let shapes = module_shape_cases();
    for (what, src, compile) in &shapes {
        rep.record("module/shape", what, guarded(|| check_module(&env, src, *compile)));
    }
    println!(
        "{} ModuleAst container shapes ({} cases)",
        if rep.failures.len() == before { "PASS" } else { "FAIL" },
        shapes.len()
    );

    // ----- libraries ----------------------------------------------------------------------------
    let before = rep.failures.len();
    let mut n = 0;
    for has_locations in [true, false] {
        for (deps, version, extra) in [
            (vec![], "0.0.0", 0usize),
            (vec!["std"], "0.8.0", 1),
            (vec!["other", "std", "third"], "1.2.3", 3),
            (vec!["std"], "65535.65535.65535", 300),
        ] {
            n += 1;
            rep.record(
                "library",
                &format!("MaslLibrary locations={has_locations} deps={deps:?} version={version} extra_modules={extra}"),
                guarded(|| check_library(has_locations, &deps, version, extra, false)),
            );
        }
    }
    println!(
        "{} MaslLibrary round trips ({n} cases)",
        if rep.failures.len() == before { "PASS" } else { "FAIL" }
    );

    // ----- execution ----------------------------------------------------------------------------
    let before = rep.failures.len();
    let execs = exec_cases();
    for (src, inputs) in &execs {
        rep.record("exec", src, guarded(|| check_exec(&env, src, inputs)));
    }
    println!(
        "{} execution of original vs round-tripped programs ({} programs)",
        if rep.failures.len() == before { "PASS" } else { "FAIL" },
        execs.len()
    );

    // ----- core data types ----------------------------------------------------------------------
    let before = rep.failures.len();
    check_core_types(&env, &mut rep);
    println!(
        "{} core data types (Kernel, ProgramInfo, StackInputs, StackOutputs)",
        if rep.failures.len() == before { "PASS" } else { "FAIL" }
    );

    // ----- probes -------------------------------------------------------------------------------
    probes(&env, &mut rep);

    // ----- summary ------------------------------------------------------------------------------
    {
        let g = NESTED_LOC.lock().unwrap();
        rep.record(
            "nested-locations",
            "source locations of nested bodies written and reloaded",
            if g.0 == 0 { Ok(()) } else { Err(format!("{} bodies; first: {}", g.0, g.1)) },
        );
    }
    println!("\nSUMMARY checks={} failures={}", rep.checks, rep.failures.len());
    if rep.failures.is_empty() {
        println!("RESULT: PASS");
    } else {
        println!("offending cases:");
        for f in &rep.failures {
            println!("  - {f}");
        }
        println!("RESULT: FAIL");
        std::process::exit(1);
    }
}
