//! runmasm [--kernel '<kernel source>'] '<masm source>' [stack inputs, top first ...]
//! Assembles with /repo's assembler, executes with /repo's processor (DefaultHost), prints
//! OK <outputs> | ERR <error> | PANIC <message>.  Exit code 0 / 3 / 4.
use miden_assembly::Assembler;
use miden_processor::{execute, DefaultHost, ExecutionOptions, StackInputs};
use std::panic;

fn main() {
    let mut args: Vec<String> = std::env::args().collect();
    // optional: --kernel '<kernel module source>' as the first two arguments
    let mut kernel: Option<String> = None;
    if args.len() > 2 && args[1] == "--kernel" {
        kernel = Some(args[2].clone());
        args.drain(1..3);
    }
    let src = args[1].clone();
    let mut vals: Vec<u64> = args[2..].iter().map(|s| s.parse::<u64>().unwrap()).collect();
    vals.reverse();
    let r = panic::catch_unwind(move || {
        let mut asm = Assembler::default().with_library(&miden_stdlib::StdLibrary::default()).expect("stdlib");
        if let Some(k) = kernel {
            asm = match asm.with_kernel(&k) { Ok(a) => a, Err(e) => return format!("KERNELERR {e}") };
        }
        let program = match asm.compile(&src) {
            Ok(p) => p,
            Err(e) => return format!("ASMERR {e}"),
        };
        let inputs = StackInputs::try_from_values(vals).unwrap();
        match execute(&program, inputs, DefaultHost::default(), ExecutionOptions::default()) {
            Ok(trace) => format!("OK {:?}", trace.stack_outputs().stack().iter().map(|x| *x).collect::<Vec<u64>>()),
            Err(e) => format!("ERR {e}"),
        }
    });
    match r {
        Ok(s) => {
            println!("{s}");
            std::process::exit(if s.starts_with("OK") { 0 } else { 3 });
        }
        Err(e) => {
            let msg = e.downcast_ref::<String>().cloned().or_else(|| e.downcast_ref::<&str>().map(|s| s.to_string())).unwrap_or_default();
            println!("PANIC {msg}");
            std::process::exit(4);
        }
    }
}
