//! decodeprobe: bounded stand-in `decoder_mutations` for C19 (adapted from the demo written by the independent
//! mutation sub-agent for C19; machine-readable FAIL / SUMMARY lines added; known-issue exclusion removed -
//! known findings are handled by /verif/known_findings.json).
//! C19 demonstration: decoders of untrusted bytes never panic and accept only what they can
//! re-encode; integer based constructors reject non-canonical field elements.
//!
//! The program builds a family of valid encodings, then feeds every decoder
//!   (a) systematic mutations of the valid encodings and
//!   (b) a few hundred thousand short pseudo-random byte strings,
//! each call under `catch_unwind`.  Every accepted value is re-serialised, decoded again and
//! compared for equality.  Finally the integer based constructors are probed with p-1, p, p+1
//! and 2^64-1 in every argument position.
//!
//! Exit code 0 = PASS, 1 = FAIL, 2 = set-up error.

use miden_air::ExecutionProof;
use miden_assembly::{
    ast::{AstSerdeOptions, ModuleAst, ModuleImports, Node, ProcReExport, ProcedureAst, ProgramAst},
    utils::{ByteReader, Deserializable, DeserializationError, Serializable, SliceReader},
    Assembler, LibraryNamespace, LibraryPath, MaslLibrary, Module, ProcedureName, Version,
};
use miden_core::{
    crypto::hash::{Rpo256, RpoDigest},
    Felt, Kernel, ProgramInfo, StackInputs, StackOutputs, StarkField,
};
use miden_processor::{AdviceInputs, DefaultHost};
use std::{
    cell::RefCell,
    collections::BTreeMap,
    panic::{self, AssertUnwindSafe},
    process::Command,
    time::Instant,
};

const P: u64 = Felt::MODULUS;

// PANIC CAPTURE
// ================================================================================================

thread_local! {
    static LAST_PANIC: RefCell<String> = RefCell::new(String::new());
    static STAGE: RefCell<&'static str> = RefCell::new("");
}

fn stage(s: &'static str) {
    STAGE.with(|c| *c.borrow_mut() = s);
}

fn install_panic_hook() {
    panic::set_hook(Box::new(|info| {
        let msg = if let Some(s) = info.payload().downcast_ref::<&str>() {
            s.to_string()
        } else if let Some(s) = info.payload().downcast_ref::<String>() {
            s.clone()
        } else {
            "<non-string panic payload>".to_string()
        };
        let loc = info
            .location()
            .map(|l| {
                let f = l.file();
                // drop the machine specific prefix of registry / toolchain paths
                let f = match f.find("/registry/src/") {
                    Some(i) => f[i + 14..].split_once('/').map(|x| x.1).unwrap_or(f),
                    None => match f.find("/library/") {
                        Some(i) => &f[i + 1..],
                        None => f,
                    },
                };
                format!("{}:{}", f, l.line())
            })
            .unwrap_or_else(|| "<unknown>".into());
        LAST_PANIC.with(|c| *c.borrow_mut() = format!("'{msg}' at {loc}"));
    }));
}

// RECORDING READER (finds the offsets of the u16 / u32 fields - i.e. all length prefixes)
// ================================================================================================

struct RecReader<'a> {
    inner: SliceReader<'a>,
    pos: usize,
    fields: Vec<(usize, u8)>,
}

impl<'a> RecReader<'a> {
    fn new(bytes: &'a [u8]) -> Self {
        Self { inner: SliceReader::new(bytes), pos: 0, fields: Vec::new() }
    }
}

impl<'a> ByteReader for RecReader<'a> {
    fn read_u8(&mut self) -> Result<u8, DeserializationError> {
        let v = self.inner.read_u8()?;
        self.pos += 1;
        Ok(v)
    }
    fn peek_u8(&self) -> Result<u8, DeserializationError> {
        self.inner.peek_u8()
    }
    fn read_slice(&mut self, len: usize) -> Result<&[u8], DeserializationError> {
        let s = self.inner.read_slice(len)?;
        self.pos += len;
        Ok(s)
    }
    fn read_array<const N: usize>(&mut self) -> Result<[u8; N], DeserializationError> {
        let a = self.inner.read_array::<N>()?;
        self.pos += N;
        Ok(a)
    }
    fn check_eor(&self, num_bytes: usize) -> Result<(), DeserializationError> {
        self.inner.check_eor(num_bytes)
    }
    fn has_more_bytes(&self) -> bool {
        self.inner.has_more_bytes()
    }
    fn read_u16(&mut self) -> Result<u16, DeserializationError> {
        self.fields.push((self.pos, 2));
        let a = self.read_array::<2>()?;
        Ok(u16::from_le_bytes(a))
    }
    fn read_u32(&mut self) -> Result<u32, DeserializationError> {
        self.fields.push((self.pos, 4));
        let a = self.read_array::<4>()?;
        Ok(u32::from_le_bytes(a))
    }
}

// DECODERS
// ================================================================================================

#[derive(Clone, Copy, Debug, PartialEq, Eq, PartialOrd, Ord)]
enum Dec {
    ProgramAst,
    ProgramAstLoc,
    ModuleAst,
    ModuleAstLoc,
    MaslLibrary,
    ProcedureAst,
    ProcReExport,
    Node,
    ModuleImports,
    LibraryPath,
    LibraryNamespace,
    ProcedureName,
    Kernel,
    ProgramInfo,
    StackInputs,
    StackOutputs,
    ExecutionProof,
}

const ALL_DECODERS: [Dec; 17] = [
    Dec::ProgramAst,
    Dec::ProgramAstLoc,
    Dec::ModuleAst,
    Dec::ModuleAstLoc,
    Dec::MaslLibrary,
    Dec::ProcedureAst,
    Dec::ProcReExport,
    Dec::Node,
    Dec::ModuleImports,
    Dec::LibraryPath,
    Dec::LibraryNamespace,
    Dec::ProcedureName,
    Dec::Kernel,
    Dec::ProgramInfo,
    Dec::StackInputs,
    Dec::StackOutputs,
    Dec::ExecutionProof,
];

impl Dec {
    fn name(&self) -> &'static str {
        match self {
            Dec::ProgramAst => "ProgramAst::from_bytes",
            Dec::ProgramAstLoc => "ProgramAst::read_from + load_source_locations",
            Dec::ModuleAst => "ModuleAst::from_bytes",
            Dec::ModuleAstLoc => "ModuleAst::read_from + load_source_locations",
            Dec::MaslLibrary => "MaslLibrary::read_from_bytes",
            Dec::ProcedureAst => "ProcedureAst::read_from_bytes",
            Dec::ProcReExport => "ProcReExport::read_from_bytes",
            Dec::Node => "ast::Node::read_from_bytes",
            Dec::ModuleImports => "ModuleImports::read_from_bytes",
            Dec::LibraryPath => "LibraryPath::read_from_bytes",
            Dec::LibraryNamespace => "LibraryNamespace::read_from_bytes",
            Dec::ProcedureName => "ProcedureName::read_from_bytes",
            Dec::Kernel => "Kernel::read_from_bytes",
            Dec::ProgramInfo => "ProgramInfo::read_from_bytes",
            Dec::StackInputs => "StackInputs::read_from_bytes",
            Dec::StackOutputs => "StackOutputs::read_from_bytes",
            Dec::ExecutionProof => "ExecutionProof::from_bytes",
        }
    }

    fn from_cli(s: &str) -> Option<Dec> {
        ALL_DECODERS.iter().copied().find(|d| format!("{d:?}").eq_ignore_ascii_case(s))
    }
}

/// Context needed to call `verify()` on accepted proofs.
struct VerifyCtx {
    info: ProgramInfo,
    inputs: StackInputs,
    outputs: StackOutputs,
}

thread_local! {
    static VERIFY_CTX: RefCell<Option<VerifyCtx>> = RefCell::new(None);
    static VERIFY_CALLS: RefCell<(u64, u64)> = RefCell::new((0, 0));
}

fn hex(bytes: &[u8]) -> String {
    let mut s = String::with_capacity(bytes.len() * 2);
    for b in bytes {
        s.push_str(&format!("{b:02x}"));
    }
    s
}

fn hex_short(bytes: &[u8]) -> String {
    if bytes.len() <= 400 {
        hex(bytes)
    } else {
        format!(
            "{}...<{} bytes omitted>...{}",
            hex(&bytes[..160]),
            bytes.len() - 320,
            hex(&bytes[bytes.len() - 160..])
        )
    }
}

fn unhex(s: &str) -> Vec<u8> {
    (0..s.len() / 2).map(|i| u8::from_str_radix(&s[2 * i..2 * i + 2], 16).unwrap()).collect()
}

/// Round trip for types implementing the (de)serialisation traits and equality.
fn rt_simple<T>(bytes: &[u8]) -> Result<bool, String>
where
    T: Deserializable + Serializable + PartialEq,
{
    stage("decode");
    let v = match T::read_from_bytes(bytes) {
        Ok(v) => v,
        Err(_) => return Ok(false),
    };
    stage("re-encode of the accepted value");
    let b2 = v.to_bytes();
    stage("decode of the re-encoded bytes");
    let v2 = T::read_from_bytes(&b2).map_err(|e| {
        format!("accepted value re-encodes to bytes that are rejected ({e}); re-encoded = {}", hex_short(&b2))
    })?;
    stage("comparison");
    if v2 != v {
        return Err(format!(
            "accepted value re-encodes to bytes that decode to a different value; re-encoded = {}",
            hex_short(&b2)
        ));
    }
    stage("second re-encode");
    let b3 = v2.to_bytes();
    if b3 != b2 {
        return Err("re-encoding is not a fixed point".to_string());
    }
    Ok(true)
}

fn u32_at(bytes: &[u8], at: usize) -> Option<u32> {
    bytes.get(at..at + 4).map(|b| u32::from_le_bytes([b[0], b[1], b[2], b[3]]))
}

/// Element counts above this are not fed to the StackInputs / StackOutputs decoders: the
/// decoders reserve `count * 8` bytes before reading a single element (see the allocation
/// probe), which is a property of the host and not of the patch under test.
const MAX_SAFE_COUNT: u32 = 1 << 24;

fn is_alloc_hazard(dec: Dec, bytes: &[u8]) -> bool {
    match dec {
        Dec::StackInputs => u32_at(bytes, 0).map_or(false, |c| c > MAX_SAFE_COUNT),
        Dec::StackOutputs => match u32_at(bytes, 0) {
            Some(c) if c > MAX_SAFE_COUNT => true,
            Some(c) => {
                u32_at(bytes, 4 + 8 * c as usize).map_or(false, |c2| c2 > MAX_SAFE_COUNT)
            }
            None => false,
        },
        _ => false,
    }
}

/// Runs one decoder on one input. Ok(false) = rejected, Ok(true) = accepted and round trips,
/// Err = property violated.
fn check(dec: Dec, bytes: &[u8]) -> Result<bool, String> {
    match dec {
        Dec::ProgramAst => {
            stage("decode");
            let v = match ProgramAst::from_bytes(bytes) {
                Ok(v) => v,
                Err(_) => return Ok(false),
            };
            let opts = AstSerdeOptions::new(bytes[0] == 1);
            stage("re-encode of the accepted value");
            let b2 = v.to_bytes(opts);
            stage("decode of the re-encoded bytes");
            let v2 = ProgramAst::from_bytes(&b2)
                .map_err(|e| format!("re-encoded bytes are rejected ({e}); re-encoded = {}", hex_short(&b2)))?;
            if v2 != v {
                return Err(format!("re-decoded value differs; re-encoded = {}", hex_short(&b2)));
            }
            if v2.to_bytes(opts) != b2 {
                return Err("re-encoding is not a fixed point".to_string());
            }
            Ok(true)
        }
        Dec::ProgramAstLoc => {
            stage("decode");
            let mut r = SliceReader::new(bytes);
            let mut v = match ProgramAst::read_from(&mut r) {
                Ok(v) => v,
                Err(_) => return Ok(false),
            };
            if v.load_source_locations(&mut r).is_err() {
                return Ok(false);
            }
            let opts = AstSerdeOptions::new(bytes[0] == 1);
            stage("re-encode of the accepted value");
            let mut b2 = Vec::new();
            v.write_into(&mut b2, opts);
            v.write_source_locations(&mut b2);
            stage("decode of the re-encoded bytes");
            let mut r2 = SliceReader::new(&b2);
            let mut v2 = ProgramAst::read_from(&mut r2)
                .map_err(|e| format!("re-encoded bytes are rejected ({e}); re-encoded = {}", hex_short(&b2)))?;
            v2.load_source_locations(&mut r2)
                .map_err(|e| format!("re-encoded locations are rejected ({e}); re-encoded = {}", hex_short(&b2)))?;
            if v2 != v || !v2.source_locations().eq(v.source_locations()) {
                return Err(format!("re-decoded value differs; re-encoded = {}", hex_short(&b2)));
            }
            Ok(true)
        }
        Dec::ModuleAst => {
            stage("decode");
            let v = match ModuleAst::from_bytes(bytes) {
                Ok(v) => v,
                Err(_) => return Ok(false),
            };
            let opts = AstSerdeOptions::new(bytes[0] == 1);
            stage("re-encode of the accepted value");
            let b2 = v.to_bytes(opts);
            stage("decode of the re-encoded bytes");
            let v2 = ModuleAst::from_bytes(&b2)
                .map_err(|e| format!("re-encoded bytes are rejected ({e}); re-encoded = {}", hex_short(&b2)))?;
            if v2 != v {
                return Err(format!("re-decoded value differs; re-encoded = {}", hex_short(&b2)));
            }
            if v2.to_bytes(opts) != b2 {
                return Err("re-encoding is not a fixed point".to_string());
            }
            Ok(true)
        }
        Dec::ModuleAstLoc => {
            stage("decode");
            let mut r = SliceReader::new(bytes);
            let opts = match AstSerdeOptions::read_from(&mut r) {
                Ok(o) => o,
                Err(_) => return Ok(false),
            };
            let mut v = match ModuleAst::read_from(&mut r, opts) {
                Ok(v) => v,
                Err(_) => return Ok(false),
            };
            if v.load_source_locations(&mut r).is_err() {
                return Ok(false);
            }
            stage("re-encode of the accepted value");
            let mut b2 = v.to_bytes(opts);
            v.write_source_locations(&mut b2);
            stage("decode of the re-encoded bytes");
            let mut r2 = SliceReader::new(&b2);
            let opts2 = AstSerdeOptions::read_from(&mut r2).map_err(|e| format!("{e}"))?;
            let mut v2 = ModuleAst::read_from(&mut r2, opts2)
                .map_err(|e| format!("re-encoded bytes are rejected ({e}); re-encoded = {}", hex_short(&b2)))?;
            v2.load_source_locations(&mut r2)
                .map_err(|e| format!("re-encoded locations are rejected ({e}); re-encoded = {}", hex_short(&b2)))?;
            let locs = |m: &ModuleAst| -> Vec<_> {
                m.procs().iter().flat_map(|p| p.source_locations().cloned().collect::<Vec<_>>()).collect()
            };
            if v2 != v || locs(&v2) != locs(&v) {
                return Err(format!("re-decoded value differs; re-encoded = {}", hex_short(&b2)));
            }
            Ok(true)
        }
        Dec::MaslLibrary => rt_simple::<MaslLibrary>(bytes),
        Dec::ProcedureAst => rt_simple::<ProcedureAst>(bytes),
        Dec::ProcReExport => rt_simple::<ProcReExport>(bytes),
        Dec::Node => rt_simple::<Node>(bytes),
        Dec::ModuleImports => rt_simple::<ModuleImports>(bytes),
        Dec::LibraryPath => rt_simple::<LibraryPath>(bytes),
        Dec::LibraryNamespace => rt_simple::<LibraryNamespace>(bytes),
        Dec::ProcedureName => rt_simple::<ProcedureName>(bytes),
        Dec::Kernel => rt_simple::<Kernel>(bytes),
        Dec::ProgramInfo => rt_simple::<ProgramInfo>(bytes),
        Dec::StackInputs => {
            stage("decode");
            let v = match StackInputs::read_from_bytes(bytes) {
                Ok(v) => v,
                Err(_) => return Ok(false),
            };
            stage("re-encode of the accepted value");
            let b2 = v.to_bytes();
            stage("decode of the re-encoded bytes");
            let v2 = StackInputs::read_from_bytes(&b2)
                .map_err(|e| format!("re-encoded bytes are rejected ({e}); re-encoded = {}", hex_short(&b2)))?;
            if v2.values() != v.values() {
                return Err(format!("re-decoded value differs; re-encoded = {}", hex_short(&b2)));
            }
            // the decoder must only accept canonical encodings of field elements
            let n = v.values().len();
            for i in 0..n {
                let raw = u64::from_le_bytes(bytes[4 + 8 * i..12 + 8 * i].try_into().unwrap());
                if raw >= P {
                    return Err(format!("accepted a non-canonical field element {raw:#x} at position {i}"));
                }
            }
            Ok(true)
        }
        Dec::StackOutputs => {
            let ok = rt_simple::<StackOutputs>(bytes)?;
            if ok {
                stage("canonical check of the accepted value");
                let v = StackOutputs::read_from_bytes(bytes).unwrap();
                if let Some(x) = v.stack().iter().find(|x| **x >= P) {
                    return Err(format!("accepted a stack element that is not a canonical field element: {x:#x}"));
                }
                if let Some(x) = v.overflow_addrs().iter().find(|x| **x >= P) {
                    return Err(format!(
                        "accepted an overflow address that is not a canonical field element: {x:#x}"
                    ));
                }
            }
            Ok(ok)
        }
        Dec::ExecutionProof => {
            stage("decode");
            let v = match ExecutionProof::from_bytes(bytes) {
                Ok(v) => v,
                Err(_) => return Ok(false),
            };
            stage("re-encode of the accepted value");
            let b2 = v.to_bytes();
            stage("decode of the re-encoded bytes");
            let v2 = ExecutionProof::from_bytes(&b2)
                .map_err(|e| format!("re-encoded bytes are rejected ({e}); re-encoded = {}", hex_short(&b2)))?;
            if v2 != v {
                return Err("re-decoded proof differs".to_string());
            }
            // verify() on the decoded proof must return a verdict, not panic
            stage("verifier::verify() on the decoded proof");
            VERIFY_CTX.with(|c| {
                if let Some(ctx) = c.borrow().as_ref() {
                    let res = miden_verifier::verify(
                        ctx.info.clone(),
                        ctx.inputs.clone(),
                        ctx.outputs.clone(),
                        v,
                    );
                    VERIFY_CALLS.with(|n| {
                        let mut n = n.borrow_mut();
                        n.0 += 1;
                        if res.is_ok() {
                            n.1 += 1;
                        }
                    });
                }
            });
            Ok(true)
        }
    }
}

/// Offsets of the u16 / u32 fields read while decoding a valid encoding.
fn record_fields(dec: Dec, bytes: &[u8]) -> Vec<(usize, u8)> {
    let mut r = RecReader::new(bytes);
    fn go<T: Deserializable>(r: &mut RecReader) {
        T::read_from(r).map(|_| ()).expect("valid sample must decode");
    }
    match dec {
        Dec::ProgramAst => {
            ProgramAst::read_from(&mut r).expect("valid sample must decode");
        }
        Dec::ProgramAstLoc => {
            let mut v = ProgramAst::read_from(&mut r).expect("valid sample must decode");
            v.load_source_locations(&mut r).expect("valid sample must decode");
        }
        Dec::ModuleAst => {
            let o = AstSerdeOptions::read_from(&mut r).unwrap();
            ModuleAst::read_from(&mut r, o).expect("valid sample must decode");
        }
        Dec::ModuleAstLoc => {
            let o = AstSerdeOptions::read_from(&mut r).unwrap();
            let mut v = ModuleAst::read_from(&mut r, o).expect("valid sample must decode");
            v.load_source_locations(&mut r).expect("valid sample must decode");
        }
        Dec::MaslLibrary => go::<MaslLibrary>(&mut r),
        Dec::ProcedureAst => go::<ProcedureAst>(&mut r),
        Dec::ProcReExport => go::<ProcReExport>(&mut r),
        Dec::Node => go::<Node>(&mut r),
        Dec::ModuleImports => go::<ModuleImports>(&mut r),
        Dec::LibraryPath => go::<LibraryPath>(&mut r),
        Dec::LibraryNamespace => go::<LibraryNamespace>(&mut r),
        Dec::ProcedureName => go::<ProcedureName>(&mut r),
        Dec::Kernel => go::<Kernel>(&mut r),
        Dec::ProgramInfo => go::<ProgramInfo>(&mut r),
        Dec::StackInputs => go::<StackInputs>(&mut r),
        Dec::StackOutputs => go::<StackOutputs>(&mut r),
        Dec::ExecutionProof => {
            r.read_u8().unwrap();
            go::<miden_prover::StarkProof>(&mut r);
        }
    }
    r.fields
}

// FAILURE BOOK-KEEPING
// ================================================================================================

#[derive(Default)]
struct Stats {
    calls: u64,
    accepted: u64,
    rejected: u64,
    skipped_alloc_hazard: u64,
    excluded_known: u64,
}

struct Failure {
    what: String,
    origin: String,
    bytes: Vec<u8>,
}

struct Group {
    count: u64,
    known: Option<&'static str>,
    first: Failure,
    shortest: Failure,
}

struct Book {
    stats: BTreeMap<Dec, Stats>,
    groups: BTreeMap<(Dec, String), Group>,
}

impl Book {
    fn new() -> Self {
        Self { stats: BTreeMap::new(), groups: BTreeMap::new() }
    }

    fn run(&mut self, dec: Dec, bytes: &[u8], origin: &dyn Fn() -> String) {
        let st = self.stats.entry(dec).or_default();
        if is_alloc_hazard(dec, bytes) {
            st.skipped_alloc_hazard += 1;
            return;
        }
        st.calls += 1;
        let res = panic::catch_unwind(AssertUnwindSafe(|| check(dec, bytes)));
        let what = match res {
            Ok(Ok(true)) => {
                st.accepted += 1;
                return;
            }
            Ok(Ok(false)) => {
                st.rejected += 1;
                return;
            }
            Ok(Err(msg)) => msg,
            Err(_) => {
                let msg = LAST_PANIC.with(|c| c.borrow().clone());
                let stg = STAGE.with(|c| *c.borrow());
                format!("PANIC during {stg}: {msg}")
            }
        };
        let known = known_issue(dec, &what);
        if known.is_some() {
            st.excluded_known += 1;
        }
        // group failures by decoder and by the message without its variable tail
        let key: String = what
            .split("; re-encoded")
            .next()
            .unwrap()
            .split(": 0x")
            .next()
            .unwrap()
            .chars()
            .take(160)
            .collect();
        let mk = || Failure { what: what.clone(), origin: origin(), bytes: bytes.to_vec() };
        match self.groups.get_mut(&(dec, key.clone())) {
            None => {
                self.groups.insert((dec, key), Group { count: 1, known, first: mk(), shortest: mk() });
            }
            Some(g) => {
                g.count += 1;
                if bytes.len() < g.shortest.bytes.len() {
                    g.shortest = mk();
                }
            }
        }
    }

    /// Number of failures that count for the verdict.
    fn total_failures(&self) -> u64 {
        self.groups.values().filter(|g| g.known.is_none()).map(|g| g.count).sum()
    }

    fn print_groups(&self, known: bool) {
        for ((dec, key), g) in self.groups.iter().filter(|(_, g)| g.known.is_some() == known) {
            println!("  [{} x] {}: {}", g.count, dec.name(), key);
            println!("FAIL decoder={:?} count={} :: {} :: shortest={}", dec, g.count, key.replace('\n', " "), if g.shortest.bytes.len() <= 400 { hex(&g.shortest.bytes) } else { hex_short(&g.shortest.bytes) });
            if let Some(k) = g.known {
                println!("        classification: {k}");
            }
            for (label, f) in [("first", &g.first), ("shortest", &g.shortest)] {
                if label == "shortest" && f.bytes == g.first.bytes {
                    continue;
                }
                println!("        {label} input: {}", f.origin);
                println!("        {label} detail: {}", f.what);
                println!(
                    "        {label} bytes ({}) = {}",
                    f.bytes.len(),
                    if f.bytes.len() <= 1200 { hex(&f.bytes) } else { hex_short(&f.bytes) }
                );
            }
        }
    }
}

/// Classes of inputs on which the UNCHANGED code base already violates the property. They are
/// reported separately and excluded from the verdict.
fn known_issue(_dec: Dec, _what: &str) -> Option<&'static str> {
    None
}

// SAMPLES
// ================================================================================================

struct Sample {
    name: String,
    dec: Dec,
    bytes: Vec<u8>,
}

const PROGRAM_SIMPLE: &str = "begin push.1 push.2 add end";

const PROGRAM_RICH: &str = "\
use.std::math::u64
use.std::crypto::hashes::blake3->b3

#! documentation of foo
#! second line
proc.foo.4
    loc_store.0 loc_load.1 loc_storew.2 loc_loadw.3 locaddr.1
    push.0x10 u32wrapping_add.5 u32overflowing_sub.7 u32shl.3 u32rotr.9
    if.true
        push.1.2.3
    else
        push.18446744069414584320 drop
        if.true push.65536.70000 else drop end
    end
end

proc.bar
    exec.foo
    repeat.3 dup.1 mul end
    while.true push.0 end
    exec.u64::wrapping_add
    call.b3::hash_2to1
    procref.foo
    procref.u64::wrapping_mul
end

begin
    push.1.2.3.4.5.6.7.8.9.10.11.12.13.14.15.16
    push.300.400.500
    push.4294967296.4294967297
    push.0x0100000000000000020000000000000003000000000000000400000000000000
    adv.push_mapval adv.push_mapval.2 adv.push_mapvaln.3 adv.insert_hdword.7 adv.insert_mem
    adv.push_sig.rpo_falcon512 adv_push.4 adv_loadw adv_pipe
    debug.stack debug.stack.4 debug.mem debug.mem.1 debug.mem.1.5
    emit.77 trace.3
    mem_load.1000 mem_storew.32 mem_loadw mem_store
    add.5 sub.6 mul.7 div.8 eq.9 neq.10 exp.3 exp.u5
    assert.err=5 assert_eq assert_eqw.err=6 assertz u32assert2.err=9 u32assertw
    call.0x0100000000000000020000000000000003000000000000000400000000000000
    exec.bar call.foo
    syscall.kproc
    dynexec dyncall
    hash hmerge hperm mtree_get mtree_set mtree_merge mtree_verify
    fri_ext2fold4 rcomb_base
    swapdw movup.15 movdn.2 cswapw cdropw
    sdepth caller clk
end
";

const PROGRAM_NESTED: &str = "\
begin
    push.5
    repeat.2
        if.true
            while.true
                repeat.4 push.1 drop end
                push.0
            end
        else
            push.7 drop
        end
        push.1
    end
end
";

const MODULE_SIMPLE: &str = "export.foo push.1 push.2 add end";

const MODULE_RICH: &str = "\
#! module documentation
#! spanning two lines

use.std::math::u64
use.std::math::u256->big
use.dep::other

export.u64::checked_eqz
export.u64::unchecked_eqz->notchecked_eqz

#! internal helper
proc.helper.2
    loc_store.0 push.1.2 loc_load.0 add
    debug.local debug.local.1 debug.local.0.1
end

#! exported procedure
#! with two lines of documentation
export.main_entry.1
    exec.helper
    exec.big::add
    call.other::go
    if.true push.1 else push.2 end
    while.true push.0 end
end

export.no_docs
    push.0xffffffff00000000
    exec.helper
end
";

fn parse_program(src: &str) -> ProgramAst {
    ProgramAst::parse(src).unwrap_or_else(|e| {
        eprintln!("SETUP ERROR: program does not parse: {e}\n{src}");
        std::process::exit(2)
    })
}

fn parse_module(src: &str) -> ModuleAst {
    ModuleAst::parse(src).unwrap_or_else(|e| {
        eprintln!("SETUP ERROR: module does not parse: {e}\n{src}");
        std::process::exit(2)
    })
}

fn digest(seed: &str) -> RpoDigest {
    Rpo256::hash(seed.as_bytes())
}

fn build_samples(with_proof: bool) -> Vec<Sample> {
    let mut out = Vec::new();
    let mut add = |name: &str, dec: Dec, bytes: Vec<u8>| {
        out.push(Sample { name: name.to_string(), dec, bytes });
    };
    let with_imports = AstSerdeOptions::new(true);
    let without_imports = AstSerdeOptions::new(false);

    // ----- programs -----------------------------------------------------------------------------
    for (name, src) in
        [("program/simple", PROGRAM_SIMPLE), ("program/rich", PROGRAM_RICH), ("program/nested", PROGRAM_NESTED)]
    {
        let ast = parse_program(src);
        add(&format!("{name}+imports"), Dec::ProgramAst, ast.to_bytes(with_imports));
        add(&format!("{name}-imports"), Dec::ProgramAst, ast.to_bytes(without_imports));
        let mut b = ast.to_bytes(with_imports);
        ast.write_source_locations(&mut b);
        add(&format!("{name}+imports+locations"), Dec::ProgramAstLoc, b);
        if name == "program/simple" {
            let mut b = ast.to_bytes(without_imports);
            ast.write_source_locations(&mut b);
            add(&format!("{name}-imports+locations"), Dec::ProgramAstLoc, b);
        }
    }

    // ----- modules ------------------------------------------------------------------------------
    let stdlib = format!("{}/stdlib/asm", std::env::var("VERIF_REPO").unwrap_or_else(|_| "/repo".to_string()));
    let read = |rel: &str| -> String {
        std::fs::read_to_string(format!("{stdlib}/{rel}")).unwrap_or_else(|e| {
            eprintln!("SETUP ERROR: cannot read {stdlib}/{rel}: {e}");
            std::process::exit(2)
        })
    };
    let mod_simple = parse_module(MODULE_SIMPLE);
    let mod_rich = parse_module(MODULE_RICH);
    let mod_sys = parse_module(&read("sys.masm"));
    let mod_mem = parse_module(&read("mem.masm"));
    let mod_u64 = parse_module(&read("math/u64.masm"));
    let mod_smt = parse_module(&read("collections/smt.masm"));
    for (name, ast) in [
        ("module/simple", &mod_simple),
        ("module/rich", &mod_rich),
        ("module/std-sys", &mod_sys),
        ("module/std-mem", &mod_mem),
        ("module/std-u64", &mod_u64),
        ("module/std-smt", &mod_smt),
    ] {
        add(&format!("{name}+imports"), Dec::ModuleAst, ast.to_bytes(with_imports));
        if name == "module/simple" || name == "module/rich" {
            add(&format!("{name}-imports"), Dec::ModuleAst, ast.to_bytes(without_imports));
        }
        if name != "module/std-u64" && name != "module/std-smt" {
            let mut b = ast.to_bytes(with_imports);
            ast.write_source_locations(&mut b);
            add(&format!("{name}+imports+locations"), Dec::ModuleAstLoc, b);
        }
    }

    // ----- parts of ASTs ------------------------------------------------------------------------
    for (i, p) in mod_rich.procs().iter().enumerate() {
        add(&format!("procedure/rich-{i}"), Dec::ProcedureAst, p.to_bytes());
    }
    for (i, p) in mod_rich.reexported_procs().iter().enumerate() {
        add(&format!("reexport/rich-{i}"), Dec::ProcReExport, p.to_bytes());
    }
    let prog_rich = parse_program(PROGRAM_RICH);
    let prog_nested = parse_program(PROGRAM_NESTED);
    for (i, n) in prog_nested.body().nodes().iter().enumerate() {
        add(&format!("node/nested-{i}"), Dec::Node, n.to_bytes());
    }
    for (i, n) in prog_rich.procedures()[0].body.nodes().iter().enumerate().skip(10) {
        add(&format!("node/rich-foo-{i}"), Dec::Node, n.to_bytes());
    }
    add("imports/program-rich", Dec::ModuleImports, prog_rich.import_info().to_bytes());
    add("imports/module-rich", Dec::ModuleImports, mod_rich.import_info().to_bytes());
    add("imports/empty", Dec::ModuleImports, ModuleImports::default().to_bytes());
    for p in ["std", "std::math::u64", "#exec::foo", "#sys", "a::b_c::d9"] {
        add(&format!("path/{p}"), Dec::LibraryPath, LibraryPath::new(p).unwrap().to_bytes());
    }
    add(
        "path/longest",
        Dec::LibraryPath,
        LibraryPath::new(["a".repeat(255), "b".repeat(255), "c".repeat(255), "d".repeat(250)].join("::"))
            .unwrap()
            .to_bytes(),
    );
    add("namespace/std", Dec::LibraryNamespace, LibraryNamespace::new("std").unwrap().to_bytes());
    add(
        "namespace/longest",
        Dec::LibraryNamespace,
        LibraryNamespace::new("n".repeat(255)).unwrap().to_bytes(),
    );
    add("procname/foo", Dec::ProcedureName, ProcedureName::try_from("foo_bar9").unwrap().to_bytes());
    add(
        "procname/longest",
        Dec::ProcedureName,
        ProcedureName::try_from("z".repeat(255)).unwrap().to_bytes(),
    );

    // ----- libraries ----------------------------------------------------------------------------
    let ns = LibraryNamespace::new("test").unwrap();
    let modules = || {
        vec![
            Module::new(LibraryPath::new("test::simple").unwrap(), mod_simple.clone()),
            Module::new(LibraryPath::new("test::sub::rich").unwrap(), mod_rich.clone()),
            Module::new(LibraryPath::new("test::sub::deeper::mem").unwrap(), mod_mem.clone()),
        ]
    };
    let deps = || vec![LibraryNamespace::new("std").unwrap(), LibraryNamespace::new("dep").unwrap()];
    let version = Version { major: 1, minor: 2, patch: 300 };
    for locations in [false, true] {
        let lib = MaslLibrary::new(ns.clone(), version, locations, modules(), deps()).unwrap_or_else(|e| {
            eprintln!("SETUP ERROR: {e}");
            std::process::exit(2)
        });
        add(
            &format!("library/test{}", if locations { "+locations" } else { "" }),
            Dec::MaslLibrary,
            lib.to_bytes(),
        );
    }
    let lib = MaslLibrary::new(
        ns.clone(),
        Version::MIN,
        false,
        vec![Module::new(LibraryPath::new("test::simple").unwrap(), mod_simple.clone())],
        vec![],
    )
    .unwrap();
    add("library/minimal", Dec::MaslLibrary, lib.to_bytes());
    // the complete standard library (a long encoding)
    let std_lib = MaslLibrary::read_from_dir(&stdlib, LibraryNamespace::new("std").unwrap(), true, Version::MIN)
        .unwrap_or_else(|e| {
            eprintln!("SETUP ERROR: cannot build the standard library from {stdlib}: {e}");
            std::process::exit(2)
        });
    add("library/std+locations", Dec::MaslLibrary, std_lib.to_bytes());

    // ----- kernels, program info ----------------------------------------------------------------
    let k0 = Kernel::default();
    let k1 = Kernel::new(&[digest("a")]).unwrap();
    let k3 = Kernel::new(&[digest("a"), digest("b"), digest("c")]).unwrap();
    let k255 = Kernel::new(&(0..255).map(|i| digest(&format!("k{i}"))).collect::<Vec<_>>()).unwrap();
    add("kernel/empty", Dec::Kernel, k0.to_bytes());
    add("kernel/one", Dec::Kernel, k1.to_bytes());
    add("kernel/three", Dec::Kernel, k3.to_bytes());
    add("kernel/255", Dec::Kernel, k255.to_bytes());
    add("programinfo/no-kernel", Dec::ProgramInfo, ProgramInfo::new(digest("p"), k0).to_bytes());
    add("programinfo/kernel-3", Dec::ProgramInfo, ProgramInfo::new(digest("q"), k3).to_bytes());

    // ----- stack inputs / outputs ---------------------------------------------------------------
    add("stackinputs/empty", Dec::StackInputs, StackInputs::default().to_bytes());
    add(
        "stackinputs/4",
        Dec::StackInputs,
        StackInputs::try_from_values([1, 2, P - 1, 0xffff_ffff]).unwrap().to_bytes(),
    );
    add(
        "stackinputs/20",
        Dec::StackInputs,
        StackInputs::try_from_values((0..20).map(|i| if i % 5 == 0 { P - 1 - i } else { i })).unwrap().to_bytes(),
    );
    add("stackoutputs/default", Dec::StackOutputs, StackOutputs::default().to_bytes());
    add(
        "stackoutputs/16",
        Dec::StackOutputs,
        StackOutputs::new(vec![1, 2, P - 1, 4], vec![]).unwrap().to_bytes(),
    );
    add(
        "stackoutputs/17-overflow",
        Dec::StackOutputs,
        StackOutputs::new((1..=17).collect(), vec![0, 40]).unwrap().to_bytes(),
    );
    // the overflow table of a program started with more than 16 inputs uses addresses counted
    // down from the field modulus, so addresses next to p are ordinary values
    let mut stack: Vec<u64> = (1..=19).collect();
    stack[0] = P - 1;
    stack[18] = P - 1;
    add(
        "stackoutputs/19-overflow-high-addrs",
        Dec::StackOutputs,
        StackOutputs::new(stack, vec![P - 4, P - 3, P - 2, P - 1]).unwrap().to_bytes(),
    );

    // ----- execution proof ----------------------------------------------------------------------
    if with_proof {
        let program = Assembler::default().compile("begin push.1 push.2 add end").unwrap();
        let inputs = StackInputs::try_from_values([7, 8]).unwrap();
        let (outputs, proof) = miden_prover::prove(
            &program,
            inputs.clone(),
            DefaultHost::default(),
            miden_prover::ProvingOptions::default(),
        )
        .unwrap_or_else(|e| {
            eprintln!("SETUP ERROR: proving failed: {e}");
            std::process::exit(2)
        });
        let info = ProgramInfo::from(program);
        miden_verifier::verify(info.clone(), inputs.clone(), outputs.clone(), proof.clone())
            .expect("the unmodified proof must verify");
        add("proof/push-add", Dec::ExecutionProof, proof.to_bytes());
        add("stackoutputs/of-proof", Dec::StackOutputs, outputs.to_bytes());
        add("programinfo/of-proof", Dec::ProgramInfo, info.to_bytes());
        VERIFY_CTX.with(|c| *c.borrow_mut() = Some(VerifyCtx { info, inputs, outputs }));
    }
    out
}

// MUTATIONS
// ================================================================================================

/// Encodings up to this length get every offset mutated and every truncation.
const FULL_LIMIT: usize = 12_000;
const EDGE: usize = 300;
const MAX_FIELDS_LONG: usize = 1_200;

fn mutate_sample(book: &mut Book, s: &Sample, targets: &[Dec]) {
    let n = s.bytes.len();
    let fields = record_fields(s.dec, &s.bytes);
    let long = n > FULL_LIMIT;

    // offsets to mutate
    let mut offsets: Vec<usize> = if !long {
        (0..n).collect()
    } else {
        let mut v: Vec<usize> = (0..EDGE).chain(n - EDGE..n).collect();
        // every length field near the edges, an even sample of the rest
        let step = (fields.len() / MAX_FIELDS_LONG).max(1);
        for (i, (off, w)) in fields.iter().enumerate() {
            if i % step == 0 || *off < 4 * EDGE || *off + 4 * EDGE > n {
                v.extend(*off..*off + *w as usize);
            }
        }
        v
    };
    offsets.sort_unstable();
    offsets.dedup();

    let mut buf = s.bytes.clone();
    for &dec in targets {
        // (1) single byte changes
        for &off in &offsets {
            let orig = s.bytes[off];
            for (op, val) in
                [("=0x00", 0u8), ("=0xff", 0xff), ("+1", orig.wrapping_add(1)), ("-1", orig.wrapping_sub(1))]
            {
                if val == orig {
                    continue;
                }
                buf[off] = val;
                book.run(dec, &buf, &|| format!("{}: byte at offset {off} {op} ({orig:#04x} -> {val:#04x})", s.name));
            }
            buf[off] = orig;
        }

        // (2) length fields as a whole
        let step = if long { (fields.len() / MAX_FIELDS_LONG).max(1) } else { 1 };
        for (i, &(off, w)) in fields.iter().enumerate() {
            if i % step != 0 {
                continue;
            }
            let w = w as usize;
            let orig: u64 = s.bytes[off..off + w].iter().rev().fold(0u64, |a, b| (a << 8) | *b as u64);
            let max: u64 = if w == 2 { 0xffff } else { 0xffff_ffff };
            for val in [0, 1, max, max - 1, orig.wrapping_add(1) & max, orig.wrapping_sub(1) & max, (orig + 256) & max, 0x8000 & max, 0x7fff] {
                if val == orig {
                    continue;
                }
                for k in 0..w {
                    buf[off + k] = (val >> (8 * k)) as u8;
                }
                book.run(dec, &buf, &|| format!("{}: u{} field at offset {off} {orig} -> {val}", s.name, 8 * w));
            }
            buf[off..off + w].copy_from_slice(&s.bytes[off..off + w]);
        }

        // (3) truncations
        let cuts: Vec<usize> = if !long {
            (0..n).collect()
        } else {
            let step = (n / 1500).max(1);
            let mut v: Vec<usize> = (0..EDGE).chain(n - EDGE..n).chain((EDGE..n - EDGE).step_by(step)).collect();
            v.sort_unstable();
            v.dedup();
            v
        };
        for cut in cuts {
            book.run(dec, &s.bytes[..cut], &|| format!("{}: truncated to {cut} of {n} bytes", s.name));
        }

        // (4) insertions / deletions / appended bytes
        let mut spots: Vec<usize> = (0..n.min(48)).chain(n.saturating_sub(8)..n).collect();
        let fstep = (fields.len() / 150).max(1);
        spots.extend(fields.iter().step_by(fstep).map(|f| f.0));
        spots.sort_unstable();
        spots.dedup();
        for &at in &spots {
            for ins in [0x00u8, 0x01, 0xff] {
                let mut m = Vec::with_capacity(n + 1);
                m.extend_from_slice(&s.bytes[..at]);
                m.push(ins);
                m.extend_from_slice(&s.bytes[at..]);
                book.run(dec, &m, &|| format!("{}: byte {ins:#04x} inserted at offset {at}", s.name));
            }
            let mut m = s.bytes.clone();
            m.remove(at);
            book.run(dec, &m, &|| format!("{}: byte at offset {at} deleted", s.name));
        }
        for extra in [&[0u8][..], &[0xff], &[1, 0, 0, 0], &[0; 8]] {
            let mut m = s.bytes.clone();
            m.extend_from_slice(extra);
            book.run(dec, &m, &|| format!("{}: {} extra bytes appended", s.name, extra.len()));
        }
    }
}

// PSEUDO-RANDOM INPUTS
// ================================================================================================

struct Rng(u64);
impl Rng {
    fn next(&mut self) -> u64 {
        self.0 ^= self.0 >> 12;
        self.0 ^= self.0 << 25;
        self.0 ^= self.0 >> 27;
        self.0.wrapping_mul(0x2545_F491_4F6C_DD1D)
    }
}

fn random_phase(book: &mut Book, count: usize) {
    let mut rng = Rng(0x9E37_79B9_7F4A_7C15);
    let mut buf = Vec::with_capacity(64);
    for i in 0..count {
        buf.clear();
        let len = (rng.next() % 49) as usize;
        let mode = i % 3;
        for _ in 0..len {
            let r = rng.next();
            let b = match mode {
                // uniformly random bytes
                0 => (r >> 8) as u8,
                // mostly small bytes: short length prefixes, so that decoding gets further
                1 => {
                    if r % 10 < 6 {
                        ((r >> 8) % 4) as u8
                    } else {
                        (r >> 16) as u8
                    }
                }
                // small bytes, ASCII letters and extreme bytes
                _ => match r % 8 {
                    0..=2 => ((r >> 8) % 3) as u8,
                    3..=4 => b'a' + ((r >> 8) % 26) as u8,
                    5 => 0xff,
                    6 => b':',
                    _ => (r >> 16) as u8,
                },
            };
            buf.push(b);
        }
        for dec in ALL_DECODERS {
            if dec == Dec::ExecutionProof && std::env::args().any(|a| a == "--no-proof") { continue; } // proofs: see proofprobe
            let input = buf.clone();
            book.run(dec, &input, &|| format!("pseudo-random input #{i}"));
        }
    }
}

// INTEGER BASED CONSTRUCTORS
// ================================================================================================

fn constructor_checks() -> Vec<String> {
    let mut fails = Vec::new();
    let mut expect = |what: String, f: &dyn Fn() -> bool, want_accept: bool| {
        let res = panic::catch_unwind(AssertUnwindSafe(f));
        match res {
            Ok(accepted) if accepted == want_accept => {}
            Ok(accepted) => fails.push(format!(
                "{what}: {} (expected {})",
                if accepted { "ACCEPTED" } else { "REJECTED" },
                if want_accept { "acceptance" } else { "rejection" }
            )),
            Err(_) => fails.push(format!("{what}: PANIC {}", LAST_PANIC.with(|c| c.borrow().clone()))),
        }
    };

    let values: [(&str, u64, bool); 5] =
        [("p-1", P - 1, true), ("p", P, false), ("p+1", P + 1, false), ("2^64-1", u64::MAX, false), ("0", 0, true)];

    for (vname, v, ok) in values {
        // stack inputs and advice inputs: the value at the first, a middle and the last position
        for pos in 0..3 {
            let mut vals = vec![1u64, 2, 3];
            vals[pos] = v;
            let a = vals.clone();
            expect(
                format!("StackInputs::try_from_values({vname} at position {pos} of 3)"),
                &move || StackInputs::try_from_values(a.clone()).is_ok(),
                ok,
            );
            let a = vals.clone();
            expect(
                format!("AdviceInputs::with_stack_values({vname} at position {pos} of 3)"),
                &move || AdviceInputs::default().with_stack_values(a.clone()).is_ok(),
                ok,
            );
        }
        // stack outputs: in the top 16 items, below them, and in every overflow address position
        for pos in [0usize, 15, 16, 18] {
            let mut stack: Vec<u64> = (1..=19).collect();
            stack[pos] = v;
            let st = stack.clone();
            expect(
                format!("StackOutputs::new(stack[{pos}] = {vname}; 19 items, 4 overflow addresses)"),
                &move || StackOutputs::new(st.clone(), vec![0, 20, 21, 22]).is_ok(),
                ok,
            );
        }
        {
            let st = vec![v];
            expect(
                format!("StackOutputs::new(stack = [{vname}], no overflow addresses)"),
                &move || StackOutputs::new(st.clone(), vec![]).is_ok(),
                ok,
            );
        }
        for pos in 0..4 {
            let mut addrs = vec![0u64, 20, 21, 22];
            addrs[pos] = v;
            let ad = addrs.clone();
            expect(
                format!("StackOutputs::new(overflow_addrs[{pos}] = {vname}; 19 items, 4 overflow addresses)"),
                &move || StackOutputs::new((1..=19).collect(), ad.clone()).is_ok(),
                ok,
            );
        }
    }
    fails
}

// PROBES OF HAZARDS THAT CANNOT BE CAUGHT IN-PROCESS (run in a child process, informational)
// ================================================================================================

/// `--one <decoder> <hex>`: decodes a single input in this process and exits.
fn one(dec: &str, hexstr: &str) -> ! {
    let dec = Dec::from_cli(dec).expect("unknown decoder");
    let bytes = unhex(hexstr);
    match check(dec, &bytes) {
        Ok(true) => println!("accepted"),
        Ok(false) => println!("rejected"),
        Err(e) => println!("violation: {e}"),
    }
    std::process::exit(0)
}

/// `--nest <depth>`: decodes a program whose body is `depth` nested `while.true` blocks.
fn nested_program(depth: usize) -> Vec<u8> {
    // serde options (no imports), 0 local procs, 1 body node
    let mut b = vec![0u8, 0, 0, 1, 0];
    for _ in 0..depth {
        b.extend_from_slice(&[0xff, 1, 0]); // While, 1 node
    }
    b.extend_from_slice(&[0xff, 0, 0]); // While, 0 nodes
    b
}

fn child(args: &[&str], vlimit_kb: Option<u64>) -> String {
    let exe = std::env::current_exe().unwrap();
    let mut cmd = Command::new("bash");
    let mut script = String::new();
    if let Some(kb) = vlimit_kb {
        script.push_str(&format!("ulimit -v {kb}; "));
    }
    script.push_str(&format!("exec '{}'", exe.display()));
    for a in args {
        script.push_str(&format!(" '{a}'"));
    }
    cmd.arg("-c").arg(script);
    match cmd.output() {
        Ok(o) => {
            use std::os::unix::process::ExitStatusExt;
            let out = String::from_utf8_lossy(&o.stdout).trim().to_string();
            let err = String::from_utf8_lossy(&o.stderr);
            let err_line = err.lines().find(|l| !l.trim().is_empty()).unwrap_or("").to_string();
            match (o.status.code(), o.status.signal()) {
                (Some(0), _) => format!("exit 0, output: {out}"),
                (Some(c), _) => format!("exit code {c}; stderr: {err_line}"),
                (None, Some(sig)) => format!("KILLED BY SIGNAL {sig}; stderr: {err_line}"),
                _ => "unknown".into(),
            }
        }
        Err(e) => format!("could not spawn: {e}"),
    }
}

fn hazard_probes() {
    println!("== hazards of the UNCHANGED code that abort the process (child processes; NOT part of the verdict) ==");
    // 1. unbounded recursion on nested control flow blocks
    for depth in [1_000usize, 20_000, 200_000] {
        let r = child(&["--nest", &depth.to_string()], None);
        println!(
            "  ProgramAst::from_bytes on {depth} nested `while` blocks ({} bytes: 0000000100 + 'ff0100' x {depth} + ff0000): {r}",
            8 + 3 * depth
        );
    }
    // 2. element count is used to reserve memory before any element is read
    for (d, h) in [("StackInputs", "ffffffff"), ("StackOutputs", "ffffffff"), ("StackOutputs", "00000000ffffffff")] {
        let r = child(&["--one", d, h], Some(8_000_000));
        println!("  {d}::read_from_bytes({h}) with the address space limited to 8 GB (ulimit -v): {r}");
    }
}

// MAIN
// ================================================================================================

fn main() {
    let args: Vec<String> = std::env::args().collect();
    if args.len() >= 4 && args[1] == "--one" {
        one(&args[2], &args[3]);
    }
    if args.len() >= 3 && args[1] == "--nest" {
        let bytes = nested_program(args[2].parse().unwrap());
        let r = ProgramAst::from_bytes(&bytes);
        println!("{}", if r.is_ok() { "accepted" } else { "rejected" });
        std::process::exit(0);
    }
    if args.len() >= 4 && args[1] == "--mutate-proof" {
        // regenerates the proof sample, sets one byte and runs the check without catching panics
        let samples = build_samples(true);
        let s = samples.iter().find(|s| s.dec == Dec::ExecutionProof).unwrap();
        let mut b = s.bytes.clone();
        let off: usize = args[2].parse().unwrap();
        b[off] = u8::from_str_radix(&args[3], 16).unwrap();
        println!("{:?}", check(Dec::ExecutionProof, &b));
        std::process::exit(0);
    }
    let with_proof = !args.iter().any(|a| a == "--no-proof");
    let random_count: usize = args
        .iter()
        .position(|a| a == "--random")
        .and_then(|i| args.get(i + 1))
        .and_then(|s| s.parse().ok())
        .unwrap_or(300_000);

    let t0 = Instant::now();
    let samples = build_samples(with_proof);
    install_panic_hook();

    println!("== valid encodings ({}) ==", samples.len());
    let mut book = Book::new();
    let mut setup_ok = true;
    for s in &samples {
        let r = panic::catch_unwind(AssertUnwindSafe(|| check(s.dec, &s.bytes)));
        let status = match &r {
            Ok(Ok(true)) => "round trips".to_string(),
            Ok(Ok(false)) => "REJECTED".to_string(),
            Ok(Err(e)) => format!("VIOLATION: {e}"),
            Err(_) => format!("PANIC {}", LAST_PANIC.with(|c| c.borrow().clone())),
        };
        if !matches!(r, Ok(Ok(true))) {
            setup_ok = false;
        }
        println!("  {:<44} {:>7} bytes  {:<48} {}", s.name, s.bytes.len(), s.dec.name(), status);
    }
    if !setup_ok {
        println!("RESULT: FAIL (a valid encoding does not round trip)");
        std::process::exit(1);
    }

    // ----- (a) systematic mutations ------------------------------------------------------------
    println!("== (a) systematic mutations of the valid encodings ==");
    for s in &samples {
        let t = Instant::now();
        // every sample is fed to its own decoder; short samples are also fed to all the others
        let targets: Vec<Dec> = if s.bytes.len() <= 600 {
            let mut v = vec![s.dec];
            v.extend(ALL_DECODERS.iter().copied().filter(|d| *d != s.dec && !(*d == Dec::ExecutionProof && !with_proof)));
            v
        } else {
            vec![s.dec]
        };
        let before = book.total_failures();
        mutate_sample(&mut book, s, &targets);
        println!(
            "  {:<44} {:>2} decoder(s)  {:>6.1}s  new failures: {}",
            s.name,
            targets.len(),
            t.elapsed().as_secs_f64(),
            book.total_failures() - before
        );
    }

    // ----- (b) pseudo-random byte strings ------------------------------------------------------
    println!("== (b) {random_count} pseudo-random byte strings (0..=48 bytes) to each of {} decoders ==", ALL_DECODERS.len());
    let before = book.total_failures();
    random_phase(&mut book, random_count);
    println!("  new failures: {}", book.total_failures() - before);

    println!("== decoder statistics ==");
    println!(
        "  {:<48} {:>10} {:>10} {:>10} {:>14} {:>10}",
        "decoder", "calls", "accepted", "rejected", "skipped(alloc)", "known"
    );
    for (dec, st) in &book.stats {
        println!(
            "  {:<48} {:>10} {:>10} {:>10} {:>14} {:>10}",
            dec.name(),
            st.calls,
            st.accepted,
            st.rejected,
            st.skipped_alloc_hazard,
            st.excluded_known
        );
    }
    let (vc, vok) = VERIFY_CALLS.with(|c| *c.borrow());
    println!("  verifier::verify() called on {vc} accepted proofs, {vok} verified, none panicked unless listed below");

    // ----- (c) integer based constructors ------------------------------------------------------
    println!("== (c) integer based constructors: p-1 and 0 accepted; p, p+1, 2^64-1 rejected ==");
    let ctor_fails = constructor_checks();
    if ctor_fails.is_empty() {
        println!("  all constructor checks passed");
    }
    for f in &ctor_fails {
        println!("  FAIL {f}");
    }

    // ----- report -------------------------------------------------------------------------------
    if book.groups.values().any(|g| g.known.is_some()) {
        println!("== violations already present in the UNCHANGED code (reported separately, excluded from the verdict) ==");
        book.print_groups(true);
        let dir = concat!(env!("CARGO_MANIFEST_DIR"), "/known_inputs");
        let _ = std::fs::create_dir_all(dir);
        for (i, ((dec, key), g)) in book.groups.iter().filter(|(_, g)| g.known.is_some()).enumerate() {
            let path = format!("{dir}/known_{i:02}_{dec:?}.txt");
            let body = format!(
                "decoder: {}\nfailure: {}\ncount: {}\nfirst input: {}\nfirst bytes (hex): {}\nshortest input: {}\nshortest bytes (hex): {}\n",
                dec.name(), key, g.count, g.first.origin, hex(&g.first.bytes), g.shortest.origin, hex(&g.shortest.bytes)
            );
            let _ = std::fs::write(&path, body);
        }
        println!("  (complete hex of the first and the shortest input of every class: {dir}/known_*.txt)");
    }
    let total = book.total_failures();
    if total > 0 {
        println!("== decoder failures that count for the verdict: {total} ==");
        book.print_groups(false);
    }

    if !args.iter().any(|a| a == "--no-hazards") {
        hazard_probes();
    }

    for f in &ctor_fails { println!("FAIL decoder=Constructor count=1 :: {} :: shortest=", f.replace('\n', " ")); }
    let calls: u64 = book.stats.values().map(|st| st.calls).sum();
    println!("SUMMARY samples={} decoder_calls={} failures={} constructor_failures={}", samples.len(), calls, total, ctor_fails.len());
    println!("elapsed: {:.1}s", t0.elapsed().as_secs_f64());
    if total == 0 && ctor_fails.is_empty() {
        println!("RESULT: PASS");
        std::process::exit(0);
    } else {
        println!(
            "RESULT: FAIL ({} decoder failures, {} constructor failures)",
            total,
            ctor_fails.len()
        );
        std::process::exit(1);
    }
}
