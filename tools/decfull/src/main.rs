//! [adapted for /verif from the demo of the fourth C13 sub-agent: FAILCASE / SUMMARY lines]
//! C13 demonstration: the decoded operation stream is exactly the program.
//!
//! Compares, for a large generated family of programs, the decoder columns of the real execution
//! trace and the operation reported per clock cycle by `VmStateIterator` against an independent
//! model of the decoder (src/model.rs, written from the documentation).
mod gen;
mod model;

use miden_air::trace::DECODER_TRACE_OFFSET;
use miden_processor::{DefaultHost, ExecutionOptions, ExecutionTrace};
use model::{Model, ModelError, Row};
use std::collections::BTreeMap;
use std::panic::{catch_unwind, AssertUnwindSafe};
use vm_core::{Operation, Program, StackInputs};
use winter_prover::Trace;

pub struct Case {
    pub family: &'static str,
    pub name: String,
    pub program: Program,
    /// initial operand stack, element 0 = top of the stack
    pub inputs: Vec<u64>,
}

const COL_NAMES: [&str; 24] = [
    "addr", "b0", "b1", "b2", "b3", "b4", "b5", "b6", "h0", "h1", "h2", "h3", "h4", "h5", "h6",
    "h7", "in_span", "group_count", "op_index", "c0", "c1", "c2", "be0", "be1",
];

#[derive(Default)]
struct Stats {
    cases: usize,
    checked: usize,
    rows: usize,
    unsupported: usize,
    model_rejects: usize,
    failures: usize,
    dyn_deviation_rows: usize,
    dyn_example: Option<String>,
    /// /verif: deviations of the block-type flags h4..h7 (is_loop_body, is_loop, is_call, is_syscall) on END rows;
    /// C13 states the operation stream, nesting, group counters and the final hash, not these flags (they feed the
    /// block stack / block hash tables: property C12), so they are reported as a note and not in the verdict
    end_flag_cells: usize,
    end_flag_example: Option<String>,
    per_family: BTreeMap<&'static str, (usize, usize, usize)>, // checked, skipped, failed
    feats: BTreeMap<String, usize>,
    unsupported_examples: Vec<String>,
}

fn expected_cols(r: &Row) -> [Option<u64>; 24] {
    let mut e = [None; 24];
    e[0] = Some(r.addr);
    let oc = r.op.op_code() as u64;
    for i in 0..7 {
        e[1 + i] = Some((oc >> i) & 1);
    }
    for i in 0..8 {
        e[8 + i] = r.h[i];
    }
    e[16] = Some(r.in_span);
    e[17] = Some(r.gc);
    e[18] = Some(r.ox);
    for i in 0..3 {
        e[19 + i] = Some(r.flags[i]);
    }
    let (b4, b5, b6) = ((oc >> 4) & 1, (oc >> 5) & 1, (oc >> 6) & 1);
    e[22] = Some(b6 * (1 - b5) * b4);
    e[23] = Some(b6 * b5);
    e
}

fn halt_cols(program_hash: [u64; 4]) -> [Option<u64>; 24] {
    let r = Row {
        op: Operation::Halt,
        addr: 0,
        h: [
            Some(program_hash[0]),
            Some(program_hash[1]),
            Some(program_hash[2]),
            Some(program_hash[3]),
            Some(0),
            Some(0),
            Some(0),
            Some(0),
        ],
        in_span: 0,
        gc: 0,
        ox: 0,
        flags: [0; 3],
        is_dyn: false,
    };
    expected_cols(&r)
}

fn op_name(code: u64) -> String {
    // for diagnostics only
    let ops = [
        Operation::Noop,
        Operation::Span,
        Operation::Respan,
        Operation::Join,
        Operation::Split,
        Operation::Loop,
        Operation::Repeat,
        Operation::Call,
        Operation::SysCall,
        Operation::Dyn,
        Operation::End,
        Operation::Halt,
        Operation::Push(vm_core::ZERO),
        Operation::Pad,
        Operation::Drop,
        Operation::Add,
        Operation::Mul,
        Operation::Incr,
        Operation::Neg,
        Operation::Dup0,
        Operation::Swap,
        Operation::Eqz,
        Operation::Not,
    ];
    if code == Operation::Push(vm_core::ZERO).op_code() as u64 {
        return "push(..)".into();
    }
    for o in ops {
        if o.op_code() as u64 == code {
            return format!("{o}");
        }
    }
    format!("op#{code}")
}

fn dump_rows(cols: &[Vec<u64>], rows: &[Row], around: usize) -> String {
    let mut s = String::new();
    let lo = around.saturating_sub(4);
    let hi = (around + 3).min(cols[0].len() - 1);
    s.push_str("      row | actual: op addr [h0 h1 h2 h3 | h4 h5 h6 h7] sp gc ox c0c1c2 || expected\n");
    for i in lo..=hi {
        let oc: u64 = (0..7).map(|b| cols[1 + b][i] << b).sum();
        let act = format!(
            "{:<8} a={:<4} [{:x} {:x} {:x} {:x} | {} {} {} {}] sp={} gc={} ox={} c={}{}{}",
            op_name(oc),
            cols[0][i],
            cols[8][i],
            cols[9][i],
            cols[10][i],
            cols[11][i],
            cols[12][i],
            cols[13][i],
            cols[14][i],
            cols[15][i],
            cols[16][i],
            cols[17][i],
            cols[18][i],
            cols[19][i],
            cols[20][i],
            cols[21][i]
        );
        let exp = if i < rows.len() {
            let r = &rows[i];
            let f = |v: Option<u64>| v.map(|x| format!("{x:x}")).unwrap_or("*".into());
            format!(
                "{:<8} a={:<4} [{} {} {} {} | {} {} {} {}] sp={} gc={} ox={} c={}{}{}",
                format!("{}", r.op),
                r.addr,
                f(r.h[0]),
                f(r.h[1]),
                f(r.h[2]),
                f(r.h[3]),
                f(r.h[4]),
                f(r.h[5]),
                f(r.h[6]),
                f(r.h[7]),
                r.in_span,
                r.gc,
                r.ox,
                r.flags[0],
                r.flags[1],
                r.flags[2]
            )
        } else {
            "halt".to_string()
        };
        s.push_str(&format!(
            "    {} {:>4} | {} || {}\n",
            if i == around { ">>" } else { "  " },
            i,
            act,
            exp
        ));
    }
    s
}

/// Returns Ok(number of rows compared) or Err(description of the first deviation)
fn check_case(case: &Case, stats: &mut Stats) -> Result<Option<usize>, String> {
    let program = &case.program;
    let m = match Model::run(program.root(), program.cb_table(), program.kernel(), &case.inputs, 60_000)
    {
        Ok(m) => m,
        Err(ModelError::Unsupported(msg)) => {
            stats.unsupported += 1;
            if stats.unsupported_examples.len() < 5 {
                stats.unsupported_examples.push(format!("{}: {}", case.name, msg));
            }
            return Ok(None);
        }
        Err(ModelError::ExecFails(msg)) => {
            if msg.starts_with("MODEL/CORE MISMATCH") {
                return Err(msg);
            }
            // the model predicts a failing execution; the VM has to fail as well
            let inputs = StackInputs::try_from_values(case.inputs.iter().rev().copied())
                .map_err(|e| format!("bad inputs: {e}"))?;
            let r = catch_unwind(AssertUnwindSafe(|| {
                miden_processor::execute(
                    program,
                    inputs,
                    DefaultHost::default(),
                    ExecutionOptions::default(),
                )
                .is_ok()
            }));
            if let Ok(true) = r {
                return Err(format!("model predicts a failing execution ({msg}) but the VM succeeds"));
            }
            stats.model_rejects += 1;
            return Ok(None);
        }
    };
    for f in m.feats.iter() {
        *stats.feats.entry(f.clone()).or_insert(0) += 1;
    }

    let inputs = StackInputs::try_from_values(case.inputs.iter().rev().copied())
        .map_err(|e| format!("bad inputs: {e}"))?;

    // ---- real execution trace ----------------------------------------------------------------
    let trace: ExecutionTrace = match catch_unwind(AssertUnwindSafe(|| {
        miden_processor::execute(
            program,
            inputs.clone(),
            DefaultHost::default(),
            ExecutionOptions::default(),
        )
    })) {
        Ok(Ok(t)) => t,
        Ok(Err(e)) => return Err(format!("VM execution failed: {e}")),
        Err(_) => return Err("VM panicked while executing the program".into()),
    };
    let len = trace.length();
    let cols: Vec<Vec<u64>> = (0..24)
        .map(|i| {
            trace
                .main_segment()
                .get_column(DECODER_TRACE_OFFSET + i)
                .iter()
                .map(|f| f.as_int())
                .collect()
        })
        .collect();
    let usable = len - ExecutionTrace::NUM_RAND_ROWS;
    if m.rows.len() >= usable {
        return Err(format!(
            "trace has {usable} usable rows but the model expects {} rows + HALT",
            m.rows.len()
        ));
    }
    let ph = {
        let e = program.hash();
        let e = e.as_elements();
        [e[0].as_int(), e[1].as_int(), e[2].as_int(), e[3].as_int()]
    };
    let halt = halt_cols(ph);
    for i in 0..usable {
        let (exp, is_dyn) = if i < m.rows.len() {
            (expected_cols(&m.rows[i]), m.rows[i].is_dyn)
        } else {
            (halt, false)
        };
        for c in 0..24 {
            if let Some(e) = exp[c] {
                let a = cols[c][i];
                if a != e {
                    if is_dyn && (8..12).contains(&c) {
                        // known deviation of the unchanged code, excluded from the verdict
                        stats.dyn_deviation_rows += 1;
                        if stats.dyn_example.is_none() {
                            stats.dyn_example = Some(format!(
                                "{} | inputs(top first)={:?} | row {} column {}: docs say 0, trace has {:#x}\n    program: {}",
                                case.name, case.inputs, i, COL_NAMES[c], a, program
                            ));
                        }
                        continue;
                    }
                    let what = if i < m.rows.len() {
                        format!("{}", m.rows[i].op)
                    } else {
                        "halt".into()
                    };
                    if what == "end" && (12..16).contains(&c) {
                        stats.end_flag_cells += 1;
                        if stats.end_flag_example.is_none() {
                            stats.end_flag_example = Some(format!(
                                "{} | inputs(top first)={:?} | row {} (END) column {}: docs say {:#x}, trace has {:#x} | program: {}",
                                case.name, case.inputs, i, COL_NAMES[c], e, a, program
                            ));
                        }
                        continue;
                    }
                    return Err(format!(
                        "decoder trace deviates at row {i} (expected operation `{what}`), column {}: expected {:#x}, actual {:#x}\n{}",
                        COL_NAMES[c],
                        e,
                        a,
                        dump_rows(&cols, &m.rows, i)
                    ));
                }
            }
        }
    }

    // ---- final stack (sanity of the stack interpreter of the model) -----------------------------
    let fin = m.final_stack_top_first();
    let outs = trace.stack_outputs().stack();
    for i in 0..16.min(outs.len()) {
        if outs[i] != fin[i] {
            return Err(format!(
                "stack outputs differ from the model at position {i}: model {} vm {}",
                fin[i], outs[i]
            ));
        }
    }

    // ---- VmStateIterator ---------------------------------------------------------------------
    let ops: Result<Vec<Option<Operation>>, String> = match catch_unwind(AssertUnwindSafe(|| {
        let it = miden_processor::execute_iter(program, inputs.clone(), DefaultHost::default());
        let mut v = Vec::new();
        for st in it {
            match st {
                Ok(s) => v.push((s.clk, s.op)),
                Err(e) => return Err(format!("VmStateIterator returned an error: {e}")),
            }
        }
        Ok(v)
    })) {
        Ok(Ok(v)) => {
            let mut out = Vec::new();
            for (k, (clk, op)) in v.iter().enumerate() {
                if *clk as usize != k {
                    return Err(format!("VmStateIterator: state {k} has clk {clk}"));
                }
                out.push(*op);
            }
            Ok(out)
        }
        Ok(Err(e)) => Err(e),
        Err(_) => Err("VmStateIterator panicked".into()),
    };
    let ops = ops?;
    if ops.len() != m.rows.len() + 1 {
        return Err(format!(
            "VmStateIterator yields {} states, expected {} (clk 0 + one per operation)",
            ops.len(),
            m.rows.len() + 1
        ));
    }
    if ops[0].is_some() {
        return Err("VmStateIterator reports an operation at clk 0".into());
    }
    for (i, r) in m.rows.iter().enumerate() {
        if ops[i + 1] != Some(r.op) {
            return Err(format!(
                "VmStateIterator deviates at clk {}: expected `{}`, actual `{}`",
                i + 1,
                r.op,
                ops[i + 1].map(|o| format!("{o}")).unwrap_or("none".into())
            ));
        }
    }
    Ok(Some(usable))
}

fn main() {
    // keep the output readable: panics inside the VM are reported as failures of the case
    std::panic::set_hook(Box::new(|_| {}));

    let quick = std::env::args().any(|a| a == "--quick");
    let mut stats = Stats::default();
    let mut printed = 0usize;
    let t0 = std::time::Instant::now();

    let mut run = |case: Case, stats: &mut Stats| {
        stats.cases += 1;
        let fam = case.family;
        let res = check_case(&case, stats);
        let e = stats.per_family.entry(fam).or_insert((0, 0, 0));
        match res {
            Ok(Some(rows)) => {
                e.0 += 1;
                stats.checked += 1;
                stats.rows += rows;
            }
            Ok(None) => e.1 += 1,
            Err(msg) => {
                e.2 += 1;
                stats.failures += 1;
                if printed < 40 {
                    let p = format!("{}", case.program);
                    println!(
                        "FAILCASE {} :: {} :: {} :: inputs (top first): {:?} | program: {}",
                        fam.replace(' ', "_"),
                        case.name,
                        msg.lines().next().unwrap_or("").trim(),
                        case.inputs,
                        if p.len() > 1200 { &p[..1200] } else { &p }
                    );
                }
                if printed < 6 {
                    printed += 1;
                    println!("FAIL [{}] {}", fam, case.name);
                    println!("  inputs (top of the stack first): {:?}", case.inputs);
                    let p = format!("{}", case.program);
                    if p.len() > 1500 {
                        println!("  program: {} ... ({} chars)", &p[..1500], p.len());
                    } else {
                        println!("  program: {p}");
                    }
                    println!("  {msg}");
                }
            }
        }
    };

    gen::all_cases(quick, &mut |c| run(c, &mut stats));

    println!("---------------------------------------------------------------------------");
    println!("families (checked / skipped / failed):");
    for (f, (a, b, c)) in stats.per_family.iter() {
        println!("  {f:<28} {a:>7} / {b:>6} / {c:>6}");
    }
    println!("coverage (number of checked programs exhibiting a feature):");
    for (f, n) in stats.feats.iter() {
        println!("  {f:<40} {n}");
    }
    println!(
        "cases generated: {}, compared against the model: {}, decoder rows compared: {}, \
         skipped (model: execution fails, VM agrees): {}, skipped (unsupported by the model): {}",
        stats.cases, stats.checked, stats.rows, stats.model_rejects, stats.unsupported
    );
    for u in stats.unsupported_examples.iter() {
        println!("  unsupported example: {u}");
    }
    if stats.dyn_deviation_rows > 0 {
        println!(
            "NOTE (excluded from the verdict, present in the unchanged code): DYN rows hold the \
             callee hash in h0..h3 where docs/src/design/decoder/main.md says zeros; {} cells; first example:\n  {}",
            stats.dyn_deviation_rows,
            stats.dyn_example.clone().unwrap_or_default()
        );
    }
    if stats.end_flag_cells > 0 {
        println!(
            "NOTE (not part of C13 as stated): {} block-type flag cells (h4..h7) on END rows differ from the documentation; first example: {}",
            stats.end_flag_cells,
            stats.end_flag_example.clone().unwrap_or_default().replace('\n', " ")
        );
    }
    println!("SUMMARY cases={} compared={} rows={} failures={} dyn_cells={} end_flag_cells={}", stats.cases, stats.checked, stats.rows, stats.failures, stats.dyn_deviation_rows, stats.end_flag_cells);
    println!("elapsed: {:.1}s", t0.elapsed().as_secs_f64());
    if stats.failures > 0 {
        println!("RESULT: FAIL ({} of {} programs deviate from the model)", stats.failures, stats.cases);
        std::process::exit(1);
    } else {
        println!("RESULT: PASS");
    }
}
