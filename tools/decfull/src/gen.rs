//! Program generators for the C13 demonstration.
use crate::Case;
use miden_assembly::Assembler;
use vm_core::{
    code_blocks::CodeBlock, crypto::hash::RpoDigest, CodeBlockTable, Felt, Kernel, Operation,
    Program,
};

// RNG
// ================================================================================================
pub struct Rng(u64);
impl Rng {
    pub fn new(seed: u64) -> Self {
        Rng(seed.wrapping_mul(0x9E37_79B9_7F4A_7C15) ^ 0xD1B5_4A32_D192_ED03)
    }
    pub fn next(&mut self) -> u64 {
        self.0 = self.0.wrapping_add(0x9E37_79B9_7F4A_7C15);
        let mut z = self.0;
        z = (z ^ (z >> 30)).wrapping_mul(0xBF58_476D_1CE4_E5B9);
        z = (z ^ (z >> 27)).wrapping_mul(0x94D0_49BB_1331_11EB);
        z ^ (z >> 31)
    }
    pub fn below(&mut self, n: u64) -> u64 {
        self.next() % n
    }
    pub fn chance(&mut self, percent: u64) -> bool {
        self.below(100) < percent
    }
}

// SPAN FAMILIES
// ================================================================================================

/// operations which never fail, whatever the contents of the operand stack are
const FILLERS: [Operation; 12] = [
    Operation::Pad,
    Operation::Incr,
    Operation::Neg,
    Operation::Dup0,
    Operation::Swap,
    Operation::Drop,
    Operation::Add,
    Operation::Mul,
    Operation::Eqz,
    Operation::Noop,
    Operation::Dup3,
    Operation::MovUp2,
];

fn filler(i: usize) -> Operation {
    FILLERS[i % FILLERS.len()]
}

fn imm(i: usize) -> Operation {
    // immediate values: small, zero, one, and large ones
    let v = match i % 9 {
        0 => 1,
        1 => 0,
        2 => 0xFFFF_FFFF_0000_0000,
        3 => 127,
        4 => 128,
        5 => 0x7FFF_FFFF_FFFF_FFFF,
        6 => 42,
        7 => 1 << 32,
        _ => i as u64 + 2,
    };
    Operation::Push(Felt::new(v))
}

const INIT_STACK: [u64; 16] = [3, 5, 7, 11, 13, 17, 19, 23, 29, 31, 37, 41, 43, 47, 53, 59];

fn ops_from_mask(len: usize, is_push: impl Fn(usize) -> bool, salt: usize) -> Vec<Operation> {
    (0..len).map(|i| if is_push(i) { imm(i + salt) } else { filler(i * 7 + salt) }).collect()
}

fn emit_span(f: &mut dyn FnMut(Case), family: &'static str, name: String, ops: Vec<Operation>) {
    // (1) the span is the root of the program
    let root = CodeBlock::new_span(ops.clone());
    f(Case {
        family,
        name: format!("{name} [root]"),
        program: Program::new(root),
        inputs: INIT_STACK.to_vec(),
    });
    // (2) the span is the second child of a JOIN (so the parent address is not zero)
    let root = CodeBlock::new_join([
        CodeBlock::new_span(vec![Operation::Incr]),
        CodeBlock::new_span(ops),
    ]);
    f(Case {
        family,
        name: format!("{name} [join(span incr, .)]"),
        program: Program::new(root),
        inputs: INIT_STACK.to_vec(),
    });
}

fn span_exhaustive(f: &mut dyn FnMut(Case), quick: bool) {
    let maxlen = if quick { 7 } else { 10 };
    for len in 1..=maxlen {
        for mask in 0u32..(1u32 << len) {
            let ops = ops_from_mask(len, |i| (mask >> i) & 1 == 1, mask as usize);
            emit_span(f, "span/exhaustive<=10", format!("len={len} pushmask={mask:#b}"), ops);
        }
    }
}

fn span_structured(f: &mut dyn FnMut(Case), quick: bool) {
    let step = if quick { 7 } else { 1 };
    let mut rng = Rng::new(11);
    for len in (11..=80usize).step_by(step) {
        let fam = "span/structured 11..80";
        emit_span(f, fam, format!("len={len} no push"), ops_from_mask(len, |_| false, len));
        emit_span(f, fam, format!("len={len} all push"), ops_from_mask(len, |_| true, len));
        for p in 0..len {
            emit_span(
                f,
                fam,
                format!("len={len} single push at {p}"),
                ops_from_mask(len, |i| i == p, p),
            );
        }
        for m in 2..=10usize {
            for r in 0..m {
                emit_span(
                    f,
                    fam,
                    format!("len={len} push at i%{m}=={r}"),
                    ops_from_mask(len, |i| i % m == r, m * 13 + r),
                );
            }
        }
        for p in (0..len.saturating_sub(1)).step_by(3) {
            emit_span(
                f,
                fam,
                format!("len={len} pushes at {p},{}", p + 1),
                ops_from_mask(len, |i| i == p || i == p + 1, p),
            );
        }
        for (k, dens) in [5u64, 20, 50, 80].iter().enumerate() {
            for s in 0..4 {
                let bits: Vec<bool> = (0..len).map(|_| rng.chance(*dens)).collect();
                emit_span(
                    f,
                    "span/random 11..80",
                    format!("len={len} density={dens}% sample={s}"),
                    ops_from_mask(len, |i| bits[i], k * 31 + s),
                );
            }
        }
    }
}

fn span_batch_boundaries(f: &mut dyn FnMut(Case), quick: bool) {
    let fam = "span/batch boundaries";
    // spans without immediates filling 1..4 batches exactly / minus one / plus one
    for k in 1..=4usize {
        for d in [-1i64, 0, 1] {
            let n = (72 * k as i64 + d) as usize;
            emit_span(f, fam, format!("{n} ops, no push"), ops_from_mask(n, |_| false, n));
        }
    }
    // `pre` full batches, then p pushes, a fillers, a push, c fillers: reaches all the situations
    // in which the last group slot of a batch holds an immediate value, stays empty, ...
    let pres: &[usize] = if quick { &[0] } else { &[0, 1, 3] };
    for &pre in pres {
        for p in 0..=8usize {
            let a_step = if quick { 5 } else { 1 };
            for a in (0..=75usize).step_by(a_step) {
                for c in [0usize, 1, 2, 9] {
                    let n = 72 * pre + p + a + 1 + c;
                    let ops = ops_from_mask(
                        n,
                        |i| {
                            let j = i as i64 - 72 * pre as i64;
                            j >= 0 && ((j as usize) < p || j as usize == p + a)
                        },
                        a + p,
                    );
                    emit_span(
                        f,
                        fam,
                        format!("{pre}x72 fillers, {p} pushes, {a} fillers, push, {c} fillers"),
                        ops,
                    );
                }
            }
        }
    }
    // a fillers, push, b fillers, push, c fillers
    for a in (0..=72usize).step_by(if quick { 6 } else { 1 }) {
        for b in [0usize, 1, 6, 7, 8, 9, 16, 17] {
            for c in [0usize, 1, 8, 9] {
                let n = a + 1 + b + 1 + c;
                emit_span(
                    f,
                    fam,
                    format!("{a} fillers, push, {b} fillers, push, {c} fillers"),
                    ops_from_mask(n, |i| i == a || i == a + 1 + b, a + b),
                );
            }
        }
    }
}

// CONTROL FLOW FAMILIES
// ================================================================================================

#[derive(Clone, Debug)]
pub enum Shape {
    Span,
    Join(Box<Shape>, Box<Shape>),
    Split(Box<Shape>, Box<Shape>),
    Loop(Box<Shape>),
    Call(Box<Shape>),
    SysCall(Box<Shape>),
    Dyn(Box<Shape>),
    DynCall(Box<Shape>),
}

impl Shape {
    fn has_call(&self) -> bool {
        match self {
            Shape::Span => false,
            Shape::Join(a, b) | Shape::Split(a, b) => a.has_call() || b.has_call(),
            Shape::Loop(a) | Shape::Dyn(a) => a.has_call(),
            Shape::Call(_) | Shape::SysCall(_) | Shape::DynCall(_) => true,
        }
    }
    /// a call or a syscall cannot be started while a syscall is being executed
    fn valid(&self) -> bool {
        match self {
            Shape::Span => true,
            Shape::Join(a, b) | Shape::Split(a, b) => a.valid() && b.valid(),
            Shape::Loop(a) | Shape::Dyn(a) | Shape::Call(a) | Shape::DynCall(a) => a.valid(),
            Shape::SysCall(a) => a.valid() && !a.has_call(),
        }
    }
    pub fn show(&self) -> String {
        match self {
            Shape::Span => "S".into(),
            Shape::Join(a, b) => format!("join({},{})", a.show(), b.show()),
            Shape::Split(a, b) => format!("split({},{})", a.show(), b.show()),
            Shape::Loop(a) => format!("loop({})", a.show()),
            Shape::Call(a) => format!("call({})", a.show()),
            Shape::SysCall(a) => format!("syscall({})", a.show()),
            Shape::Dyn(a) => format!("dyn({})", a.show()),
            Shape::DynCall(a) => format!("dyncall({})", a.show()),
        }
    }
}

/// all shapes of depth <= `depth`
fn all_shapes(depth: usize, with_dyncall: bool) -> Vec<Shape> {
    if depth <= 1 {
        return vec![Shape::Span];
    }
    let sub = all_shapes(depth - 1, with_dyncall);
    let mut out = vec![Shape::Span];
    for a in sub.iter() {
        for b in sub.iter() {
            out.push(Shape::Join(Box::new(a.clone()), Box::new(b.clone())));
            out.push(Shape::Split(Box::new(a.clone()), Box::new(b.clone())));
        }
    }
    for a in sub.iter() {
        out.push(Shape::Loop(Box::new(a.clone())));
        out.push(Shape::Call(Box::new(a.clone())));
        out.push(Shape::SysCall(Box::new(a.clone())));
        out.push(Shape::Dyn(Box::new(a.clone())));
        if with_dyncall {
            out.push(Shape::DynCall(Box::new(a.clone())));
        }
    }
    out
}

/// what the decision planner needs to know about a built program
enum Plan {
    Span,
    Join(Box<Plan>, Box<Plan>),
    Split(Box<Plan>, Box<Plan>),
    Loop(Box<Plan>),
    Call(Box<Plan>),
    Dyn([u64; 4], Box<Plan>),
}

pub enum Policy {
    Fixed { iters: usize, branch: Option<bool> },
    Random(Rng),
}

impl Policy {
    fn iters(&mut self, used: usize) -> usize {
        let n = match self {
            Policy::Fixed { iters, .. } => *iters,
            Policy::Random(r) => [0, 1, 1, 2, 2, 3, 5][r.below(7) as usize],
        };
        if used > 160 {
            0
        } else if used > 60 {
            n.min(1)
        } else {
            n
        }
    }
    fn branch(&mut self, k: usize) -> bool {
        match self {
            Policy::Fixed { branch: Some(b), .. } => *b,
            Policy::Fixed { branch: None, .. } => k % 2 == 0,
            Policy::Random(r) => r.chance(50),
        }
    }
}

fn walk(p: &Plan, pol: &mut Policy, seq: &mut Vec<u64>) {
    match p {
        Plan::Span => {}
        Plan::Join(a, b) => {
            walk(a, pol, seq);
            walk(b, pol, seq);
        }
        Plan::Split(a, b) => {
            let t = pol.branch(seq.len());
            seq.push(t as u64);
            walk(if t { a } else { b }, pol, seq);
        }
        Plan::Loop(a) => {
            let n = pol.iters(seq.len());
            seq.push((n > 0) as u64);
            for i in 0..n {
                walk(a, pol, seq);
                seq.push((i + 1 < n) as u64);
            }
        }
        Plan::Call(a) => walk(a, pol, seq),
        Plan::Dyn(h, a) => {
            // the hash of the dynamic target: top of the stack = last element of the digest
            seq.extend_from_slice(&[h[3], h[2], h[1], h[0]]);
            walk(a, pol, seq);
        }
    }
}

pub struct Builder {
    cbt: CodeBlockTable,
    kernel: Vec<RpoDigest>,
    leaf: usize,
    rng: Option<Rng>,
}

/// spans which leave the operand stack exactly as they found it
fn leaf_ops(i: usize) -> Vec<Operation> {
    use Operation::*;
    let p = |v: u64| Push(Felt::new(v));
    match i % 12 {
        0 => vec![Noop],
        1 => vec![Pad, Drop],
        2 => vec![p(7), Drop],
        3 => vec![p(3), p(4), Add, Drop],
        4 => [Pad, Drop].repeat(5),
        5 => {
            let mut v: Vec<Operation> = (1..=8).map(p).collect();
            v.extend([Drop; 8]);
            v
        }
        6 => [Pad, Incr, Drop].repeat(25),
        7 => vec![Dup0, Drop],
        8 => vec![Pad, Pad, Pad, Drop, Drop, Drop, p(5), Incr, Drop],
        9 => [p(9), Drop].repeat(12),
        10 => vec![Pad, Incr, Neg, Eqz, p(0), Mul, Drop],
        _ => [Dup1, Dup1, Add, Drop].repeat(15),
    }
}

/// random span which leaves the operand stack as it found it and never modifies what was there
fn random_neutral_span(rng: &mut Rng) -> Vec<Operation> {
    use Operation::*;
    let target = match rng.below(10) {
        0..=4 => 1 + rng.below(12),
        5..=7 => 1 + rng.below(40),
        8 => 60 + rng.below(30),
        _ => 100 + rng.below(120),
    } as usize;
    let push_pct = [0u64, 10, 30, 60, 90][rng.below(5) as usize];
    let mut ops = Vec::new();
    let mut d = 0usize; // number of scratch elements on top of the stack
    while ops.len() < target {
        if d < 14 && rng.chance(push_pct) {
            let v = match rng.below(6) {
                0 => 0,
                1 => 1,
                2 => crate::model::P - 1,
                3 => rng.below(256),
                _ => rng.next() % crate::model::P,
            };
            ops.push(Push(Felt::new(v)));
            d += 1;
            continue;
        }
        match rng.below(12) {
            0 | 1 if d < 14 => {
                ops.push(Pad);
                d += 1
            }
            2 if d < 14 => {
                ops.push([Dup0, Dup1, Dup2, Dup5][rng.below(4) as usize]);
                d += 1
            }
            3 | 4 if d >= 1 => {
                ops.push(Drop);
                d -= 1
            }
            5 if d >= 1 => ops.push([Incr, Neg, Eqz][rng.below(3) as usize]),
            6 | 7 if d >= 2 => {
                ops.push([Add, Mul, Eq][rng.below(3) as usize]);
                d -= 1
            }
            8 if d >= 2 => ops.push(Swap),
            9 if d >= 3 => ops.push([MovUp2, MovDn2][rng.below(2) as usize]),
            10 => ops.push(Noop),
            _ => {
                if d >= 1 {
                    ops.push(Drop);
                    d -= 1
                } else {
                    ops.push(Pad);
                    d += 1
                }
            }
        }
    }
    for _ in 0..d {
        ops.push(Drop);
    }
    ops
}

impl Builder {
    pub fn new(first_leaf: usize, rng: Option<Rng>) -> Self {
        Builder { cbt: CodeBlockTable::default(), kernel: Vec::new(), leaf: first_leaf, rng }
    }

    fn next_leaf(&mut self) -> Vec<Operation> {
        if let Some(r) = self.rng.as_mut() {
            return random_neutral_span(r);
        }
        self.leaf += 1;
        leaf_ops(self.leaf - 1)
    }

    fn build(&mut self, s: &Shape) -> (CodeBlock, Plan) {
        match s {
            Shape::Span => (CodeBlock::new_span(self.next_leaf()), Plan::Span),
            Shape::Join(a, b) => {
                let (ca, pa) = self.build(a);
                let (cb, pb) = self.build(b);
                (CodeBlock::new_join([ca, cb]), Plan::Join(Box::new(pa), Box::new(pb)))
            }
            Shape::Split(a, b) => {
                let (ca, pa) = self.build(a);
                let (cb, pb) = self.build(b);
                (CodeBlock::new_split(ca, cb), Plan::Split(Box::new(pa), Box::new(pb)))
            }
            Shape::Loop(a) => {
                let (ca, pa) = self.build(a);
                (CodeBlock::new_loop(ca), Plan::Loop(Box::new(pa)))
            }
            Shape::Call(a) => {
                let (ca, pa) = self.build(a);
                let h = ca.hash();
                self.cbt.insert(ca);
                (CodeBlock::new_call(h), Plan::Call(Box::new(pa)))
            }
            Shape::SysCall(a) => {
                let (ca, pa) = self.build(a);
                let h = ca.hash();
                self.cbt.insert(ca);
                if !self.kernel.contains(&h) {
                    self.kernel.push(h);
                }
                (CodeBlock::new_syscall(h), Plan::Call(Box::new(pa)))
            }
            Shape::Dyn(a) | Shape::DynCall(a) => {
                // the dynamic target first drops its own hash from the stack
                let mut head = vec![Operation::Drop; 4];
                let (callee, pa) = if let Shape::Span = **a {
                    head.extend(self.next_leaf());
                    (CodeBlock::new_span(head), Plan::Span)
                } else {
                    if self.leaf % 2 == 1 {
                        head.extend(self.next_leaf());
                    }
                    let (ca, pa) = self.build(a);
                    (CodeBlock::new_join([CodeBlock::new_span(head), ca]), pa)
                };
                let e = callee.hash();
                let e = e.as_elements();
                let h = [e[0].as_int(), e[1].as_int(), e[2].as_int(), e[3].as_int()];
                self.cbt.insert(callee);
                let blk = if matches!(s, Shape::Dyn(_)) {
                    CodeBlock::new_dyn()
                } else {
                    CodeBlock::new_dyncall()
                };
                (blk, Plan::Dyn(h, Box::new(pa)))
            }
        }
    }

    fn finish(self, root: CodeBlock) -> Program {
        let kernel = Kernel::new(&self.kernel).expect("kernel");
        Program::with_kernel(root, kernel, self.cbt)
    }
}

fn emit_shape(
    f: &mut dyn FnMut(Case),
    family: &'static str,
    shape: &Shape,
    first_leaf: usize,
    mut pol: Policy,
    tag: &str,
    leaf_rng: Option<Rng>,
) {
    let mut b = Builder::new(first_leaf, leaf_rng);
    let (root, plan) = b.build(shape);
    let program = b.finish(root);
    let mut seq = Vec::new();
    walk(&plan, &mut pol, &mut seq);
    f(Case { family, name: format!("{} / {}", shape.show(), tag), program, inputs: seq });
}

fn control_flow_exhaustive(f: &mut dyn FnMut(Case), quick: bool) {
    // depth <= 3, including dyncall, several decision policies each
    let shapes: Vec<Shape> = all_shapes(3, true).into_iter().filter(|s| s.valid()).collect();
    for (i, s) in shapes.iter().enumerate() {
        let pols: Vec<(Policy, &str)> = vec![
            (Policy::Fixed { iters: 0, branch: Some(false) }, "loops 0x, else"),
            (Policy::Fixed { iters: 1, branch: Some(true) }, "loops 1x, then"),
            (Policy::Fixed { iters: 2, branch: None }, "loops 2x, alternate"),
            (Policy::Fixed { iters: 5, branch: Some(true) }, "loops 5x, then"),
            (Policy::Fixed { iters: 5, branch: Some(false) }, "loops 5x, else"),
            (Policy::Random(Rng::new(i as u64)), "random decisions"),
        ];
        for (k, (p, tag)) in pols.into_iter().enumerate() {
            emit_shape(f, "control flow/depth<=3 exhaustive", s, i + k, p, tag, None);
        }
    }
    // depth 4 (all shapes built from span / join / split / loop / call / syscall / dyn)
    let shapes: Vec<Shape> = all_shapes(4, false).into_iter().filter(|s| s.valid()).collect();
    let stride = if quick { 23 } else { 1 };
    for (i, s) in shapes.iter().enumerate().step_by(stride) {
        let p = match i % 4 {
            0 => Policy::Fixed { iters: 1, branch: Some(i % 8 == 0) },
            1 => Policy::Fixed { iters: 2, branch: None },
            2 => Policy::Fixed { iters: 0, branch: Some(i % 8 == 2) },
            _ => Policy::Fixed { iters: 5, branch: None },
        };
        emit_shape(f, "control flow/depth 4 exhaustive", s, i, p, "fixed decisions", None);
        emit_shape(
            f,
            "control flow/depth 4 exhaustive",
            s,
            i + 5,
            Policy::Random(Rng::new(1000 + i as u64)),
            "random decisions",
            None,
        );
    }
}

fn random_shape(rng: &mut Rng, depth: usize, in_syscall: bool) -> Shape {
    if depth <= 1 {
        return Shape::Span;
    }
    let b = |s| Box::new(s);
    loop {
        match rng.below(100) {
            0..=21 => return Shape::Span,
            22..=46 => {
                return Shape::Join(
                    b(random_shape(rng, depth - 1, in_syscall)),
                    b(random_shape(rng, depth - 1, in_syscall)),
                )
            }
            47..=58 => {
                return Shape::Split(
                    b(random_shape(rng, depth - 1, in_syscall)),
                    b(random_shape(rng, depth - 1, in_syscall)),
                )
            }
            59..=74 => return Shape::Loop(b(random_shape(rng, depth - 1, in_syscall))),
            75..=82 if !in_syscall => return Shape::Call(b(random_shape(rng, depth - 1, false))),
            83..=87 if !in_syscall => return Shape::SysCall(b(random_shape(rng, depth - 1, true))),
            88..=93 => return Shape::Dyn(b(random_shape(rng, depth - 1, in_syscall))),
            94..=99 if !in_syscall => {
                return Shape::DynCall(b(random_shape(rng, depth - 1, false)))
            }
            _ => continue,
        }
    }
}

fn random_programs(f: &mut dyn FnMut(Case), quick: bool) {
    let n = if quick { 400 } else { 4000 };
    for seed in 0..n {
        let mut rng = Rng::new(777_000 + seed);
        let depth = 2 + rng.below(5) as usize;
        let shape = random_shape(&mut rng, depth, false);
        emit_shape(
            f,
            "random programs",
            &shape,
            seed as usize,
            Policy::Random(Rng::new(seed * 31 + 7)),
            &format!("seed {seed}"),
            Some(Rng::new(seed * 17 + 3)),
        );
    }
}

// MASM PROGRAMS
// ================================================================================================

fn masm(
    f: &mut dyn FnMut(Case),
    name: &str,
    kernel: Option<&str>,
    src: &str,
    inputs: Vec<u64>,
) {
    let asm = match kernel {
        Some(k) => Assembler::default().with_kernel(k).expect("kernel"),
        None => Assembler::default(),
    };
    let program = asm
        .compile(src)
        .unwrap_or_else(|e| panic!("cannot assemble `{name}`: {e}"));
    f(Case { family: "assembled from MASM", name: name.to_string(), program, inputs });
}

fn masm_programs(f: &mut dyn FnMut(Case)) {
    let counted = |n: u64| {
        format!(
            "begin push.{n} dup.0 neq.0 while.true push.5 add push.5 neg add sub.1 dup.0 neq.0 end drop end"
        )
    };
    for n in [0u64, 1, 2, 5, 9] {
        masm(f, &format!("counted loop {n}x"), None, &counted(n), vec![]);
    }
    for (o, i) in [(0u64, 3u64), (1, 0), (2, 2), (3, 1), (2, 5)] {
        let src = format!(
            "begin push.{o} dup.0 neq.0 while.true
                 push.{i} dup.0 neq.0 while.true sub.1 dup.0 neq.0 end drop
                 sub.1 dup.0 neq.0
             end drop end"
        );
        masm(f, &format!("nested counted loops {o}x{i}"), None, &src, vec![]);
    }
    for c in [0u64, 1] {
        masm(
            f,
            &format!("if/else cond={c}"),
            None,
            "begin if.true push.2 push.3 add drop else push.4 drop end end",
            vec![c],
        );
        masm(
            f,
            &format!("if without else cond={c}"),
            None,
            "begin push.9 swap if.true push.2 add end drop end",
            vec![c],
        );
        masm(
            f,
            &format!("if in loop in if cond={c}"),
            None,
            "begin if.true
                 push.3 dup.0 neq.0 while.true
                     dup.0 eq.2 if.true push.11 drop else push.12 push.13 add drop end
                     sub.1 dup.0 neq.0
                 end drop
             else push.1 drop end end",
            vec![c],
        );
    }
    // directly nested loops, decisions from the stack
    masm(
        f,
        "while(while(span)) decisions 1 1 0 1 0 0",
        None,
        "begin while.true while.true push.1 drop end end end",
        vec![1, 1, 0, 1, 0, 0],
    );
    masm(
        f,
        "while(while(while(span)))",
        None,
        "begin while.true while.true while.true push.1 drop end end end end",
        vec![1, 1, 1, 1, 0, 1, 0, 0, 1, 0, 0],
    );
    // procedures
    let procs = "
        proc.leaf push.1 drop end
        proc.looper push.3 dup.0 neq.0 while.true sub.1 dup.0 neq.0 end drop end
        proc.joiner push.1 if.true push.2 drop else push.3 drop end push.4 drop end
        proc.outer call.looper call.leaf end
    ";
    masm(f, "call span proc", None, &format!("{procs} begin call.leaf end"), vec![]);
    masm(f, "call loop proc twice", None, &format!("{procs} begin call.looper call.looper end"), vec![]);
    masm(f, "call join proc", None, &format!("{procs} begin call.joiner push.5 drop call.leaf end"), vec![]);
    masm(f, "nested calls", None, &format!("{procs} begin call.outer call.outer end"), vec![]);
    masm(
        f,
        "loop whose body is a call, 3 iterations",
        None,
        &format!("{procs} begin while.true call.leaf end end"),
        vec![1, 1, 1, 0],
    );
    masm(
        f,
        "loop whose body is a call of a loop proc",
        None,
        &format!("{procs} begin while.true call.looper end end"),
        vec![1, 1, 0],
    );
    masm(
        f,
        "exec inlining + call in branch",
        None,
        &format!("{procs} begin exec.leaf if.true call.joiner else exec.looper end end"),
        vec![1],
    );
    // kernels
    let kernel = "
        export.k_leaf push.1 drop end
        export.k_loop push.2 dup.0 neq.0 while.true sub.1 dup.0 neq.0 end drop end
        export.k_split if.true push.1 drop else push.2 drop end end
    ";
    masm(f, "syscall span", Some(kernel), "begin syscall.k_leaf end", vec![]);
    masm(f, "syscall loop + split", Some(kernel), "begin syscall.k_loop syscall.k_split syscall.k_split end", vec![1, 0]);
    masm(
        f,
        "syscall from a called procedure in a loop",
        Some(kernel),
        "proc.p syscall.k_leaf syscall.k_loop end begin while.true call.p end end",
        vec![1, 1, 0],
    );
    // dynamic calls
    let dynp = "
        proc.target dropw push.1 drop end
        proc.target_loop dropw push.2 dup.0 neq.0 while.true sub.1 dup.0 neq.0 end drop end
    ";
    masm(f, "dynexec span", None, &format!("{dynp} begin procref.target dynexec end"), vec![]);
    masm(f, "dynexec loop proc", None, &format!("{dynp} begin procref.target_loop dynexec end"), vec![]);
    masm(f, "dyncall span", None, &format!("{dynp} begin procref.target dyncall end"), vec![]);
    masm(
        f,
        "dyncall + dynexec in a loop",
        None,
        &format!(
            "{dynp} begin push.2 dup.0 neq.0 while.true
                 procref.target_loop dyncall procref.target dynexec sub.1 dup.0 neq.0
             end drop end"
        ),
        vec![],
    );
    // long spans
    for n in [7u64, 8, 9, 17, 40] {
        masm(
            f,
            &format!("repeat.{n} push"),
            None,
            &format!("begin repeat.{n} push.77 end repeat.{n} drop end end"),
            vec![],
        );
        masm(
            f,
            &format!("repeat.{n} push add"),
            None,
            &format!("begin repeat.{n} push.3 push.4 add swap drop end end"),
            vec![],
        );
    }
}

// ALL
// ================================================================================================

pub fn all_cases(quick: bool, f: &mut dyn FnMut(Case)) {
    masm_programs(f);
    span_exhaustive(f, quick);
    span_structured(f, quick);
    span_batch_boundaries(f, quick);
    control_flow_exhaustive(f, quick);
    random_programs(f, quick);
}
