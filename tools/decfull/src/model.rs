//! Independent model of the Miden VM program decoder.
//!
//! Written from docs/src/design/decoder/main.md, docs/src/design/decoder/constraints.md and
//! docs/src/design/programs.md - NOT from processor/src/decoder/*.rs.
//!
//! Given a MAST (vm_core::code_blocks::CodeBlock + the code block table holding call targets + the
//! kernel) and the initial operand stack, the model produces the expected decoder trace row by row.
//! Branch and loop decisions are taken by a small operand-stack interpreter which lives in this
//! file as well (it supports only side-effect free stack / field operations; a program containing
//! anything else is reported as `Unsupported` and skipped by the harness).
//!
//! What the documentation says and how it is modelled here
//! -------------------------------------------------------
//! * every control flow operation takes one row (main.md "Program execution").
//! * block address: id of a block = row address of its hasher in the hash chiplet.  A control block
//!   (2-to-1 hash) takes 8 hasher rows, a span takes 8 rows per operation batch, addresses start
//!   at 1 (chiplets/hasher.md: "row address ... clk + 1"), and hashers are initialised in the
//!   order in which the blocks start.
//! * JOIN/SPLIT/LOOP/CALL/SYSCALL/DYN row: addr = parent id, h0..h7 = child hashes (LOOP, CALL,
//!   SYSCALL: h4..h7 = 0; DYN: all zeros), sp = gc = ox = 0, batch flags = 0.
//! * END row: addr = id of the ending block, h0..h3 = hash of the block, h4 = is_loop_body,
//!   h5 = is_loop (set only when the loop body was entered), h6 = is_call, h7 = is_syscall, sp = 0,
//!   gc = 0, ox = 0.
//! * REPEAT row: addr = id of the loop, h0..h4 copied from the END row of the body (so h0..h3 =
//!   body hash, h4 = 1).  h5..h7 are not specified by the documentation -> not compared.
//! * SPAN row: addr = parent id, h0..h7 = first batch, gc = total number of groups of the span,
//!   ox = 0, batch flags per main.md "Operation batch flags".
//! * RESPAN row: addr = id of the previous batch, h0..h7 = next batch, gc copied, sp = 0; in the
//!   next row the address is incremented by 8.
//! * operation rows inside a span: addr = id of the current batch, sp = 1, h0 = the not yet executed
//!   operations of the current group (group value with the executed opcodes - including the one in
//!   this row - removed), h1 = id of the span's parent, gc = number of groups not yet started /
//!   immediates not yet consumed (decremented in the row after SPAN, RESPAN, PUSH and when a new
//!   group starts), ox = index of the operation in its group.  h2..h7 are operation helper
//!   registers -> not compared.
//! * alignment NOOPs: (a) after a PUSH that is the last operation of its group, (b) one NOOP per
//!   group that is added to bring the number of groups of a batch to 1, 2, 4 or 8.
//! * HALT rows: addr = 0, h0..h3 = program hash, everything else 0, until the end of the trace.
use std::collections::BTreeSet;
use vm_core::{
    chiplets::hasher,
    code_blocks::{CodeBlock, Dyn},
    crypto::hash::RpoDigest,
    CodeBlockTable, Felt, Kernel, Operation,
};

pub const P: u64 = 0xFFFF_FFFF_0000_0001;

fn fadd(a: u64, b: u64) -> u64 {
    ((a as u128 + b as u128) % P as u128) as u64
}
fn fmul(a: u64, b: u64) -> u64 {
    ((a as u128 * b as u128) % P as u128) as u64
}
fn fneg(a: u64) -> u64 {
    if a == 0 {
        0
    } else {
        P - a
    }
}
fn fpow(mut b: u64, mut e: u64) -> u64 {
    let mut r = 1u64;
    while e > 0 {
        if e & 1 == 1 {
            r = fmul(r, b);
        }
        b = fmul(b, b);
        e >>= 1;
    }
    r
}

// EXPECTED ROW
// ================================================================================================

#[derive(Clone, Debug)]
pub struct Row {
    pub op: Operation,
    pub addr: u64,
    /// `None` = not specified by the documentation (not compared)
    pub h: [Option<u64>; 8],
    pub in_span: u64,
    pub gc: u64,
    pub ox: u64,
    pub flags: [u64; 3],
    /// true for DYN rows (known deviation: h0..h3 hold the callee hash, docs say zeros)
    pub is_dyn: bool,
}

#[derive(Debug)]
pub enum ModelError {
    /// the program uses something the stack interpreter of the model does not support
    Unsupported(String),
    /// the model predicts that the execution fails (e.g. non-binary condition)
    ExecFails(String),
}

// SPAN BATCHING (programs.md "Span block")
// ================================================================================================

pub struct MGroup {
    pub slot: usize,
    pub ops: Vec<Operation>,
}

pub struct MBatch {
    pub groups: [u64; 8],
    pub op_groups: Vec<MGroup>,
    /// number of group slots in use (operation groups + immediate values)
    pub used: usize,
}

impl MBatch {
    fn new() -> Self {
        MBatch { groups: [0; 8], op_groups: vec![MGroup { slot: 0, ops: vec![] }], used: 1 }
    }
    fn finish(mut self) -> Self {
        for g in self.op_groups.iter() {
            let mut v = 0u64;
            for (k, op) in g.ops.iter().enumerate() {
                v |= (op.op_code() as u64) << (7 * k);
            }
            self.groups[g.slot] = v;
        }
        self
    }
}

fn imm_of(op: &Operation) -> Option<u64> {
    match op {
        Operation::Push(v) => Some(v.as_int()),
        _ => None,
    }
}

/// Splits a sequence of operations into batches of 8 groups of up to 9 operations; an operation
/// with an immediate value cannot be the last (9th) one of its group, its immediate value takes the
/// next free group slot of the batch; if there is no room, operation and value go to a new batch.
pub fn batch_ops(ops: &[Operation]) -> Vec<MBatch> {
    let mut out = Vec::new();
    let mut cur = MBatch::new();
    for op in ops {
        let imm = imm_of(op);
        let cnt = cur.op_groups.last().unwrap().ops.len();
        let fits = match imm {
            Some(_) => {
                if cnt < 8 {
                    cur.used < 8
                } else {
                    cur.used + 1 < 8
                }
            }
            None => cnt < 9 || cur.used < 8,
        };
        if !fits {
            out.push(cur.finish());
            cur = MBatch::new();
        }
        let cnt = cur.op_groups.last().unwrap().ops.len();
        let need_new_group = match imm {
            Some(_) => cnt >= 8,
            None => cnt == 9,
        };
        if need_new_group {
            let slot = cur.used;
            cur.used += 1;
            cur.op_groups.push(MGroup { slot, ops: vec![] });
        }
        if let Some(v) = imm {
            let slot = cur.used;
            cur.used += 1;
            cur.groups[slot] = v;
        }
        cur.op_groups.last_mut().unwrap().ops.push(*op);
    }
    out.push(cur.finish());
    out
}

fn batch_flags(num_groups: u64) -> [u64; 3] {
    // main.md, "Operation batch flags"
    match num_groups {
        8 => [1, 0, 0],
        4 => [0, 1, 0],
        2 => [0, 0, 1],
        1 => [0, 1, 1],
        _ => panic!("model: invalid number of groups in a batch: {num_groups}"),
    }
}

// MODEL
// ================================================================================================

pub struct Model<'a> {
    cbt: &'a CodeBlockTable,
    kernel: &'a Kernel,
    pub rows: Vec<Row>,
    next_addr: u64,
    /// operand stack of the current context; top of the stack is the LAST element; len >= 16
    st: Vec<u64>,
    hidden: Vec<Vec<u64>>,
    in_syscall: bool,
    max_rows: usize,
    pub feats: BTreeSet<String>,
}

fn digest_u64(d: RpoDigest) -> [u64; 4] {
    let e = d.as_elements();
    [e[0].as_int(), e[1].as_int(), e[2].as_int(), e[3].as_int()]
}

fn kind(b: &CodeBlock) -> &'static str {
    match b {
        CodeBlock::Span(_) => "span",
        CodeBlock::Join(_) => "join",
        CodeBlock::Split(_) => "split",
        CodeBlock::Loop(_) => "loop",
        CodeBlock::Call(c) => {
            if c.is_syscall() {
                "syscall"
            } else {
                "call"
            }
        }
        CodeBlock::Dyn(_) => "dyn",
        CodeBlock::Proxy(_) => "proxy",
    }
}

impl<'a> Model<'a> {
    /// Runs the model; `stack_top_first[0]` is the top of the initial operand stack.
    pub fn run(
        root: &CodeBlock,
        cbt: &'a CodeBlockTable,
        kernel: &'a Kernel,
        stack_top_first: &[u64],
        max_rows: usize,
    ) -> Result<Model<'a>, ModelError> {
        let mut st: Vec<u64> = stack_top_first.iter().rev().copied().collect();
        while st.len() < 16 {
            st.insert(0, 0);
        }
        let mut m = Model {
            cbt,
            kernel,
            rows: Vec::new(),
            next_addr: 1,
            st,
            hidden: Vec::new(),
            in_syscall: false,
            max_rows,
            feats: BTreeSet::new(),
        };
        m.feats.insert(format!("root:{}", kind(root)));
        m.exec(root, 0, false, 0)?;
        Ok(m)
    }

    pub fn final_stack_top_first(&self) -> Vec<u64> {
        self.st.iter().rev().copied().collect()
    }

    fn alloc(&mut self, cycles: u64) -> u64 {
        let a = self.next_addr;
        self.next_addr += 8 * cycles;
        a
    }

    fn push_row(&mut self, r: Row) -> Result<(), ModelError> {
        if self.rows.len() >= self.max_rows {
            return Err(ModelError::Unsupported("too many rows".into()));
        }
        self.rows.push(r);
        Ok(())
    }

    fn ctrl_row(&mut self, op: Operation, addr: u64, h: [u64; 8]) -> Result<(), ModelError> {
        let is_dyn = op == Operation::Dyn;
        self.push_row(Row {
            op,
            addr,
            h: h.map(Some),
            in_span: 0,
            gc: 0,
            ox: 0,
            flags: [0; 3],
            is_dyn,
        })
    }

    fn end_row(&mut self, addr: u64, hash: [u64; 4], flags: [u64; 4]) -> Result<(), ModelError> {
        let h = [hash[0], hash[1], hash[2], hash[3], flags[0], flags[1], flags[2], flags[3]];
        self.ctrl_row(Operation::End, addr, h)
    }

    fn pop(&mut self) -> u64 {
        let v = self.st.pop().expect("stack");
        if self.st.len() < 16 {
            self.st.insert(0, 0);
        }
        v
    }
    fn push(&mut self, v: u64) {
        self.st.push(v);
    }
    fn peek(&self, i: usize) -> u64 {
        self.st[self.st.len() - 1 - i]
    }
    fn set(&mut self, i: usize, v: u64) {
        let n = self.st.len();
        self.st[n - 1 - i] = v;
    }

    fn exec(
        &mut self,
        blk: &CodeBlock,
        parent: u64,
        lb: bool,
        depth: usize,
    ) -> Result<(), ModelError> {
        if depth > 200 {
            return Err(ModelError::Unsupported("recursion too deep".into()));
        }
        let hash = digest_u64(blk.hash());
        let lbf = lb as u64;
        if lb {
            self.feats.insert(format!("loopbody:{}", kind(blk)));
        }
        match blk {
            CodeBlock::Join(j) => {
                let a = self.alloc(1);
                let h1 = digest_u64(j.first().hash());
                let h2 = digest_u64(j.second().hash());
                self.ctrl_row(Operation::Join, parent, cat(h1, h2))?;
                self.exec(j.first(), a, false, depth + 1)?;
                self.exec(j.second(), a, false, depth + 1)?;
                self.end_row(a, hash, [lbf, 0, 0, 0])
            }
            CodeBlock::Split(s) => {
                let a = self.alloc(1);
                let h1 = digest_u64(s.on_true().hash());
                let h2 = digest_u64(s.on_false().hash());
                self.ctrl_row(Operation::Split, parent, cat(h1, h2))?;
                let c = self.pop();
                match c {
                    1 => {
                        self.feats.insert(format!("split-true:{}", kind(s.on_true())));
                        self.exec(s.on_true(), a, false, depth + 1)?
                    }
                    0 => {
                        self.feats.insert(format!("split-false:{}", kind(s.on_false())));
                        self.exec(s.on_false(), a, false, depth + 1)?
                    }
                    _ => return Err(ModelError::ExecFails(format!("split condition {c}"))),
                }
                self.end_row(a, hash, [lbf, 0, 0, 0])
            }
            CodeBlock::Loop(l) => {
                let a = self.alloc(1);
                let hb = digest_u64(l.body().hash());
                self.ctrl_row(Operation::Loop, parent, cat(hb, [0; 4]))?;
                let c = self.pop();
                match c {
                    1 => {
                        let mut iters = 1usize;
                        self.exec(l.body(), a, true, depth + 1)?;
                        loop {
                            let t = self.peek(0);
                            if t == 1 {
                                // REPEAT: pops the condition; h0..h4 are copied from the END row
                                // of the loop body, the rest is unspecified
                                self.pop();
                                iters += 1;
                                self.push_row(Row {
                                    op: Operation::Repeat,
                                    addr: a,
                                    h: [
                                        Some(hb[0]),
                                        Some(hb[1]),
                                        Some(hb[2]),
                                        Some(hb[3]),
                                        Some(1),
                                        None,
                                        None,
                                        None,
                                    ],
                                    in_span: 0,
                                    gc: 0,
                                    ox: 0,
                                    flags: [0; 3],
                                    is_dyn: false,
                                })?;
                                self.exec(l.body(), a, true, depth + 1)?;
                            } else if t == 0 {
                                break;
                            } else {
                                return Err(ModelError::ExecFails(format!("loop condition {t}")));
                            }
                        }
                        self.feats.insert(format!(
                            "loop:{}:iters={}{}",
                            kind(l.body()),
                            iters.min(6),
                            if lb { ":nested-direct" } else { "" }
                        ));
                        // END of an entered loop: is_loop = 1, the condition (0) is popped
                        self.end_row(a, hash, [lbf, 1, 0, 0])?;
                        self.pop();
                        Ok(())
                    }
                    0 => {
                        self.feats.insert(format!(
                            "loop:{}:iters=0{}",
                            kind(l.body()),
                            if lb { ":nested-direct" } else { "" }
                        ));
                        self.end_row(a, hash, [lbf, 0, 0, 0])
                    }
                    _ => Err(ModelError::ExecFails(format!("loop condition {c}"))),
                }
            }
            CodeBlock::Call(c) => {
                if self.in_syscall {
                    return Err(ModelError::ExecFails("call in syscall".into()));
                }
                if c.is_syscall() && !self.kernel.contains_proc(c.fn_hash()) {
                    return Err(ModelError::ExecFails("syscall target not in kernel".into()));
                }
                let a = self.alloc(1);
                let hf = digest_u64(c.fn_hash());
                let op = if c.is_syscall() { Operation::SysCall } else { Operation::Call };
                self.ctrl_row(op, parent, cat(hf, [0; 4]))?;
                // new execution context: only the top 16 stack elements are visible
                let n = self.st.len();
                let hid: Vec<u64> = self.st.drain(..n - 16).collect();
                self.hidden.push(hid);
                let was_sys = self.in_syscall;
                if c.is_syscall() {
                    self.in_syscall = true;
                }
                if c.fn_hash() == Dyn::dyn_hash() {
                    // dyncall: a call whose body is a dyn block
                    self.feats.insert("dyncall".into());
                    self.exec(&CodeBlock::new_dyn(), a, false, depth + 1)?;
                } else {
                    let callee = self
                        .cbt
                        .get(c.fn_hash())
                        .ok_or_else(|| ModelError::ExecFails("call target unknown".into()))?;
                    self.feats.insert(format!("{}:{}", kind(blk), kind(callee)));
                    self.exec(callee, a, false, depth + 1)?;
                }
                if self.st.len() != 16 {
                    return Err(ModelError::ExecFails("stack depth on return".into()));
                }
                let mut hid = self.hidden.pop().unwrap();
                hid.append(&mut self.st);
                self.st = hid;
                self.in_syscall = was_sys;
                let (ic, is) = if c.is_syscall() { (0, 1) } else { (1, 0) };
                self.end_row(a, hash, [lbf, 0, ic, is])
            }
            CodeBlock::Dyn(_) => {
                let w = [self.peek(3), self.peek(2), self.peek(1), self.peek(0)];
                let a = self.alloc(1);
                // docs: "the prover populates h0, ..., h7 registers with 0"
                self.ctrl_row(Operation::Dyn, parent, [0; 8])?;
                let dg = RpoDigest::new([
                    Felt::new(w[0]),
                    Felt::new(w[1]),
                    Felt::new(w[2]),
                    Felt::new(w[3]),
                ]);
                let callee = self
                    .cbt
                    .get(dg)
                    .ok_or_else(|| ModelError::ExecFails("dyn target unknown".into()))?;
                self.feats.insert(format!("dyn:{}", kind(callee)));
                self.exec(callee, a, false, depth + 1)?;
                self.end_row(a, hash, [lbf, 0, 0, 0])
            }
            CodeBlock::Span(s) => {
                let mut ops = Vec::new();
                for b in s.op_batches() {
                    ops.extend_from_slice(b.ops());
                }
                self.exec_span(&ops, hash, parent, lbf)
            }
            CodeBlock::Proxy(_) => Err(ModelError::ExecFails("proxy".into())),
        }
    }

    fn exec_span(
        &mut self,
        ops: &[Operation],
        hash: [u64; 4],
        parent: u64,
        lbf: u64,
    ) -> Result<(), ModelError> {
        let batches = batch_ops(ops);
        // the hash of a span is the sequential hash of its batches (programs.md); make sure the
        // batching of the model is the one the program hash commits to
        let mut elems = Vec::new();
        for b in batches.iter() {
            for g in b.groups.iter() {
                elems.push(Felt::new(*g));
            }
        }
        if digest_u64(hasher::hash_elements(&elems)) != hash {
            return Err(ModelError::ExecFails(
                "MODEL/CORE MISMATCH: span hash differs from the hash of the model's batches".into(),
            ));
        }
        let nb = batches.len();
        self.feats.insert(format!("span-batches:{}", nb.min(5)));
        let last_used = batches[nb - 1].used as u64;
        let total = 8 * (nb as u64 - 1) + last_used.next_power_of_two();
        let first = self.alloc(nb as u64);
        let mut cur = first;
        let mut gc = total;
        for (bi, b) in batches.iter().enumerate() {
            let in_batch = gc.min(8);
            let row = Row {
                op: if bi == 0 { Operation::Span } else { Operation::Respan },
                addr: if bi == 0 { parent } else { cur },
                h: b.groups.map(Some),
                in_span: 0,
                gc,
                ox: 0,
                flags: batch_flags(in_batch),
                is_dyn: false,
            };
            self.push_row(row)?;
            if bi > 0 {
                cur += 8;
            }
            gc -= 1;
            let target = if bi + 1 < nb { 8 } else { (b.used as u64).next_power_of_two() };
            if bi + 1 < nb && b.used < 8 {
                self.feats.insert(format!("nonlast-batch-used:{}", b.used));
            }
            if b.used == 8 && b.op_groups.last().unwrap().slot != 7 {
                self.feats.insert("batch-last-slot-holds-immediate".into());
            }
            if b.used == 8 && b.op_groups.last().unwrap().ops.len() == 9 && bi + 1 == nb {
                self.feats.insert("span-ends-on-batch-boundary".into());
            }
            for (gi, g) in b.op_groups.iter().enumerate() {
                if gi > 0 {
                    gc -= 1; // a new group starts
                }
                let value = b.groups[g.slot];
                let n = g.ops.len();
                for (k, op) in g.ops.iter().enumerate() {
                    let rest = if 7 * (k + 1) >= 64 { 0 } else { value >> (7 * (k + 1)) };
                    self.op_row(*op, cur, rest, parent, gc, k as u64)?;
                    self.step(op)?;
                    if imm_of(op).is_some() {
                        gc -= 1;
                    }
                }
                if imm_of(&g.ops[n - 1]).is_some() {
                    // alignment rule: an operation with an immediate value cannot be the last
                    // one in its group -> NOOP
                    self.feats.insert("noop-after-push".into());
                    self.op_row(Operation::Noop, cur, 0, parent, gc, n as u64)?;
                }
            }
            for _ in (b.used as u64)..target {
                // padding group = a single NOOP
                gc -= 1;
                self.feats.insert("padding-group".into());
                self.op_row(Operation::Noop, cur, 0, parent, gc, 0)?;
            }
        }
        if gc != 0 {
            panic!("model bug: group count {gc} at the end of a span");
        }
        self.end_row(cur, hash, [lbf, 0, 0, 0])
    }

    fn op_row(
        &mut self,
        op: Operation,
        addr: u64,
        rest: u64,
        parent: u64,
        gc: u64,
        ox: u64,
    ) -> Result<(), ModelError> {
        self.push_row(Row {
            op,
            addr,
            h: [Some(rest), Some(parent), None, None, None, None, None, None],
            in_span: 1,
            gc,
            ox,
            flags: [0; 3],
            is_dyn: false,
        })
    }

    /// operand stack semantics of the supported user operations
    fn step(&mut self, op: &Operation) -> Result<(), ModelError> {
        use Operation::*;
        match op {
            Noop => {}
            Push(v) => self.push(v.as_int()),
            Pad => self.push(0),
            Drop => {
                self.pop();
            }
            Dup0 => self.dup(0),
            Dup1 => self.dup(1),
            Dup2 => self.dup(2),
            Dup3 => self.dup(3),
            Dup4 => self.dup(4),
            Dup5 => self.dup(5),
            Dup6 => self.dup(6),
            Dup7 => self.dup(7),
            Dup9 => self.dup(9),
            Dup11 => self.dup(11),
            Dup13 => self.dup(13),
            Dup15 => self.dup(15),
            Swap => {
                let (a, b) = (self.peek(0), self.peek(1));
                self.set(0, b);
                self.set(1, a);
            }
            MovUp2 => self.movup(2),
            MovUp3 => self.movup(3),
            MovUp4 => self.movup(4),
            MovUp5 => self.movup(5),
            MovUp6 => self.movup(6),
            MovUp7 => self.movup(7),
            MovUp8 => self.movup(8),
            MovDn2 => self.movdn(2),
            MovDn3 => self.movdn(3),
            MovDn4 => self.movdn(4),
            MovDn5 => self.movdn(5),
            MovDn6 => self.movdn(6),
            MovDn7 => self.movdn(7),
            MovDn8 => self.movdn(8),
            SwapW => {
                for i in 0..4 {
                    let (a, b) = (self.peek(i), self.peek(i + 4));
                    self.set(i, b);
                    self.set(i + 4, a);
                }
            }
            Incr => {
                let a = self.peek(0);
                self.set(0, fadd(a, 1));
            }
            Neg => {
                let a = self.peek(0);
                self.set(0, fneg(a));
            }
            Inv => {
                let a = self.peek(0);
                if a == 0 {
                    return Err(ModelError::ExecFails("inv of zero".into()));
                }
                self.set(0, fpow(a, P - 2));
            }
            Add => {
                let b = self.pop();
                let a = self.peek(0);
                self.set(0, fadd(a, b));
            }
            Mul => {
                let b = self.pop();
                let a = self.peek(0);
                self.set(0, fmul(a, b));
            }
            Eqz => {
                let a = self.peek(0);
                self.set(0, (a == 0) as u64);
            }
            Eq => {
                let b = self.pop();
                let a = self.peek(0);
                self.set(0, (a == b) as u64);
            }
            Not => {
                let a = self.peek(0);
                if a > 1 {
                    return Err(ModelError::ExecFails("not of non-binary".into()));
                }
                self.set(0, 1 - a);
            }
            And | Or => {
                let b = self.pop();
                let a = self.peek(0);
                if a > 1 || b > 1 {
                    return Err(ModelError::ExecFails("and/or of non-binary".into()));
                }
                self.set(0, if matches!(op, And) { a & b } else { a | b });
            }
            Assert(_) => {
                let a = self.pop();
                if a != 1 {
                    return Err(ModelError::ExecFails("assert".into()));
                }
            }
            SDepth => {
                let d = self.st.len() as u64;
                self.push(d);
            }
            other => {
                return Err(ModelError::Unsupported(format!("operation {other}")));
            }
        }
        Ok(())
    }

    fn dup(&mut self, i: usize) {
        let v = self.peek(i);
        self.push(v);
    }
    fn movup(&mut self, i: usize) {
        let n = self.st.len();
        let v = self.st.remove(n - 1 - i);
        self.st.push(v);
    }
    fn movdn(&mut self, i: usize) {
        let v = self.st.pop().unwrap();
        let n = self.st.len();
        self.st.insert(n - i, v);
    }
}

fn cat(a: [u64; 4], b: [u64; 4]) -> [u64; 8] {
    [a[0], a[1], a[2], a[3], b[0], b[1], b[2], b[3]]
}
