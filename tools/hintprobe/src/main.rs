//! hintprobe [max_hint]   (default 65; ilog2 always sweeps at least 0..=64)
//! Bounded check of C09 with a DISHONEST host: for the hinted instructions the advice injector is
//! intercepted and replaced by chosen values; a run that completes must leave the mathematically
//! correct result (wrong hints must make execution fail), and the honest host must succeed.
//!   u32clz / u32ctz / u32clo / u32cto : ~120 operands x hints 0..=65 and {2^32, 2^32+5, p-31, p-1}
//!   ilog2                            : ~75 field operands x hints 0..=65
//!   std::math::u64::{div, mod, divmod}: operand pairs x wrong (q, r) families (q +- 1, q + k 2^32, r + b, ...)
//!   ext2inv                          : wrong inverse
//!   ext2div                          : wrong inverse of the divisor (perturbed; scaled by (1 - t, t))
//!   mtree_get                        : inner node + a path shorter than the claimed depth
//! Prints `FAIL <instr> <what>` (first 4 per instruction), SUMMARY, exit 1 on any failure.
use assembly::Assembler;
use processor::{
    crypto::{MerklePath, MerkleStore, MerkleTree, NodeIndex},
    math::Felt,
    AdviceExtractor, AdviceInjector, AdviceInputs, AdviceProvider, AdviceSource, DefaultHost, ExecutionError, ExecutionOptions, Host,
    HostResponse, MemAdviceProvider, ProcessState, Program, StackInputs, Word,
};
use std::panic::{catch_unwind, AssertUnwindSafe};

const P: u64 = 0xFFFF_FFFF_0000_0001;

struct DishonestHost {
    adv: MemAdviceProvider,
    target: fn(&AdviceInjector) -> bool,
    hint: Vec<Felt>,
    path_override: Option<MerklePath>,
}
impl Host for DishonestHost {
    fn get_advice<S: ProcessState>(&mut self, process: &S, extractor: AdviceExtractor) -> Result<HostResponse, ExecutionError> {
        if extractor == AdviceExtractor::GetMerklePath {
            if let Some(p) = &self.path_override { return Ok(HostResponse::MerklePath(p.clone())); }
        }
        self.adv.get_advice(process, &extractor)
    }
    fn set_advice<S: ProcessState>(&mut self, process: &S, injector: AdviceInjector) -> Result<HostResponse, ExecutionError> {
        if (self.target)(&injector) {
            for &v in &self.hint { self.adv.push_stack(AdviceSource::Value(v))?; }
            return Ok(HostResponse::None);
        }
        self.adv.set_advice(process, &injector)
    }
}
fn compile(src: &str) -> Program {
    Assembler::default().with_library(&stdlib::StdLibrary::default()).unwrap().compile(src).unwrap()
}
fn inputs(bottom_first: &[u64]) -> StackInputs { StackInputs::try_from_values(bottom_first.iter().copied()).unwrap() }
fn run<H: Host>(p: &Program, i: StackInputs, h: H) -> Result<Vec<u64>, String> {
    match catch_unwind(AssertUnwindSafe(|| processor::execute(p, i, h, ExecutionOptions::default()))) {
        Ok(Ok(t)) => Ok(t.stack_outputs().stack().to_vec()),
        Ok(Err(e)) => Err(format!("{e}")),
        Err(_) => Err("panic".into()),
    }
}
fn honest(p: &Program, i: StackInputs, a: AdviceInputs) -> Result<Vec<u64>, String> { run(p, i, DefaultHost::new(MemAdviceProvider::from(a))) }
fn dishonest(p: &Program, i: StackInputs, a: AdviceInputs, target: fn(&AdviceInjector) -> bool, hint: Vec<u64>, path: Option<MerklePath>) -> Result<Vec<u64>, String> {
    run(p, i, DishonestHost { adv: MemAdviceProvider::from(a), target, hint: hint.into_iter().map(Felt::new).collect(), path_override: path })
}

struct Tally { total: u64, fails: u64 }
impl Tally {
    fn fail(&mut self, shown: &mut u32, instr: &str, what: String) {
        self.fails += 1;
        *shown += 1;
        if *shown <= 4 { println!("FAIL {instr} {what}"); }
    }
}

fn sweep1(t: &mut Tally, name: &str, target: fn(&AdviceInjector) -> bool, operands: &[u64], truth: fn(u64) -> u64, hints: &[u64]) {
    let p = compile(&format!("begin {name} end"));
    let mut shown = 0;
    for &n in operands {
        t.total += 1;
        match honest(&p, inputs(&[n]), AdviceInputs::default()) {
            Ok(s) if s[0] == truth(n) => {}
            other => t.fail(&mut shown, name, format!("honest-host n={n:#x}: {other:?}")),
        }
        for &h in hints {
            t.total += 1;
            if let Ok(s) = dishonest(&p, inputs(&[n]), AdviceInputs::default(), target, vec![h], None) {
                if s[0] != truth(n) { t.fail(&mut shown, name, format!("wrong-hint-accepted n={n:#x} hint={h} result={} correct={}", s[0], truth(n))); }
            }
        }
    }
}

fn main() {
    if std::env::var("HP_VERBOSE").is_err() { std::panic::set_hook(Box::new(|_| {})); }
    let mut t = Tally { total: 0, fails: 0 };
    let mut u32s: Vec<u64> = vec![0, 1, 2, 3, 5, 0x8000_0000, 0xffff_ffff, 0xffff_fffe, 0x7fff_ffff];
    for k in 1..32 { u32s.push(1 << k); u32s.push((1 << k) - 1); u32s.push(0xffff_ffff ^ ((1 << k) - 1)); u32s.push(0x9e37_79b9u64 >> k); }
    u32s.sort(); u32s.dedup();
    let max_hint: u64 = std::env::args().nth(1).and_then(|s| s.parse().ok()).unwrap_or(65);
    let mut hints: Vec<u64> = (0..=max_hint).collect();
    hints.extend([1u64 << 32, (1u64 << 32) + 5, P - 31, P - 1]);
    sweep1(&mut t, "u32clz", |i| matches!(i, AdviceInjector::U32Clz), &u32s, |n| (n as u32).leading_zeros() as u64, &hints);
    sweep1(&mut t, "u32ctz", |i| matches!(i, AdviceInjector::U32Ctz), &u32s, |n| (n as u32).trailing_zeros() as u64, &hints);
    sweep1(&mut t, "u32clo", |i| matches!(i, AdviceInjector::U32Clo), &u32s, |n| (n as u32).leading_ones() as u64, &hints);
    sweep1(&mut t, "u32cto", |i| matches!(i, AdviceInjector::U32Cto), &u32s, |n| (n as u32).trailing_ones() as u64, &hints);
    let mut felts: Vec<u64> = vec![1, 2, 3, 5, 8, 1 << 31, (1 << 32) - 1, 1 << 32, (1 << 32) + 1, (1 << 40) + 5, 1 << 63, 0xffff_ffff_0000_0000, 0x1234_5678_9abc_def0];
    for k in 1..63 { felts.push(1 << k); }
    felts.sort(); felts.dedup();
    let h65: Vec<u64> = (0..=max_hint.max(64)).collect();
    sweep1(&mut t, "ilog2", |i| matches!(i, AdviceInjector::ILog2), &felts, |n| n.ilog2() as u64, &h65);

    // ---- u64 division family: hint = [q_hi, q_lo, r_hi, r_lo] pushed so that the procedure pops q then r
    for (name, pick) in [("div", 0usize), ("mod", 1), ("divmod", 2)] {
        let p = compile(&format!("use.std::math::u64 begin exec.u64::{name} end"));
        let mut shown = 0;
        let pairs: Vec<(u64, u64)> = vec![(5, 1 << 32), (0xdead_beef, 7 << 32), (0x2_0000_0009, 5 << 32), (100, 7), (u64::MAX, 3), (u64::MAX, u64::MAX), (1 << 63, (1 << 32) + 1), (12345, 1)];
        for (a, b) in pairs {
            let (q, r) = (a / b, a % b);
            let st = inputs(&[a & 0xffff_ffff, a >> 32, b & 0xffff_ffff, b >> 32]);
            let expect: Vec<u64> = match pick { 0 => vec![q >> 32, q & 0xffff_ffff], 1 => vec![r >> 32, r & 0xffff_ffff], _ => vec![r >> 32, r & 0xffff_ffff, q >> 32, q & 0xffff_ffff] };
            t.total += 1;
            match honest(&p, st.clone(), AdviceInputs::default()) {
                Ok(s) if s[..expect.len()] == expect[..] => {}
                other => t.fail(&mut shown, name, format!("honest-host a={a:#x} b={b:#x}: {other:?}")),
            }
            let mut cands: Vec<(u64, u64)> = vec![(q.wrapping_add(1), r), (q.wrapping_sub(1), r.wrapping_add(b)), (q, r.wrapping_add(1)), (q, r.wrapping_add(b)), (0, a), (a, 0)];
            for k in [1u64, 3, 0xffff_ffff] { cands.push((q.wrapping_add(k << 32), r)); cands.push((q, r.wrapping_add(k << 32))); }
            for (hq, hr) in cands {
                if (hq, hr) == (q, r) { continue; }
                t.total += 1;
                // the injector pushes r_lo? order: mimic adv.push_u64div: pushes so that q is popped first (hi then lo), then r
                let hint = vec![hr & 0xffff_ffff, hr >> 32, hq & 0xffff_ffff, hq >> 32];
                if let Ok(s) = dishonest(&p, st.clone(), AdviceInputs::default(), |i| matches!(i, AdviceInjector::U64Div), hint, None) {
                    if s[..expect.len()] != expect[..] { t.fail(&mut shown, name, format!("wrong-hint-accepted a={a:#x} b={b:#x} hint q={hq:#x} r={hr:#x} result={:?} correct={:?}", &s[..expect.len()], expect)); }
                }
            }
        }
    }
    // ---- ext2inv: wrong inverse must be rejected
    {
        let p = compile("begin ext2inv end");
        let mut shown = 0;
        for (a0, a1) in [(5u64, 7u64), (1, 0), (0, 1), (P - 1, 12345)] {
            let st = inputs(&[a0, a1]);
            let good = honest(&p, st.clone(), AdviceInputs::default());
            t.total += 1;
            match &good {
                Ok(g) => {
                    for (d0, d1) in [(1u64, 0u64), (0, 1), (P - 1, 0)] {
                        t.total += 1;
                        let hint = vec![((g[1] as u128 + d0 as u128) % P as u128) as u64, ((g[0] as u128 + d1 as u128) % P as u128) as u64];
                        if let Ok(s) = dishonest(&p, st.clone(), AdviceInputs::default(), |i| matches!(i, AdviceInjector::Ext2Inv), hint, None) {
                            if s[..2] != g[..2] { t.fail(&mut shown, "ext2inv", format!("wrong-hint-accepted a=({a0},{a1}) result={:?} correct={:?}", &s[..2], &g[..2])); }
                        }
                    }
                }
                Err(e) => t.fail(&mut shown, "ext2inv", format!("honest-host a=({a0},{a1}): {e}")),
            }
        }
    }
    // ---- ext2div: a wrong inverse of the divisor must be rejected (incl. inverses scaled by (1 - t, t): the two coordinates
    //      of b * b' then still sum to 1)
    {
        let p = compile("begin ext2div end");
        let pinv = compile("begin ext2inv end");
        let mut shown = 0;
        let fm = |x: u64, y: u64| ((x as u128 * y as u128) % P as u128) as u64;
        let fa = |x: u64, y: u64| ((x as u128 + y as u128) % P as u128) as u64;
        let fs = |x: u64, y: u64| ((x as u128 + P as u128 - y as u128) % P as u128) as u64;
        // (x0, x1) * (y0, y1) in F_p[x] / (x^2 - x + 2)
        let emul = |x: (u64, u64), y: (u64, u64)| -> (u64, u64) {
            let c0 = fs(fm(x.0, y.0), fm(fm(2, x.1), y.1));
            let c1 = fs(fm(fa(x.0, x.1), fa(y.0, y.1)), fm(x.0, y.0));
            (c0, c1)
        };
        for (a, b) in [((1u64, 0u64), (1u64, 0u64)), ((5, 7), (3, 11)), ((P - 1, 12345), (0, 1)), ((0, 0), (P - 1, P - 2)), ((7, 0), (2, 0))] {
            // `inputs` takes the bottom first: the stack is [b1, b0, a1, a0, ...] from the top
            let st = inputs(&[a.0, a.1, b.0, b.1]);
            let good = honest(&p, st.clone(), AdviceInputs::default());
            let inv = honest(&pinv, inputs(&[b.0, b.1]), AdviceInputs::default());
            t.total += 1;
            match (&good, &inv) {
                (Ok(g), Ok(iv)) => {
                    let binv = (iv[1], iv[0]);
                    let mut hints: Vec<(u64, u64)> = vec![];
                    for tt in [1u64, 2, 12345, P - 1] { hints.push(emul(binv, (fs(1, tt), tt))); }
                    for (d0, d1) in [(1u64, 0u64), (0, 1), (P - 1, 1)] { hints.push((fa(binv.0, d0), fa(binv.1, d1))); }
                    hints.push((0, 0)); hints.push((1, 0)); hints.push((0, 1));
                    for h in hints {
                        if h == binv { continue; }
                        t.total += 1;
                        // the injector pushes so that b0' is popped first, then b1'
                        let hint = vec![h.0, h.1];
                        if let Ok(s) = dishonest(&p, st.clone(), AdviceInputs::default(), |i| matches!(i, AdviceInjector::Ext2Inv), hint, None) {
                            if s[..2] != g[..2] { t.fail(&mut shown, "ext2div", format!("wrong-hint-accepted a=({},{}) b=({},{}) hint=({},{}) result={:?} correct={:?}", a.0, a.1, b.0, b.1, h.0, h.1, &s[..2], &g[..2])); }
                        }
                    }
                }
                (Err(e), _) => t.fail(&mut shown, "ext2div", format!("honest-host a=({},{}) b=({},{}): {e}", a.0, a.1, b.0, b.1)),
                (_, Err(e)) => t.fail(&mut shown, "ext2div", format!("honest-host ext2inv b=({},{}): {e}", b.0, b.1)),
            }
        }
    }
    // ---- mtree_get: inner node + path shorter than the claimed depth
    {
        let leaves: Vec<Word> = (1..=4u64).map(|i| [Felt::new(i), Felt::new(i * 10), Felt::new(i * 100), Felt::new(i * 1000)]).collect();
        let tree = MerkleTree::new(leaves.clone()).unwrap();
        let store = MerkleStore::from(&tree);
        let root: Word = tree.root().into();
        let inner_l: Word = tree.get_node(NodeIndex::new(1, 0).unwrap()).unwrap().into();
        let inner_r: Word = tree.get_node(NodeIndex::new(1, 1).unwrap()).unwrap().into();
        let p = compile("begin mtree_get end");
        let st = [root[0].as_int(), root[1].as_int(), root[2].as_int(), root[3].as_int(), 1, 2];
        let advice = AdviceInputs::default().with_merkle_store(store);
        let leaf1: Vec<u64> = leaves[1].iter().rev().map(|f| f.as_int()).collect();
        let mut shown = 0;
        t.total += 2;
        match honest(&p, inputs(&st), advice.clone()) {
            Ok(s) if s[..4] == leaf1[..] => {}
            other => t.fail(&mut shown, "mtree_get", format!("honest-host: {other:?}")),
        }
        let hint = vec![inner_r[3].as_int(), inner_r[2].as_int(), inner_r[1].as_int(), inner_r[0].as_int()];
        if let Ok(s) = dishonest(&p, inputs(&st), advice, |i| matches!(i, AdviceInjector::MerkleNodeToStack), hint, Some(MerklePath::new(vec![inner_l.into()]))) {
            if s[..4] != leaf1[..] { t.fail(&mut shown, "mtree_get", format!("wrong-hint-accepted depth=2 index=1: inner node (1,1) with a path of length 1 returned as the leaf: {:?} (leaf is {:?})", &s[..4], leaf1)); }
        }
    }
    println!("SUMMARY runs={} failures={}", t.total, t.fails);
    std::process::exit(if t.fails > 0 { 1 } else { 0 });
}
