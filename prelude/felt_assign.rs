// ---- prelude/felt_assign.rs : `*=` / `+=` on Felt (only units whose extracted code uses them) -----
pub mod felt_assign_model {
use vstd::prelude::*;
use vstd::std_specs::ops::*;
use super::felt_model::*;
verus! {
impl MulAssignSpecImpl<Felt> for Felt {
    open spec fn obeys_mul_assign_spec() -> bool { true }
    open spec fn mul_assign_req(&self, rhs: Felt) -> bool { true }
    open spec fn mul_assign_spec(&self, rhs: Felt) -> Self { felt_of(fmul(self.val(), rhs.val())) }
}
impl core::ops::MulAssign<Felt> for Felt {
    #[verifier::external_body]
    fn mul_assign(&mut self, rhs: Felt) { unimplemented!() }
}
impl AddAssignSpecImpl<Felt> for Felt {
    open spec fn obeys_add_assign_spec() -> bool { true }
    open spec fn add_assign_req(&self, rhs: Felt) -> bool { true }
    open spec fn add_assign_spec(&self, rhs: Felt) -> Self { felt_of(fadd(self.val(), rhs.val())) }
}
impl core::ops::AddAssign<Felt> for Felt {
    #[verifier::external_body]
    fn add_assign(&mut self, rhs: Felt) { unimplemented!() }
}
} // verus!
}
