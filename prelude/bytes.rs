// ---- prelude/bytes.rs : T6 assumed contracts on winter-utils ByteWriter / ByteReader -------------
// little-endian fixed-width integers; a reader fails with UnexpectedEOF when too few bytes remain
pub mod bytes_model {
use vstd::prelude::*;
use super::felt_model::*;
verus! {

pub enum DeserializationError {
    InvalidValue(String),
    UnexpectedEOF,
    UnconsumedBytes,
    UnknownError(String),
}

pub open spec fn le_bytes(v: int, n: int) -> Seq<u8>
    decreases n
{ if n <= 0 { Seq::<u8>::empty() } else { seq![(v % 256) as u8] + le_bytes(v / 256, n - 1) } }
pub open spec fn le_val(b: Seq<u8>) -> int
    decreases b.len()
{ if b.len() == 0 { 0 } else { b[0] as int + 256 * le_val(b.skip(1)) } }

/// values with a fixed-width byte encoding understood by write_many / read_many
pub trait Enc: Sized {
    spec fn enc(self) -> Seq<u8>;
    spec fn width() -> int;
    /// canonical encodings only (a u64 >= P is not a Felt)
    spec fn dec_ok(b: Seq<u8>) -> bool;
    spec fn dec(b: Seq<u8>) -> Self;
}
impl Enc for u64 {
    open spec fn enc(self) -> Seq<u8> { le_bytes(self as int, 8) }
    open spec fn width() -> int { 8 }
    open spec fn dec_ok(b: Seq<u8>) -> bool { b.len() == 8 }
    open spec fn dec(b: Seq<u8>) -> u64 { le_val(b) as u64 }
}
impl Enc for Felt {
    open spec fn enc(self) -> Seq<u8> { le_bytes(self.val(), 8) }
    open spec fn width() -> int { 8 }
    open spec fn dec_ok(b: Seq<u8>) -> bool { b.len() == 8 && le_val(b) < P() }
    open spec fn dec(b: Seq<u8>) -> Felt { felt_of(le_val(b)) }
}
pub open spec fn enc_many<S: Enc>(v: Seq<S>) -> Seq<u8>
    decreases v.len()
{ if v.len() == 0 { Seq::<u8>::empty() } else { v[0].enc() + enc_many(v.skip(1)) } }

pub trait ByteWriter {
    spec fn bytes(&self) -> Seq<u8>;
    fn write_u8(&mut self, v: u8) ensures final(self).bytes() == old(self).bytes().push(v);
    fn write_u16(&mut self, v: u16) ensures final(self).bytes() == old(self).bytes() + le_bytes(v as int, 2);
    fn write_u32(&mut self, v: u32) ensures final(self).bytes() == old(self).bytes() + le_bytes(v as int, 4);
    fn write_u64(&mut self, v: u64) ensures final(self).bytes() == old(self).bytes() + le_bytes(v as int, 8);
    fn write_many<S: Enc>(&mut self, elements: &Vec<S>) ensures final(self).bytes() == old(self).bytes() + enc_many(elements@);
    /// R8k stand-in for `elements.iter().for_each(|&v| <write v>)`: writes every element in order
    fn write_slice<S: Enc>(&mut self, elements: &[S]) ensures final(self).bytes() == old(self).bytes() + enc_many(elements@);
}
pub trait ByteReader {
    spec fn rest(&self) -> Seq<u8>;
    fn read_u8(&mut self) -> (r: Result<u8, DeserializationError>)
        ensures old(self).rest().len() >= 1 ==> r == Ok::<u8, DeserializationError>(old(self).rest()[0]) && final(self).rest() == old(self).rest().skip(1),
            old(self).rest().len() < 1 ==> r is Err;
    fn peek_u8(&self) -> (r: Result<u8, DeserializationError>)
        ensures self.rest().len() >= 1 ==> r == Ok::<u8, DeserializationError>(self.rest()[0]),
            self.rest().len() < 1 ==> r is Err;
    fn read_u16(&mut self) -> (r: Result<u16, DeserializationError>)
        ensures old(self).rest().len() >= 2 ==> r is Ok && r->Ok_0 as int == le_val(old(self).rest().take(2)) && final(self).rest() == old(self).rest().skip(2),
            old(self).rest().len() < 2 ==> r is Err;
    fn read_u32(&mut self) -> (r: Result<u32, DeserializationError>)
        ensures old(self).rest().len() >= 4 ==> r is Ok && r->Ok_0 as int == le_val(old(self).rest().take(4)) && final(self).rest() == old(self).rest().skip(4),
            old(self).rest().len() < 4 ==> r is Err;
    fn read_u64(&mut self) -> (r: Result<u64, DeserializationError>)
        ensures old(self).rest().len() >= 8 ==> r is Ok && r->Ok_0 as int == le_val(old(self).rest().take(8)) && final(self).rest() == old(self).rest().skip(8),
            old(self).rest().len() < 8 ==> r is Err;
    /// reads `n` fixed-width values; fails on EOF or on a non-canonical element
    fn read_many<S: Enc>(&mut self, n: usize) -> (r: Result<Vec<S>, DeserializationError>)
        ensures r is Ok ==> r->Ok_0@.len() == n && old(self).rest().len() >= n * S::width()
                && old(self).rest().take(n * S::width()) == enc_many(r->Ok_0@)
                && final(self).rest() == old(self).rest().skip(n * S::width()),
            old(self).rest().len() < n * S::width() ==> r is Err,
            // completeness: enough bytes, every chunk a canonical encoding ==> Ok
            (old(self).rest().len() >= n * S::width() && all_dec_ok::<S>(old(self).rest(), n as int)) ==> r is Ok;
}
/// the first n chunks of `b` are canonical encodings of S
pub open spec fn all_dec_ok<S: Enc>(b: Seq<u8>, n: int) -> bool {
    forall|i: int| 0 <= i < n ==> S::dec_ok(#[trigger] b.subrange(i * S::width(), (i + 1) * S::width()))
}
pub broadcast proof fn lemma_le_len(v: int, n: int)
    requires n >= 0
    ensures #[trigger] le_bytes(v, n).len() == n
    decreases n
{ if n > 0 { lemma_le_len(v / 256, n - 1); } }
/// a 4-element list is the concatenation of its four encodings (words)
pub broadcast proof fn lemma_enc_many_4<S: Enc>(s: Seq<S>)
    requires s.len() == 4
    ensures #[trigger] enc_many(s) =~= s[0].enc() + s[1].enc() + s[2].enc() + s[3].enc()
{
    reveal_with_fuel(enc_many, 5);
    assert(s.skip(1)[0] == s[1] && s.skip(1).skip(1)[0] == s[2] && s.skip(1).skip(1).skip(1)[0] == s[3]);
    assert(s.skip(1).skip(1).skip(1).skip(1).len() == 0);
}
/// `pre` followed by `tail` (trigger for the round-trip statements)
pub open spec fn with_tail(pre: Seq<u8>, tail: Seq<u8>) -> Seq<u8> { pre + tail }
pub proof fn lemma_enc_felt(x: Felt)
    ensures x.enc().len() == 8, le_val(x.enc()) == x.val(), Felt::dec_ok(x.enc()), Felt::dec(x.enc()) == x
{
    broadcast use super::felt_model::felt_axioms;
    lemma_p256_consts(); lemma_le_roundtrip(x.val(), 8);
}
pub proof fn lemma_enc_many_felt(a: Seq<Felt>)
    ensures enc_many(a).len() == 8 * a.len(),
        forall|i: int| 0 <= i < a.len() ==> #[trigger] enc_many(a).subrange(i * 8, (i + 1) * 8) == a[i].enc(),
    decreases a.len()
{
    if a.len() > 0 {
        lemma_enc_felt(a[0]);
        lemma_enc_many_felt(a.skip(1));
        let e = enc_many(a); let t = enc_many(a.skip(1));
        assert(e =~= a[0].enc() + t);
        assert(a[0].enc().len() == 8 && t.len() == 8 * (a.len() - 1));
        assert forall|i: int| 0 <= i < a.len() implies #[trigger] e.subrange(i * 8, (i + 1) * 8) == a[i].enc() by {
            if i == 0 { assert(e.subrange(0, 8) =~= a[0].enc()); }
            else {
                assert(e.subrange(i * 8, (i + 1) * 8) =~= t.subrange((i - 1) * 8, (i - 1 + 1) * 8));
                assert(t.subrange((i - 1) * 8, (i - 1 + 1) * 8) == a.skip(1)[i - 1].enc());
                assert(a.skip(1)[i - 1] == a[i]);
            }
        }
    }
}
pub proof fn lemma_enc_many_felt_inj(a: Seq<Felt>, b: Seq<Felt>)
    requires a.len() == b.len(), enc_many(a) == enc_many(b)
    ensures a =~= b
{
    lemma_enc_many_felt(a); lemma_enc_many_felt(b);
    assert forall|i: int| 0 <= i < a.len() implies a[i] == b[i] by {
        lemma_enc_felt(a[i]); lemma_enc_felt(b[i]);
        assert(enc_many(a).subrange(i * 8, (i + 1) * 8) == a[i].enc());
        assert(enc_many(b).subrange(i * 8, (i + 1) * 8) == b[i].enc());
    }
}
pub open spec fn p256(n: int) -> int
    decreases n
{ if n <= 0 { 1 } else { 256 * p256(n - 1) } }
/// little-endian encode / decode are inverse on values that fit
pub proof fn lemma_le_roundtrip(v: int, n: int)
    requires n >= 0, 0 <= v < p256(n)
    ensures le_bytes(v, n).len() == n, le_val(le_bytes(v, n)) == v
    decreases n
{
    if n > 0 {
        lemma_le_roundtrip(v / 256, n - 1);
        let b = le_bytes(v, n);
        assert(b.skip(1) =~= le_bytes(v / 256, n - 1));
        assert(b[0] as int == v % 256);
    }
}
/// ... and on every byte string: re-encoding the value read gives the bytes back
pub broadcast proof fn lemma_le_val_inv(s: Seq<u8>)
    ensures 0 <= #[trigger] le_val(s) < p256(s.len() as int), le_bytes(le_val(s), s.len() as int) == s
    decreases s.len()
{
    if s.len() > 0 {
        lemma_le_val_inv(s.skip(1));
        let v = le_val(s);
        let t = le_val(s.skip(1));
        assert(v == s[0] as int + 256 * t);
        assert(v % 256 == s[0] as int && v / 256 == t) by (nonlinear_arith) requires v == s[0] as int + 256 * t, 0 <= (s[0] as int), (s[0] as int) < 256, 0 <= t;
        assert(le_bytes(v, s.len() as int) =~= s);
    } else {
        assert(le_bytes(0, 0) =~= s);
    }
}
pub proof fn lemma_p256_consts()
    ensures p256(2) == 0x1_0000, p256(4) == 0x1_0000_0000, p256(8) == 0x1_0000_0000_0000_0000
{
    assert(p256(2) == 0x1_0000) by (compute_only);
    assert(p256(4) == 0x1_0000_0000) by (compute_only);
    assert(p256(8) == 0x1_0000_0000_0000_0000) by (compute_only);
}
/// decoding a u64 / Felt chunk
pub proof fn lemma_enc_u64(x: u64)
    ensures x.enc().len() == 8, le_val(x.enc()) == x as int
{ lemma_p256_consts(); lemma_le_roundtrip(x as int, 8); }
pub proof fn lemma_enc_many_u64(a: Seq<u64>)
    ensures enc_many(a).len() == 8 * a.len(),
        forall|i: int| 0 <= i < a.len() ==> #[trigger] enc_many(a).subrange(i * 8, (i + 1) * 8) == a[i].enc(),
    decreases a.len()
{
    if a.len() > 0 {
        lemma_enc_u64(a[0]);
        lemma_enc_many_u64(a.skip(1));
        let e = enc_many(a); let t = enc_many(a.skip(1));
        assert(e =~= a[0].enc() + t);
        assert forall|i: int| 0 <= i < a.len() implies #[trigger] e.subrange(i * 8, (i + 1) * 8) == a[i].enc() by {
            if i == 0 { assert(e.subrange(0, 8) =~= a[0].enc()); }
            else {
                assert(e.subrange(i * 8, (i + 1) * 8) =~= t.subrange((i - 1) * 8, i * 8));
                assert(a.skip(1)[i - 1] == a[i]);
            }
        }
    }
}
/// equal encodings of equally long u64 lists ==> equal lists
pub proof fn lemma_enc_many_u64_inj(a: Seq<u64>, b: Seq<u64>)
    requires a.len() == b.len(), enc_many(a) == enc_many(b)
    ensures a =~= b
{
    lemma_enc_many_u64(a); lemma_enc_many_u64(b);
    assert forall|i: int| 0 <= i < a.len() implies a[i] == b[i] by {
        lemma_enc_u64(a[i]); lemma_enc_u64(b[i]);
        assert(enc_many(a).subrange(i * 8, (i + 1) * 8) == a[i].enc());
        assert(enc_many(b).subrange(i * 8, (i + 1) * 8) == b[i].enc());
    }
}

} // verus!
}
