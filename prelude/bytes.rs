// ---- prelude/bytes.rs : T6 assumed contracts on winter-utils ByteWriter / ByteReader -------------
// little-endian fixed-width integers; a reader fails with UnexpectedEOF when too few bytes remain
pub mod bytes_model {
use vstd::prelude::*;
use super::felt_model::*;
verus! {

pub enum DeserializationError {
    InvalidValue(String),
    UnexpectedEOF,
    UnconsumedBytes,
    UnknownError(String),
}

pub open spec fn le_bytes(v: int, n: int) -> Seq<u8>
    decreases n
{ if n <= 0 { Seq::<u8>::empty() } else { seq![(v % 256) as u8] + le_bytes(v / 256, n - 1) } }
pub open spec fn le_val(b: Seq<u8>) -> int
    decreases b.len()
{ if b.len() == 0 { 0 } else { b[0] as int + 256 * le_val(b.skip(1)) } }

/// values with a fixed-width byte encoding understood by write_many / read_many
pub trait Enc: Sized {
    spec fn enc(self) -> Seq<u8>;
    spec fn width() -> int;
    /// canonical encodings only (a u64 >= P is not a Felt)
    spec fn dec_ok(b: Seq<u8>) -> bool;
    spec fn dec(b: Seq<u8>) -> Self;
}
impl Enc for u64 {
    open spec fn enc(self) -> Seq<u8> { le_bytes(self as int, 8) }
    open spec fn width() -> int { 8 }
    open spec fn dec_ok(b: Seq<u8>) -> bool { b.len() == 8 }
    open spec fn dec(b: Seq<u8>) -> u64 { le_val(b) as u64 }
}
impl Enc for Felt {
    open spec fn enc(self) -> Seq<u8> { le_bytes(self.val(), 8) }
    open spec fn width() -> int { 8 }
    open spec fn dec_ok(b: Seq<u8>) -> bool { b.len() == 8 && le_val(b) < P() }
    open spec fn dec(b: Seq<u8>) -> Felt { felt_of(le_val(b)) }
}
pub open spec fn enc_many<S: Enc>(v: Seq<S>) -> Seq<u8>
    decreases v.len()
{ if v.len() == 0 { Seq::<u8>::empty() } else { v[0].enc() + enc_many(v.skip(1)) } }

pub trait ByteWriter {
    spec fn bytes(&self) -> Seq<u8>;
    fn write_u8(&mut self, v: u8) ensures final(self).bytes() == old(self).bytes().push(v);
    fn write_u16(&mut self, v: u16) ensures final(self).bytes() == old(self).bytes() + le_bytes(v as int, 2);
    fn write_u32(&mut self, v: u32) ensures final(self).bytes() == old(self).bytes() + le_bytes(v as int, 4);
    fn write_u64(&mut self, v: u64) ensures final(self).bytes() == old(self).bytes() + le_bytes(v as int, 8);
    fn write_many<S: Enc>(&mut self, elements: &Vec<S>) ensures final(self).bytes() == old(self).bytes() + enc_many(elements@);
}
pub trait ByteReader {
    spec fn rest(&self) -> Seq<u8>;
    fn read_u8(&mut self) -> (r: Result<u8, DeserializationError>)
        ensures old(self).rest().len() >= 1 ==> r == Ok::<u8, DeserializationError>(old(self).rest()[0]) && final(self).rest() == old(self).rest().skip(1),
            old(self).rest().len() < 1 ==> r is Err;
    fn peek_u8(&self) -> (r: Result<u8, DeserializationError>)
        ensures self.rest().len() >= 1 ==> r == Ok::<u8, DeserializationError>(self.rest()[0]),
            self.rest().len() < 1 ==> r is Err;
    fn read_u16(&mut self) -> (r: Result<u16, DeserializationError>)
        ensures old(self).rest().len() >= 2 ==> r is Ok && r->Ok_0 as int == le_val(old(self).rest().take(2)) && final(self).rest() == old(self).rest().skip(2),
            old(self).rest().len() < 2 ==> r is Err;
    fn read_u32(&mut self) -> (r: Result<u32, DeserializationError>)
        ensures old(self).rest().len() >= 4 ==> r is Ok && r->Ok_0 as int == le_val(old(self).rest().take(4)) && final(self).rest() == old(self).rest().skip(4),
            old(self).rest().len() < 4 ==> r is Err;
    fn read_u64(&mut self) -> (r: Result<u64, DeserializationError>)
        ensures old(self).rest().len() >= 8 ==> r is Ok && r->Ok_0 as int == le_val(old(self).rest().take(8)) && final(self).rest() == old(self).rest().skip(8),
            old(self).rest().len() < 8 ==> r is Err;
    /// reads `n` fixed-width values; fails on EOF or on a non-canonical element
    fn read_many<S: Enc>(&mut self, n: usize) -> (r: Result<Vec<S>, DeserializationError>)
        ensures r is Ok ==> r->Ok_0@.len() == n && old(self).rest().len() >= n * S::width()
                && old(self).rest().take(n * S::width()) == enc_many(r->Ok_0@)
                && final(self).rest() == old(self).rest().skip(n * S::width()),
            old(self).rest().len() < n * S::width() ==> r is Err;
}
} // verus!
}
