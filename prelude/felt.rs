// ---- prelude/felt.rs : trusted field model T1 (assumed contracts on winter-math BaseElement) ----
pub mod felt_model {
use vstd::prelude::*;
use vstd::std_specs::ops::*;
use vstd::std_specs::cmp::*;
use vstd::std_specs::convert::*;
verus! {

pub open spec fn P() -> int { 0xFFFF_FFFF_0000_0001 }

#[verifier::external_body]
#[derive(Clone, Copy, PartialEq, Eq, Debug)]
pub struct Felt { inner: u64 }

pub uninterp spec fn felt_of(v: int) -> Felt;

pub open spec fn fadd(a: int, b: int) -> int { (a + b) % P() }
pub open spec fn fsub(a: int, b: int) -> int { (a - b) % P() }
pub open spec fn fmul(a: int, b: int) -> int { (a * b) % P() }
pub open spec fn fneg(a: int) -> int { (0 - a) % P() }
/// multiplicative inverse in GF(P); characterised by axiom felt_inv_ax (inv(0) = 0)
pub uninterp spec fn finv(a: int) -> int;

impl Felt {
    pub uninterp spec fn val(self) -> int;
    pub const MODULUS: u64 = 0xFFFF_FFFF_0000_0001;

    #[verifier::external_body]
    pub fn new(x: u64) -> (r: Felt) ensures r.val() == (x as int) % P() { unimplemented!() }
    #[verifier::external_body]
    pub fn as_int(&self) -> (r: u64) ensures r as int == self.val() { unimplemented!() }
    #[verifier::external_body]
    pub fn inv(self) -> (r: Felt) ensures r.val() == finv(self.val()) { unimplemented!() }
    #[verifier::external_body]
    pub fn square(self) -> (r: Felt) ensures r.val() == fmul(self.val(), self.val()) { unimplemented!() }
    #[verifier::external_body]
    pub fn double(self) -> (r: Felt) ensures r.val() == fadd(self.val(), self.val()) { unimplemented!() }
    #[verifier::external_body]
    pub fn zeroed_vector(n: usize) -> (r: Vec<Felt>)
        ensures r@.len() == n, forall|i: int| 0 <= i < n ==> (#[trigger] r@[i]).val() == 0 { unimplemented!() }
}

pub open spec fn felt_zero() -> Felt { felt_of(0) }
pub open spec fn felt_one() -> Felt { felt_of(1) }
#[verifier::external_body]
pub exec const ZERO: Felt ensures ZERO.val() == 0 { Felt { inner: 0 } }
#[verifier::external_body]
pub exec const ONE: Felt ensures ONE.val() == 1 { Felt { inner: 1 } }
#[verifier::external_body]
pub exec const TWO: Felt ensures TWO.val() == 2 { Felt { inner: 2 } }

#[verifier::external_body]
pub broadcast proof fn felt_range(f: Felt) ensures 0 <= #[trigger] f.val() < P() {}
#[verifier::external_body]
pub broadcast proof fn felt_ext(a: Felt, b: Felt) ensures (#[trigger] a.val() == #[trigger] b.val()) ==> a == b {}
#[verifier::external_body]
pub broadcast proof fn felt_of_val(v: int) ensures 0 <= v < P() ==> (#[trigger] felt_of(v)).val() == v {}
#[verifier::external_body]
pub broadcast proof fn felt_of_inj(f: Felt) ensures #[trigger] felt_of(f.val()) == f {}
/// T1/T2: inverse axiom (P prime)
#[verifier::external_body]
pub broadcast proof fn felt_inv_ax(a: int)
    ensures 0 <= #[trigger] finv(a) < P(),
            (a % P() != 0) ==> fmul(a, finv(a)) == 1,
            (a % P() == 0) ==> finv(a) == 0 {}

pub broadcast group felt_axioms { felt_range, felt_ext, felt_of_val, felt_of_inj, felt_inv_ax }

impl AddSpecImpl<Felt> for Felt {
    open spec fn obeys_add_spec() -> bool { true }
    open spec fn add_req(self, rhs: Felt) -> bool { true }
    open spec fn add_spec(self, rhs: Felt) -> Felt { felt_of(fadd(self.val(), rhs.val())) }
}
impl core::ops::Add<Felt> for Felt {
    type Output = Felt;
    #[verifier::external_body]
    fn add(self, rhs: Felt) -> (r: Felt) { unimplemented!() }
}
impl SubSpecImpl<Felt> for Felt {
    open spec fn obeys_sub_spec() -> bool { true }
    open spec fn sub_req(self, rhs: Felt) -> bool { true }
    open spec fn sub_spec(self, rhs: Felt) -> Felt { felt_of(fsub(self.val(), rhs.val())) }
}
impl core::ops::Sub<Felt> for Felt {
    type Output = Felt;
    #[verifier::external_body]
    fn sub(self, rhs: Felt) -> (r: Felt) { unimplemented!() }
}
impl MulSpecImpl<Felt> for Felt {
    open spec fn obeys_mul_spec() -> bool { true }
    open spec fn mul_req(self, rhs: Felt) -> bool { true }
    open spec fn mul_spec(self, rhs: Felt) -> Felt { felt_of(fmul(self.val(), rhs.val())) }
}
impl core::ops::Mul<Felt> for Felt {
    type Output = Felt;
    #[verifier::external_body]
    fn mul(self, rhs: Felt) -> (r: Felt) { unimplemented!() }
}
impl NegSpecImpl for Felt {
    open spec fn obeys_neg_spec() -> bool { true }
    open spec fn neg_req(self) -> bool { true }
    open spec fn neg_spec(self) -> Felt { felt_of(fneg(self.val())) }
}
impl core::ops::Neg for Felt {
    type Output = Felt;
    #[verifier::external_body]
    fn neg(self) -> (r: Felt) { unimplemented!() }
}
impl PartialEqSpecImpl for Felt {
    open spec fn obeys_eq_spec() -> bool { true }
    open spec fn eq_spec(&self, other: &Felt) -> bool { self.val() == other.val() }
}
impl FromSpecImpl<u32> for Felt {
    open spec fn obeys_from_spec() -> bool { true }
    open spec fn from_spec(v: u32) -> Felt { felt_of(v as int) }
}
impl From<u32> for Felt {
    #[verifier::external_body]
    fn from(v: u32) -> (r: Felt) { unimplemented!() }
}
pub uninterp spec fn felt_try_from_err(v: u64) -> String;
impl TryFromSpecImpl<u64> for Felt {
    open spec fn obeys_try_from_spec() -> bool { true }
    open spec fn try_from_spec(v: u64) -> Result<Felt, String> {
        if (v as int) < P() { Ok(felt_of(v as int)) } else { Err(felt_try_from_err(v)) }
    }
}
impl TryFrom<u64> for Felt {
    type Error = String;
    #[verifier::external_body]
    fn try_from(v: u64) -> (r: Result<Felt, String>) { unimplemented!() }
}
impl FromSpecImpl<u16> for Felt {
    open spec fn obeys_from_spec() -> bool { true }
    open spec fn from_spec(v: u16) -> Felt { felt_of(v as int) }
}
impl From<u16> for Felt {
    #[verifier::external_body]
    fn from(v: u16) -> (r: Felt) { unimplemented!() }
}
impl FromSpecImpl<u8> for Felt {
    open spec fn obeys_from_spec() -> bool { true }
    open spec fn from_spec(v: u8) -> Felt { felt_of(v as int) }
}
impl From<u8> for Felt {
    #[verifier::external_body]
    fn from(v: u8) -> (r: Felt) { unimplemented!() }
}

} // verus!
}
