// ---- prelude/ext_types.rs : opaque stand-ins for external (non-/repo) types; carry no contracts ----
pub mod ext_types {
use vstd::prelude::*;
use super::felt_model::*;
verus! {
pub type Word = [Felt; 4];
/// miden-crypto constant (external): a word is four field elements
pub const WORD_SIZE: usize = 4;
/// miden-crypto constant (external): the all-zero word
pub exec const EMPTY_WORD: Word ensures EMPTY_WORD[0].val() == 0, EMPTY_WORD[1].val() == 0, EMPTY_WORD[2].val() == 0, EMPTY_WORD[3].val() == 0 { [ZERO; 4] }
#[verifier::external_body] pub struct MerkleError { _p: u8 }
#[verifier::external_body] pub struct ProverError { _p: u8 }
#[verifier::external_body] pub struct QuadFelt { _p: u8 }
#[verifier::external_body] pub struct Ext2InttError { _p: u8 }
#[verifier::external_body] pub struct CodeBlockOpaque { _p: u8 }
/// RPO digest: four field elements (miden-crypto). T4: hashing itself is uninterpreted.
#[verifier::external_body]
#[derive(Clone, Copy, PartialEq, Eq)]
pub struct Digest { _p: u8 }
impl Digest {
    pub uninterp spec fn elems(self) -> Seq<int>;
}
/// `==` on digests is equality of the four elements, i.e. equality of the values
impl vstd::std_specs::cmp::PartialEqSpecImpl for Digest {
    open spec fn obeys_eq_spec() -> bool { true }
    open spec fn eq_spec(&self, other: &Digest) -> bool { *self == *other }
}
} // verus!
}
