# side-car specifications for the shift / rotation procedures of stdlib/asm/math/u64.masm, from their
# `#!` doc comments: [b, a_hi, a_lo, ...] -> [c_hi, c_lo, ...]; b in [0, 64) else the procedure fails.
# The pow2 operation sequence inside each procedure is abstracted by the hub step pow2_chain
# (lemma_pow2_chain, proved in spec/masm_pow2.rs).
def src(p): return 'use.std::math::u64\nbegin exec.u64::%s end' % p
PRE = ['is_u32(s0[1])', 'is_u32(s0[2])']
A = 'u64v(s0[1], s0[2])'
b = 's0[0].val()'
SPECS = {
 'u64::shl': {'src': src('shl'), 'pre': PRE, 'fails': '%s > 63' % b,
    'post': ['u64v(r[0], r[1]) == (%s * p2(%s)) %% TWO64()' % (A, b), 'is_u32(r[0]) && is_u32(r[1])', 'rest_ok(s0, r, 3, 2)'],
    'hints': ['if s0[0].val() <= 63 { lemma_shl_core(s0[0].val(), s0[1].val(), s0[2].val()); }']},
}
# shr / rotl / rotr: no lemma yet (nonlinear limb arithmetic around the hinted pow2); covered by the bounded
# stand-in u64_boundary_grid only.
