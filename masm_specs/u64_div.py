# side-car specifications for the division family of stdlib/asm/math/u64.masm (C16 + C09)
U4 = ['is_u32(s0[0])', 'is_u32(s0[1])', 'is_u32(s0[2])', 'is_u32(s0[3])']
A = 'u64v(s0[2], s0[3])'
B = 'u64v(s0[0], s0[1])'
def src(p): return 'use.std::math::u64\nbegin exec.u64::%s end' % p
SPECS = {}
# division family (C16 + C09): for EVERY advice sequence `adv` (dishonest host), a completed run
# leaves the true quotient / remainder; a zero divisor always fails
DIVH = ['if is_u32(adv[0]) && is_u32(adv[1]) { lemma_limb_mul(s0[1].val(), adv[0].val()); lemma_limb_mul(s0[0].val(), adv[0].val()); lemma_limb_mul(s0[1].val(), adv[1].val()); lemma_limb_mul(s0[0].val(), adv[1].val()); }', 'if ok { lemma_div_core(s0[0].val(), s0[1].val(), s0[2].val(), s0[3].val(), adv[0].val(), adv[1].val(), adv[2].val(), adv[3].val()); }']
SPECS.update({
 'u64::div': {'src': src('div'), 'pre': U4 + ['adv.len() >= 8'], 'chain_in_body': True, 'normal_forms': True, 'hints': DIVH,
    'post': ['u64v(r[0], r[1]) == %s / %s' % (A, B), '%s > 0' % B, 'is_u32(r[0]) && is_u32(r[1])', 'rest_ok(s0, r, 4, 2)']},
})
SPECS.update({
 'u64::mod': {'src': src('mod'), 'pre': U4 + ['adv.len() >= 8'], 'chain_in_body': True, 'normal_forms': True, 'hints': DIVH,
    'post': ['u64v(r[0], r[1]) == %s %% %s' % (A, B), '%s > 0' % B, 'is_u32(r[0]) && is_u32(r[1])', 'rest_ok(s0, r, 4, 2)']},
 'u64::divmod': {'src': src('divmod'), 'pre': U4 + ['adv.len() >= 8'], 'chain_in_body': True, 'normal_forms': True, 'hints': DIVH,
    'post': ['u64v(r[0], r[1]) == %s %% %s' % (A, B), 'u64v(r[2], r[3]) == %s / %s' % (A, B), '%s > 0' % B,
             'is_u32(r[0]) && is_u32(r[1]) && is_u32(r[2]) && is_u32(r[3])', 'rest_ok(s0, r, 4, 4)']},
})
