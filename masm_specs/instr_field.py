# side-car specifications for single assembly instructions (C05, level L3: instruction -> operations),
# transcribed from docs/src/user_docs/assembly/field_operations.md.  Each instruction is assembled by
# /repo's assembler inside `begin ... end`; the lemma composes the hub semantics of the emitted
# operations.  s0 = initial stack (position 0 = top), r = final stack.
def src(i): return 'begin %s end' % i
BOOL = lambda e: '(if %s { 1int } else { 0int })' % e
a0, a1 = 's0[0].val()', 's0[1].val()'
WEQ = 's0[0] == s0[4] && s0[1] == s0[5] && s0[2] == s0[6] && s0[3] == s0[7]'
SPECS = {
 # ---- assertions ------------------------------------------------------------------------------
 'assert': {'src': src('assert'), 'post': ['rest_ok(s0, r, 1, 0)'], 'fails': '%s != 1' % a0},
 'assertz': {'src': src('assertz'), 'post': ['rest_ok(s0, r, 1, 0)'], 'fails': '%s != 0' % a0},
 'assert_eq': {'src': src('assert_eq'), 'post': ['rest_ok(s0, r, 2, 0)'], 'fails': 's0[0] != s0[1]'},
 'assert_eqw': {'src': src('assert_eqw'), 'post': ['rest_ok(s0, r, 8, 0)'], 'fails': '!(%s)' % WEQ},
 # ---- arithmetic --------------------------------------------------------------------------------
 'add': {'src': src('add'), 'never_fails': True, 'post': ['r[0].val() == fadd(%s, %s)' % (a1, a0), 'rest_ok(s0, r, 2, 1)']},
 'add.1': {'src': src('add.1'), 'never_fails': True, 'post': ['r[0].val() == fadd(%s, 1)' % a0, 'rest_ok(s0, r, 1, 1)']},
 'add.77': {'src': src('add.77'), 'never_fails': True, 'post': ['r[0].val() == fadd(%s, 77)' % a0, 'rest_ok(s0, r, 1, 1)']},
 'sub': {'src': src('sub'), 'never_fails': True, 'post': ['r[0].val() == fsub(%s, %s)' % (a1, a0), 'rest_ok(s0, r, 2, 1)']},
 'sub.5': {'src': src('sub.5'), 'never_fails': True, 'post': ['r[0].val() == fsub(%s, 5)' % a0, 'rest_ok(s0, r, 1, 1)']},
 'mul': {'src': src('mul'), 'never_fails': True, 'post': ['r[0].val() == fmul(%s, %s)' % (a1, a0), 'rest_ok(s0, r, 2, 1)']},
 'mul.3': {'src': src('mul.3'), 'never_fails': True, 'post': ['r[0].val() == fmul(%s, 3)' % a0, 'rest_ok(s0, r, 1, 1)']},
 'div': {'src': src('div'), 'post': ['r[0].val() == fmul(%s, finv(%s))' % (a1, a0), 'rest_ok(s0, r, 2, 1)'], 'fails': '%s == 0' % a0},
 'div.3': {'src': src('div.3'), 'never_fails': True, 'post': ['r[0].val() == fmul(%s, finv(3))' % a0, 'rest_ok(s0, r, 1, 1)']},
 'neg': {'src': src('neg'), 'never_fails': True, 'post': ['r[0].val() == fneg(%s)' % a0, 'rest_ok(s0, r, 1, 1)']},
 'inv': {'src': src('inv'), 'post': ['r[0].val() == finv(%s)' % a0, 'rest_ok(s0, r, 1, 1)'], 'fails': '%s == 0' % a0},
 # ---- boolean -----------------------------------------------------------------------------------
 'not': {'src': src('not'), 'post': ['r[0].val() == 1 - %s' % a0, 'rest_ok(s0, r, 1, 1)'], 'fails': '%s > 1' % a0},
 'and': {'src': src('and'), 'post': ['r[0].val() == %s * %s' % (a1, a0), 'rest_ok(s0, r, 2, 1)'], 'fails': '%s > 1 || %s > 1' % (a0, a1)},
 'or': {'src': src('or'), 'post': ['r[0].val() == %s + %s - %s * %s' % (a1, a0, a1, a0), 'rest_ok(s0, r, 2, 1)'], 'fails': '%s > 1 || %s > 1' % (a0, a1)},
 'xor': {'src': src('xor'), 'post': ['r[0].val() == %s + %s - 2 * %s * %s' % (a1, a0, a1, a0), 'rest_ok(s0, r, 2, 1)'], 'fails': '%s > 1 || %s > 1' % (a0, a1),
    'hints': ['if s0[0].val() <= 1 && s0[1].val() <= 1 { assert(s0[1].val() * s0[0].val() == (if s0[1].val() == 1 && s0[0].val() == 1 { 1int } else { 0int })) by (nonlinear_arith) requires 0 <= s0[0].val() <= 1, 0 <= s0[1].val() <= 1; }']},
 # ---- comparisons -------------------------------------------------------------------------------
 'eq': {'src': src('eq'), 'never_fails': True, 'post': ['r[0].val() == ' + BOOL('s0[0] == s0[1]'), 'rest_ok(s0, r, 2, 1)']},
 'eq.0': {'src': src('eq.0'), 'never_fails': True, 'post': ['r[0].val() == ' + BOOL('%s == 0' % a0), 'rest_ok(s0, r, 1, 1)']},
 'eq.9': {'src': src('eq.9'), 'never_fails': True, 'post': ['r[0].val() == ' + BOOL('%s == 9' % a0), 'rest_ok(s0, r, 1, 1)']},
 'neq': {'src': src('neq'), 'never_fails': True, 'post': ['r[0].val() == ' + BOOL('s0[0] != s0[1]'), 'rest_ok(s0, r, 2, 1)']},
 'neq.0': {'src': src('neq.0'), 'never_fails': True, 'post': ['r[0].val() == ' + BOOL('%s != 0' % a0), 'rest_ok(s0, r, 1, 1)']},
 'neq.9': {'src': src('neq.9'), 'never_fails': True, 'post': ['r[0].val() == ' + BOOL('%s != 9' % a0), 'rest_ok(s0, r, 1, 1)']},
 'eqw': {'src': src('eqw'), 'never_fails': True, 'post': ['r[0].val() == ' + BOOL(WEQ), 'rest_ok(s0, r, 0, 1)']},
 'lt': {'src': src('lt'), 'never_fails': True, 'post': ['r[0].val() == ' + BOOL('%s < %s' % (a1, a0)), 'rest_ok(s0, r, 2, 1)']},
 'lte': {'src': src('lte'), 'never_fails': True, 'post': ['r[0].val() == ' + BOOL('%s <= %s' % (a1, a0)), 'rest_ok(s0, r, 2, 1)']},
 'gt': {'src': src('gt'), 'never_fails': True, 'post': ['r[0].val() == ' + BOOL('%s > %s' % (a1, a0)), 'rest_ok(s0, r, 2, 1)']},
 'gte': {'src': src('gte'), 'never_fails': True, 'post': ['r[0].val() == ' + BOOL('%s >= %s' % (a1, a0)), 'rest_ok(s0, r, 2, 1)']},
 'is_odd': {'src': src('is_odd'), 'never_fails': True, 'post': ['r[0].val() == %s %% 2' % a0, 'rest_ok(s0, r, 1, 1)'],
    'hints': ['let lo = (s0[0].val() % B32()) as u64; assert(lo & 1 == lo % 2) by (bit_vector); assert((s0[0].val() % B32()) % 2 == s0[0].val() % 2) by (nonlinear_arith) requires B32() == 0x1_0000_0000;']},
 # ---- extension field F_p[x]/(x^2 - x + 2): [b1, b0, a1, a0, ...] ------------------------------------
 'ext2add': {'src': src('ext2add'), 'never_fails': True,
    'post': ['r[0].val() == fadd(s0[2].val(), s0[0].val()) && r[1].val() == fadd(s0[3].val(), s0[1].val())', 'rest_ok(s0, r, 4, 2)']},
 'ext2sub': {'src': src('ext2sub'), 'never_fails': True,
    'post': ['r[0].val() == fsub(s0[2].val(), s0[0].val()) && r[1].val() == fsub(s0[3].val(), s0[1].val())', 'rest_ok(s0, r, 4, 2)']},
 'ext2neg': {'src': src('ext2neg'), 'never_fails': True,
    'post': ['r[0].val() == fneg(s0[0].val()) && r[1].val() == fneg(s0[1].val())', 'rest_ok(s0, r, 2, 2)']},
 # c1 = (a0 + a1) * (b0 + b1) - a0 * b0,  c0 = a0 * b0 - 2 * a1 * b1   (docs/src/design/stack/field_ops.md, EXT2MUL)
 'ext2mul': {'src': src('ext2mul'), 'never_fails': True,
    'post': ['r[0].val() == fsub(fmul(fadd(s0[1].val(), s0[0].val()), fadd(s0[2].val(), s0[3].val())), fmul(s0[1].val(), s0[3].val()))',
             'r[1].val() == fsub(fmul(s0[1].val(), s0[3].val()), fmul(fmul(2, s0[0].val()), s0[2].val()))', 'rest_ok(s0, r, 4, 2)']},
 # ---- powers -------------------------------------------------------------------------------------
 'pow2': {'src': src('pow2'), 'post': ['r[0].val() == p2(%s)' % a0, 'rest_ok(s0, r, 1, 1)'], 'fails': '%s > 63' % a0,
    'hints': ['if s0[0].val() <= 63 { lemma_p2_bits(s0[0].val()); }']},
}

# ---- exponentiation: exp (= exp.u64), exp.uN (N bits), exp.b (immediate exponent) ---------------------
# [e, b, ...] -> [b^e, ...]; exp.uN fails iff e >= 2^N (docs: "Fails if xx is outside [0, 63)" is inconsistent with
# "exp is equivalent to exp.u64"; the failure condition taken here is the bit-length one: e does not fit N bits)
def _p2hint(n): return 'assert(p2(%d) == %d) by (compute_only);' % (n, 2 ** n)
for _n in (0, 1, 5, 31, 32, 63):
    SPECS['exp.u%d' % _n] = {'src': src('exp.u%d' % _n), 'post': ['r[0].val() == fpow(%s, %s)' % (a1, a0), 'rest_ok(s0, r, 2, 1)'],
                             'fails': '%s >= %d' % (a0, 2 ** _n), 'hints': [_p2hint(_n)]}
for _name in ('exp', 'exp.u64'):
    SPECS[_name] = {'src': src(_name), 'never_fails': True, 'post': ['r[0].val() == fpow(%s, %s)' % (a1, a0), 'rest_ok(s0, r, 2, 1)'], 'hints': [_p2hint(64)]}
for _b in range(0, 8):
    SPECS['exp.%d' % _b] = {'src': src('exp.%d' % _b), 'never_fails': True, 'post': ['r[0].val() == fpow(%s, %d)' % (a0, _b), 'rest_ok(s0, r, 1, 1)'],
                            'hints': ['reveal_with_fuel(fpow, 9); assert(fmul(s0[0].val(), 1) == s0[0].val()); assert(fmul(s0[0].val(), 0) == 0); assert(fadd(0, 1) == 1);']}
# immediates above 7 go through the EXPACC chain with the bit length of the immediate: every power of two and its
# neighbours up to 2^63, and p - 1
_BS = sorted(set([8, 9, 15, 16, 17, 31, 32, 255, 256, 257, 65535, 65536, 2 ** 31, 2 ** 32 - 1, 2 ** 32, 2 ** 32 + 1, 2 ** 62, 2 ** 63 - 1, 2 ** 63, 2 ** 63 + 1, 2 ** 64 - 2 ** 32]))
for _b in _BS:
    SPECS['exp.%d' % _b] = {'src': src('exp.%d' % _b), 'never_fails': True, 'post': ['r[0].val() == fpow(%s, %d)' % (a0, _b), 'rest_ok(s0, r, 1, 1)'],
                            'hints': [_p2hint(_b.bit_length())]}

# immediates the assembler special-cases (NOOP / INCR / PAD MUL instead of PUSH + op)
SPECS['add.0'] = {'src': src('add.0'), 'never_fails': True, 'post': ['r[0].val() == fadd(%s, 0)' % a0, 'rest_ok(s0, r, 1, 1)']}
SPECS['add.2'] = {'src': src('add.2'), 'never_fails': True, 'post': ['r[0].val() == fadd(%s, 2)' % a0, 'rest_ok(s0, r, 1, 1)']}
SPECS['sub.0'] = {'src': src('sub.0'), 'never_fails': True, 'post': ['r[0].val() == fsub(%s, 0)' % a0, 'rest_ok(s0, r, 1, 1)']}
SPECS['sub.1'] = {'src': src('sub.1'), 'never_fails': True, 'post': ['r[0].val() == fsub(%s, 1)' % a0, 'rest_ok(s0, r, 1, 1)']}
SPECS['mul.0'] = {'src': src('mul.0'), 'never_fails': True, 'post': ['r[0].val() == fmul(%s, 0)' % a0, 'rest_ok(s0, r, 1, 1)']}
SPECS['mul.1'] = {'src': src('mul.1'), 'never_fails': True, 'post': ['r[0].val() == fmul(%s, 1)' % a0, 'rest_ok(s0, r, 1, 1)']}
SPECS['mul.2'] = {'src': src('mul.2'), 'never_fails': True, 'post': ['r[0].val() == fmul(%s, 2)' % a0, 'rest_ok(s0, r, 1, 1)']}
SPECS['div.1'] = {'src': src('div.1'), 'never_fails': True, 'post': ['r[0].val() == %s' % a0, 'rest_ok(s0, r, 1, 1)']}
SPECS['eq.1'] = {'src': src('eq.1'), 'never_fails': True, 'post': ['r[0].val() == ' + BOOL('%s == 1' % a0), 'rest_ok(s0, r, 1, 1)']}
SPECS['neq.1'] = {'src': src('neq.1'), 'never_fails': True, 'post': ['r[0].val() == ' + BOOL('%s != 1' % a0), 'rest_ok(s0, r, 1, 1)']}
