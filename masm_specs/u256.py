# side-car specifications for stdlib/asm/math/u256.masm.  Only mul_unsafe carries a doc comment
# ("[b7, .., b0, a7, .., a0, ...] -> [c7, .., c0, ...], a0, b0, c0 least significant 32-bit limbs"); the other
# procedures use the same layout, and their functions are the ones C16 names (the corresponding integer /
# bitwise functions on 256-bit values given as 32-bit limbs).
# s0[i] = b_(7-i), s0[8+i] = a_(7-i) for i in 0..8;  r[i] = c_(7-i).
U16 = ['is_u32(s0[%d])' % i for i in range(16)]
def src(p): return 'use.std::math::u256\nbegin exec.u256::%s end' % p
def limbwise(f): return ' && '.join('r[%d].val() == %s(s0[%d], s0[%d])' % (i, f, 8 + i, i) for i in range(8))
BITS = ' '.join('lemma_bits_u32(s0[%d], s0[%d]);' % (8 + i, i) for i in range(8))
ORS = ' '.join('lemma_or_limb(s0[%d], s0[%d]);' % ((8 + i, i) if i >= 4 else (i, 8 + i)) for i in range(8))
A256 = 'u256v(s0.subrange(8, 16))'
B256 = 'u256v(s0.subrange(0, 8))'
SPECS = {
 'u256::and': {'src': src('and'), 'pre': U16, 'never_fails': True, 'post': [limbwise('band'), 'rest_ok(s0, r, 16, 8)'], 'hints': [BITS], 'normal_forms': True, 'chain_in_body': True},
 'u256::xor': {'src': src('xor'), 'pre': U16, 'never_fails': True, 'post': [limbwise('bxor'), 'rest_ok(s0, r, 16, 8)'], 'hints': [BITS], 'normal_forms': True, 'chain_in_body': True},
 'u256::or': {'src': src('or'), 'pre': U16, 'never_fails': True, 'post': [limbwise('bor'), 'rest_ok(s0, r, 16, 8)'], 'hints': [ORS], 'hide': ['fadd', 'fneg'], 'normal_forms': True, 'chain_in_body': True},
 # iszero: 1 iff all eight limbs are zero (no u32 assumption needed: field elements are compared with 0)
 'u256::iszero_unsafe': {'src': src('iszero_unsafe'), 'pre': [], 'never_fails': True,
    'post': ['r[0].val() == (if ' + ' && '.join('s0[%d].val() == 0' % i for i in range(8)) + ' { 1int } else { 0int })', 'rest_ok(s0, r, 8, 1)'], 'normal_forms': True, 'chain_in_body': True},
 # eq: 1 iff a == b limb by limb
 'u256::eq_unsafe': {'src': src('eq_unsafe'), 'pre': [], 'never_fails': True,
    'post': ['r[0].val() == (if ' + ' && '.join('s0[%d] == s0[%d]' % (i, 8 + i) for i in range(8)) + ' { 1int } else { 0int })', 'rest_ok(s0, r, 16, 1)'], 'normal_forms': True, 'chain_in_body': True},
 # add_unsafe / sub_unsafe / mul_unsafe: the 35..60-step carry chains exhausted the resource limit even with shared
 # normal forms (the limb identities are nested div / mod terms); they are covered by the bounded grid only.
}
