# side-car specifications for single u32 assembly instructions (C05, level L3), transcribed from
# docs/src/user_docs/assembly/u32_operations.md.  "Undefined if ..." clauses are preconditions;
# "Fails if ..." clauses are the exact failure condition.  b = s0[0] (top), a = s0[1], c = s0[2].
def src(i): return 'begin %s end' % i
BOOL = lambda e: '(if %s { 1int } else { 0int })' % e
b, a, c = 's0[0].val()', 's0[1].val()', 's0[2].val()'
U1, U2, U3 = ['is_u32(s0[0])'], ['is_u32(s0[0])', 'is_u32(s0[1])'], ['is_u32(s0[0])', 'is_u32(s0[1])', 'is_u32(s0[2])']
ALLW = 'is_u32(s0[0]) && is_u32(s0[1]) && is_u32(s0[2]) && is_u32(s0[3])'
SPECS = {
 # ---- conversions and tests ---------------------------------------------------------------------
 'u32test': {'src': src('u32test'), 'never_fails': True, 'post': ['r[0].val() == ' + BOOL('is_u32(s0[0])'), 'rest_ok(s0, r, 0, 1)']},
 'u32testw': {'src': src('u32testw'), 'never_fails': True, 'post': ['r[0].val() == ' + BOOL(ALLW), 'rest_ok(s0, r, 0, 1)']},
 'u32assert': {'src': src('u32assert'), 'post': ['rest_ok(s0, r, 0, 0)'], 'fails': '!is_u32(s0[0])'},
 'u32assert2': {'src': src('u32assert2'), 'post': ['rest_ok(s0, r, 0, 0)'], 'fails': '!is_u32(s0[0]) || !is_u32(s0[1])'},
 'u32assertw': {'src': src('u32assertw'), 'post': ['rest_ok(s0, r, 0, 0)'], 'fails': '!(%s)' % ALLW},
 'u32cast': {'src': src('u32cast'), 'never_fails': True, 'post': ['r[0].val() == %s %% B32()' % b, 'rest_ok(s0, r, 1, 1)']},
 'u32split': {'src': src('u32split'), 'never_fails': True, 'post': ['r[0].val() == %s / B32() && r[1].val() == %s %% B32()' % (b, b), 'rest_ok(s0, r, 1, 2)']},
 # ---- arithmetic --------------------------------------------------------------------------------
 'u32overflowing_add': {'src': src('u32overflowing_add'), 'pre': U2, 'never_fails': True,
    'post': ['r[1].val() == (%s + %s) %% B32()' % (a, b), 'r[0].val() == ' + BOOL('%s + %s >= B32()' % (a, b)), 'rest_ok(s0, r, 2, 2)']},
 'u32overflowing_add.7': {'src': src('u32overflowing_add.7'), 'pre': U1, 'never_fails': True,
    'post': ['r[1].val() == (%s + 7) %% B32()' % b, 'r[0].val() == ' + BOOL('%s + 7 >= B32()' % b), 'rest_ok(s0, r, 1, 2)']},
 'u32wrapping_add': {'src': src('u32wrapping_add'), 'pre': U2, 'never_fails': True, 'post': ['r[0].val() == (%s + %s) %% B32()' % (a, b), 'rest_ok(s0, r, 2, 1)']},
 'u32wrapping_add.1': {'src': src('u32wrapping_add.1'), 'pre': U1, 'never_fails': True, 'post': ['r[0].val() == (%s + 1) %% B32()' % b, 'rest_ok(s0, r, 1, 1)']},
 'u32wrapping_add.7': {'src': src('u32wrapping_add.7'), 'pre': U1, 'never_fails': True, 'post': ['r[0].val() == (%s + 7) %% B32()' % b, 'rest_ok(s0, r, 1, 1)']},
 'u32overflowing_add3': {'src': src('u32overflowing_add3'), 'pre': U3, 'never_fails': True,
    'post': ['r[1].val() == (%s + %s + %s) %% B32()' % (c, a, b), 'r[0].val() == (%s + %s + %s) / B32()' % (c, a, b), 'rest_ok(s0, r, 3, 2)']},
 'u32wrapping_add3': {'src': src('u32wrapping_add3'), 'pre': U3, 'never_fails': True, 'post': ['r[0].val() == (%s + %s + %s) %% B32()' % (c, a, b), 'rest_ok(s0, r, 3, 1)']},
 'u32overflowing_sub': {'src': src('u32overflowing_sub'), 'pre': U2, 'never_fails': True,
    'post': ['r[1].val() == (%s - %s) %% B32()' % (a, b), 'r[0].val() == ' + BOOL('%s < %s' % (a, b)), 'rest_ok(s0, r, 2, 2)']},
 'u32overflowing_sub.7': {'src': src('u32overflowing_sub.7'), 'pre': U1, 'never_fails': True,
    'post': ['r[1].val() == (%s - 7) %% B32()' % b, 'r[0].val() == ' + BOOL('%s < 7' % b), 'rest_ok(s0, r, 1, 2)']},
 'u32wrapping_sub': {'src': src('u32wrapping_sub'), 'pre': U2, 'never_fails': True, 'post': ['r[0].val() == (%s - %s) %% B32()' % (a, b), 'rest_ok(s0, r, 2, 1)']},
 'u32wrapping_sub.7': {'src': src('u32wrapping_sub.7'), 'pre': U1, 'never_fails': True, 'post': ['r[0].val() == (%s - 7) %% B32()' % b, 'rest_ok(s0, r, 1, 1)']},
 'u32overflowing_mul': {'src': src('u32overflowing_mul'), 'pre': U2, 'never_fails': True,
    'post': ['r[1].val() == (%s * %s) %% B32()' % (a, b), 'r[0].val() == (%s * %s) / B32()' % (a, b), 'rest_ok(s0, r, 2, 2)'],
    'hints': ['lemma_limb_mul(s0[1].val(), s0[0].val());']},
 'u32overflowing_mul.7': {'src': src('u32overflowing_mul.7'), 'pre': U1, 'never_fails': True,
    'post': ['r[1].val() == (%s * 7) %% B32()' % b, 'r[0].val() == (%s * 7) / B32()' % b, 'rest_ok(s0, r, 1, 2)']},
 'u32wrapping_mul': {'src': src('u32wrapping_mul'), 'pre': U2, 'never_fails': True, 'post': ['r[0].val() == (%s * %s) %% B32()' % (a, b), 'rest_ok(s0, r, 2, 1)']},
 'u32wrapping_mul.7': {'src': src('u32wrapping_mul.7'), 'pre': U1, 'never_fails': True, 'post': ['r[0].val() == (%s * 7) %% B32()' % b, 'rest_ok(s0, r, 1, 1)']},
 # [b, a, c, ...] -> a * b + c
 'u32overflowing_madd': {'src': src('u32overflowing_madd'), 'pre': U3, 'never_fails': True,
    'post': ['r[1].val() == (%s * %s + %s) %% B32()' % (a, b, c), 'r[0].val() == (%s * %s + %s) / B32()' % (a, b, c), 'rest_ok(s0, r, 3, 2)'],
    'hints': ['lemma_limb_mul(s0[1].val(), s0[0].val());']},
 'u32wrapping_madd': {'src': src('u32wrapping_madd'), 'pre': U3, 'never_fails': True, 'post': ['r[0].val() == (%s * %s + %s) %% B32()' % (a, b, c), 'rest_ok(s0, r, 3, 1)']},
 'u32div': {'src': src('u32div'), 'pre': U2, 'post': ['r[0].val() == %s / %s' % (a, b), 'rest_ok(s0, r, 2, 1)'], 'fails': '%s == 0' % b},
 'u32div.7': {'src': src('u32div.7'), 'pre': U1, 'never_fails': True, 'post': ['r[0].val() == %s / 7' % b, 'rest_ok(s0, r, 1, 1)']},
 'u32mod': {'src': src('u32mod'), 'pre': U2, 'post': ['r[0].val() == %s %% %s' % (a, b), 'rest_ok(s0, r, 2, 1)'], 'fails': '%s == 0' % b},
 'u32mod.7': {'src': src('u32mod.7'), 'pre': U1, 'never_fails': True, 'post': ['r[0].val() == %s %% 7' % b, 'rest_ok(s0, r, 1, 1)']},
 'u32divmod': {'src': src('u32divmod'), 'pre': U2, 'post': ['r[1].val() == %s / %s' % (a, b), 'r[0].val() == %s %% %s' % (a, b), 'rest_ok(s0, r, 2, 2)'], 'fails': '%s == 0' % b},
 'u32divmod.7': {'src': src('u32divmod.7'), 'pre': U1, 'never_fails': True, 'post': ['r[1].val() == %s / 7' % b, 'r[0].val() == %s %% 7' % b, 'rest_ok(s0, r, 1, 2)']},
 # ---- bitwise -----------------------------------------------------------------------------------
 'u32and': {'src': src('u32and'), 'post': ['r[0].val() == band(s0[1], s0[0])', 'rest_ok(s0, r, 2, 1)'], 'fails': '!is_u32(s0[0]) || !is_u32(s0[1])',
    'hints': ['if is_u32(s0[0]) && is_u32(s0[1]) { lemma_bits_u32(s0[1], s0[0]); }']},
 'u32xor': {'src': src('u32xor'), 'post': ['r[0].val() == bxor(s0[1], s0[0])', 'rest_ok(s0, r, 2, 1)'], 'fails': '!is_u32(s0[0]) || !is_u32(s0[1])',
    'hints': ['if is_u32(s0[0]) && is_u32(s0[1]) { lemma_bits_u32(s0[1], s0[0]); }']},
 'u32or': {'src': src('u32or'), 'post': ['r[0].val() == bor(s0[1], s0[0])', 'rest_ok(s0, r, 2, 1)'], 'fails': '!is_u32(s0[0]) || !is_u32(s0[1])',
    'hints': ['if is_u32(s0[0]) && is_u32(s0[1]) { lemma_or_via_and(s0[1], s0[0]); lemma_bits_u32(s0[1], s0[0]); }']},
 'u32not': {'src': src('u32not'), 'post': ['r[0].val() == 0xFFFF_FFFF - %s' % b, 'rest_ok(s0, r, 1, 1)'], 'fails': '!is_u32(s0[0])'},
 # ---- shifts / rotations by an immediate ----------------------------------------------------------
 'u32shl.3': {'src': src('u32shl.3'), 'pre': U1, 'never_fails': True, 'post': ['r[0].val() == (%s * 8) %% B32()' % b, 'rest_ok(s0, r, 1, 1)']},
 'u32shl.31': {'src': src('u32shl.31'), 'pre': U1, 'never_fails': True, 'post': ['r[0].val() == (%s * 0x8000_0000) %% B32()' % b, 'rest_ok(s0, r, 1, 1)']},
 'u32shr.3': {'src': src('u32shr.3'), 'pre': U1, 'never_fails': True, 'post': ['r[0].val() == %s / 8' % b, 'rest_ok(s0, r, 1, 1)']},
 'u32shr.31': {'src': src('u32shr.31'), 'pre': U1, 'never_fails': True, 'post': ['r[0].val() == %s / 0x8000_0000' % b, 'rest_ok(s0, r, 1, 1)']},
 'u32rotl.3': {'src': src('u32rotl.3'), 'pre': U1, 'never_fails': True, 'post': ['r[0].val() == (%s * 8) %% B32() + (%s * 8) / B32()' % (b, b), 'rest_ok(s0, r, 1, 1)']},
 'u32rotr.3': {'src': src('u32rotr.3'), 'pre': U1, 'never_fails': True, 'post': ['r[0].val() == %s / 8 + (%s %% 8) * 0x2000_0000' % (b, b), 'rest_ok(s0, r, 1, 1)']},
 # ---- comparisons -------------------------------------------------------------------------------
 'u32lt': {'src': src('u32lt'), 'pre': U2, 'never_fails': True, 'post': ['r[0].val() == ' + BOOL('%s < %s' % (a, b)), 'rest_ok(s0, r, 2, 1)']},
 'u32lte': {'src': src('u32lte'), 'pre': U2, 'never_fails': True, 'post': ['r[0].val() == ' + BOOL('%s <= %s' % (a, b)), 'rest_ok(s0, r, 2, 1)']},
 'u32gt': {'src': src('u32gt'), 'pre': U2, 'never_fails': True, 'post': ['r[0].val() == ' + BOOL('%s > %s' % (a, b)), 'rest_ok(s0, r, 2, 1)']},
 'u32gte': {'src': src('u32gte'), 'pre': U2, 'never_fails': True, 'post': ['r[0].val() == ' + BOOL('%s >= %s' % (a, b)), 'rest_ok(s0, r, 2, 1)']},
 'u32min': {'src': src('u32min'), 'pre': U2, 'never_fails': True, 'post': ['r[0].val() == (if %s < %s { %s } else { %s })' % (a, b, a, b), 'rest_ok(s0, r, 2, 1)']},
 'u32max': {'src': src('u32max'), 'pre': U2, 'never_fails': True, 'post': ['r[0].val() == (if %s > %s { %s } else { %s })' % (a, b, a, b), 'rest_ok(s0, r, 2, 1)']},
}

# every immediate 0..31 of the shifts and rotations (0 is special-cased by the assembler: NOOP)
for _k in range(0, 32):
    _m = 2 ** _k
    for _nm, _post in (('u32shl', 'r[0].val() == (%s * %d) %% B32()' % (b, _m)),
                       ('u32shr', 'r[0].val() == %s / %d' % (b, _m)),
                       ('u32rotl', 'r[0].val() == (%s * %d) %% B32() + (%s * %d) / B32()' % (b, _m, b, _m)),
                       ('u32rotr', 'r[0].val() == %s / %d + (%s %% %d) * %d' % (b, _m, b, _m, 2 ** 32 // _m))):
        _key = '%s.%d' % (_nm, _k)
        if _key not in SPECS:
            SPECS[_key] = {'src': src(_key), 'pre': U1, 'never_fails': True, 'post': [_post, 'rest_ok(s0, r, 1, 1)']}
