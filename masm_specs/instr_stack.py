# side-car specifications for the stack-manipulation and constant-input instructions (C05, level L3),
# transcribed from docs/src/user_docs/assembly/stack_manipulation.md and io_operations.md (push).
# Every valid parameter value is covered.  s0 = initial stack (position 0 = top), r = final stack.
def src(i): return 'begin %s end' % i
SPECS = {
 'drop': {'src': src('drop'), 'never_fails': True, 'post': ['rest_ok(s0, r, 1, 0)']},
 'dropw': {'src': src('dropw'), 'never_fails': True, 'post': ['rest_ok(s0, r, 4, 0)']},
 'padw': {'src': src('padw'), 'never_fails': True, 'post': ['r[0].val() == 0 && r[1].val() == 0 && r[2].val() == 0 && r[3].val() == 0', 'rest_ok(s0, r, 0, 4)']},
 'push.0': {'src': src('push.0'), 'never_fails': True, 'post': ['r[0].val() == 0', 'rest_ok(s0, r, 0, 1)']},
 'push.1': {'src': src('push.1'), 'never_fails': True, 'post': ['r[0].val() == 1', 'rest_ok(s0, r, 0, 1)']},
 'push.18446744069414584320': {'src': src('push.18446744069414584320'), 'never_fails': True, 'post': ['r[0].val() == 18446744069414584320', 'rest_ok(s0, r, 0, 1)']},
 # push.a.b.c: "values are pushed in the order given" -> the last one ends on top
 'push.1.2.3': {'src': src('push.1.2.3'), 'never_fails': True, 'post': ['r[0].val() == 3 && r[1].val() == 2 && r[2].val() == 1', 'rest_ok(s0, r, 0, 3)']},
 'swapdw': {'src': src('swapdw'), 'never_fails': True, 'post': ['r =~= s0.subrange(8, 16) + s0.subrange(0, 8) + s0.skip(16)']},
 'cswap': {'src': src('cswap'), 'fails': 's0[0].val() > 1',
    'post': ['r[0] == (if s0[0].val() == 1 { s0[2] } else { s0[1] }) && r[1] == (if s0[0].val() == 1 { s0[1] } else { s0[2] })', 'rest_ok(s0, r, 3, 2)']},
 'cdrop': {'src': src('cdrop'), 'fails': 's0[0].val() > 1',
    'post': ['r[0] == (if s0[0].val() == 1 { s0[1] } else { s0[2] })', 'rest_ok(s0, r, 3, 1)']},
 'cswapw': {'src': src('cswapw'), 'fails': 's0[0].val() > 1',
    'post': ['forall|i: int| 0 <= i < 4 ==> #[trigger] r[i] == (if s0[0].val() == 1 { s0[i + 5] } else { s0[i + 1] })',
             'forall|i: int| 4 <= i < 8 ==> #[trigger] r[i] == (if s0[0].val() == 1 { s0[i - 3] } else { s0[i + 1] })', 'rest_ok(s0, r, 9, 8)']},
 'cdropw': {'src': src('cdropw'), 'fails': 's0[0].val() > 1',
    'post': ['forall|i: int| 0 <= i < 4 ==> #[trigger] r[i] == (if s0[0].val() == 1 { s0[i + 1] } else { s0[i + 5] })', 'rest_ok(s0, r, 9, 4)']},
}
for n in range(16):
    SPECS['dup.%d' % n] = {'src': src('dup.%d' % n), 'never_fails': True, 'post': ['r[0] == s0[%d]' % n, 'rest_ok(s0, r, 0, 1)']}
for n in range(4):
    SPECS['dupw.%d' % n] = {'src': src('dupw.%d' % n), 'never_fails': True,
        'post': ['r[0] == s0[%d] && r[1] == s0[%d] && r[2] == s0[%d] && r[3] == s0[%d]' % (4 * n, 4 * n + 1, 4 * n + 2, 4 * n + 3), 'rest_ok(s0, r, 0, 4)']}
for n in range(1, 16):
    SPECS['swap.%d' % n] = {'src': src('swap.%d' % n), 'never_fails': True, 'post': ['r =~= s0.update(0, s0[%d]).update(%d, s0[0])' % (n, n)]}
for n in range(1, 4):
    SPECS['swapw.%d' % n] = {'src': src('swapw.%d' % n), 'never_fails': True,
        'post': ['r =~= s0.subrange(%d, %d) + s0.subrange(4, %d) + s0.subrange(0, 4) + s0.skip(%d)' % (4 * n, 4 * n + 4, 4 * n, 4 * n + 4)]}
for n in range(2, 16):
    SPECS['movup.%d' % n] = {'src': src('movup.%d' % n), 'never_fails': True, 'post': ['r =~= seq![s0[%d]] + s0.take(%d) + s0.skip(%d)' % (n, n, n + 1)]}
    SPECS['movdn.%d' % n] = {'src': src('movdn.%d' % n), 'never_fails': True, 'post': ['r =~= s0.subrange(1, %d) + seq![s0[0]] + s0.skip(%d)' % (n + 1, n + 1)]}
for n in (2, 3):
    SPECS['movupw.%d' % n] = {'src': src('movupw.%d' % n), 'never_fails': True,
        'post': ['r =~= s0.subrange(%d, %d) + s0.take(%d) + s0.skip(%d)' % (4 * n, 4 * n + 4, 4 * n, 4 * n + 4)]}
    SPECS['movdnw.%d' % n] = {'src': src('movdnw.%d' % n), 'never_fails': True,
        'post': ['r =~= s0.subrange(4, %d) + s0.take(4) + s0.skip(%d)' % (4 * n + 4, 4 * n + 4)]}
