# side-car specifications for stdlib/asm/math/u64.masm, transcribed from the `#!` doc comments.
# s0 = initial stack (Seq<Felt>, position 0 = top), r = final stack, adv = advice values popped in order.
U4 = ['is_u32(s0[0])', 'is_u32(s0[1])', 'is_u32(s0[2])', 'is_u32(s0[3])']
A = 'u64v(s0[2], s0[3])'   # a = (a_hi, a_lo) below b
B = 'u64v(s0[0], s0[1])'   # b = (b_hi, b_lo) on top
def src(p): return 'use.std::math::u64\nbegin exec.u64::%s end' % p
SPECS = {
 'u64::overflowing_add': {'src': src('overflowing_add'), 'pre': U4, 'never_fails': True,
    'post': ['u64v(r[1], r[2]) == (%s + %s) %% TWO64()' % (A, B), 'r[0].val() == (%s + %s) / TWO64()' % (A, B),
             'is_u32(r[1]) && is_u32(r[2])', 'rest_ok(s0, r, 4, 3)']},
 'u64::wrapping_add': {'src': src('wrapping_add'), 'pre': U4, 'never_fails': True,
    'post': ['u64v(r[0], r[1]) == (%s + %s) %% TWO64()' % (A, B), 'is_u32(r[0]) && is_u32(r[1])', 'rest_ok(s0, r, 4, 2)']},
 'u64::wrapping_sub': {'src': src('wrapping_sub'), 'pre': U4, 'never_fails': True,
    'post': ['u64v(r[0], r[1]) == (%s - %s) %% TWO64()' % (A, B), 'is_u32(r[0]) && is_u32(r[1])', 'rest_ok(s0, r, 4, 2)']},
 'u64::overflowing_sub': {'src': src('overflowing_sub'), 'pre': U4, 'never_fails': True,
    'post': ['u64v(r[1], r[2]) == (%s - %s) %% TWO64()' % (A, B), 'r[0].val() == (if %s < %s { 1int } else { 0int })' % (A, B),
             'is_u32(r[1]) && is_u32(r[2])', 'rest_ok(s0, r, 4, 3)']},
}
BOOL = lambda e: '(if %s { 1int } else { 0int })' % e
SPECS.update({
 'u64::wrapping_mul': {'src': src('wrapping_mul'), 'pre': U4, 'never_fails': True,
    'post': ['u64v(r[0], r[1]) == (%s * %s) %% TWO64()' % (A, B), 'is_u32(r[0]) && is_u32(r[1])', 'rest_ok(s0, r, 4, 2)'],
    'hints': ['lemma_mul_limbs_all(s0);']},
 'u64::overflowing_mul': {'src': src('overflowing_mul'), 'pre': U4, 'never_fails': True,
    'post': ['u64v(r[2], r[3]) == (%s * %s) %% TWO64()' % (A, B), 'u64v(r[0], r[1]) == (%s * %s) / TWO64()' % (A, B),
             'is_u32(r[0]) && is_u32(r[1]) && is_u32(r[2]) && is_u32(r[3])', 'rest_ok(s0, r, 4, 4)'],
    'hints': ['lemma_mul_limbs_all(s0);']},
 'u64::lt': {'src': src('lt'), 'pre': U4, 'never_fails': True, 'post': ['r[0].val() == ' + BOOL('%s < %s' % (A, B)), 'rest_ok(s0, r, 4, 1)']},
 'u64::gt': {'src': src('gt'), 'pre': U4, 'never_fails': True, 'post': ['r[0].val() == ' + BOOL('%s > %s' % (A, B)), 'rest_ok(s0, r, 4, 1)']},
 'u64::lte': {'src': src('lte'), 'pre': U4, 'never_fails': True, 'post': ['r[0].val() == ' + BOOL('%s <= %s' % (A, B)), 'rest_ok(s0, r, 4, 1)']},
 'u64::gte': {'src': src('gte'), 'pre': U4, 'never_fails': True, 'post': ['r[0].val() == ' + BOOL('%s >= %s' % (A, B)), 'rest_ok(s0, r, 4, 1)']},
 'u64::eq': {'src': src('eq'), 'pre': U4, 'never_fails': True, 'post': ['r[0].val() == ' + BOOL('%s == %s' % (A, B)), 'rest_ok(s0, r, 4, 1)']},
 'u64::neq': {'src': src('neq'), 'pre': U4, 'never_fails': True, 'post': ['r[0].val() == ' + BOOL('%s != %s' % (A, B)), 'rest_ok(s0, r, 4, 1)']},
 'u64::eqz': {'src': src('eqz'), 'pre': ['is_u32(s0[0])', 'is_u32(s0[1])'], 'never_fails': True,
    'post': ['r[0].val() == ' + BOOL('u64v(s0[0], s0[1]) == 0'), 'rest_ok(s0, r, 2, 1)']},
 'u64::min': {'src': src('min'), 'pre': U4, 'never_fails': True,
    'post': ['u64v(r[0], r[1]) == (if %s < %s { %s } else { %s })' % (A, B, A, B), 'is_u32(r[0]) && is_u32(r[1])', 'rest_ok(s0, r, 4, 2)']},
 'u64::max': {'src': src('max'), 'pre': U4, 'never_fails': True,
    'post': ['u64v(r[0], r[1]) == (if %s > %s { %s } else { %s })' % (A, B, A, B), 'is_u32(r[0]) && is_u32(r[1])', 'rest_ok(s0, r, 4, 2)']},
 'u64::and': {'src': src('and'), 'pre': U4, 'never_fails': True,
    'post': ['r[0].val() == band(s0[2], s0[0]) && r[1].val() == band(s0[3], s0[1])', 'rest_ok(s0, r, 4, 2)'],
    'hints': ['lemma_bits_u32(s0[2], s0[0]); lemma_bits_u32(s0[3], s0[1]);']},
 'u64::xor': {'src': src('xor'), 'pre': U4, 'never_fails': True,
    'post': ['r[0].val() == bxor(s0[2], s0[0]) && r[1].val() == bxor(s0[3], s0[1])', 'rest_ok(s0, r, 4, 2)'],
    'hints': ['lemma_bits_u32(s0[2], s0[0]); lemma_bits_u32(s0[3], s0[1]);']},
 'u64::or': {'src': src('or'), 'pre': U4, 'never_fails': True,
    'post': ['r[0].val() == bor(s0[2], s0[0]) && r[1].val() == bor(s0[3], s0[1])', 'rest_ok(s0, r, 4, 2)'],
    'hints': ['lemma_or_via_and(s0[2], s0[0]); lemma_or_via_and(s0[3], s0[1]); lemma_bits_u32(s0[2], s0[0]); lemma_bits_u32(s0[3], s0[1]);'],
    'normal_forms': True, 'chain_in_body': True},
})
