# side-car specifications for the instructions that verify a prover-supplied hint in the VM (C09).
# adv[0] is WHATEVER the host pushed (universally quantified): a completed run must leave the true result.
# From docs/src/user_docs/assembly/u32_operations.md ("undefined if a >= 2^32" is the precondition).
def src(i): return 'begin %s end' % i
A = 's0[0].val()'
H = 'adv[0].val()'
SPECS = {
 # clz: the result is the hint, and the run completes exactly when the hint is the number of leading zeros
 'u32clz': {'src': src('u32clz'), 'pre': ['is_u32(s0[0])', 'adv.len() >= 1'],
    'post': ['r[0] == adv[0]', 'clz_is(%s, %s)' % (A, H), 'rest_ok(s0, r, 1, 1)'],
    'fails': '!clz_is(%s, %s)' % (A, H),
    'chain_in_body': True,
    'hints': ['lemma_clz_all(s0[0], adv[0]);',
              'let e = fadd(32, fneg(adv[0].val())); let p = p2(e); let mask0 = fadd(0x1_0000_0000, fneg(p)); let bit = p / 2; let m = fadd(mask0, bit);',
              'assert(s6[0].val() == e);',
              'if ok7 { assert(s7[0].val() == p); assert(s11[0].val() == mask0); assert(s15[0].val() == bit); assert(s18[0].val() == m); assert(s19[0] == s0[0] && s19[1].val() == m && s19[2].val() == bit); }']},
 # clo: leading ones of a = leading zeros of the complement
 'u32clo': {'src': src('u32clo'), 'pre': ['is_u32(s0[0])', 'adv.len() >= 1'],
    'post': ['r[0] == adv[0]', 'clz_is(0xFFFF_FFFF - %s, %s)' % (A, H), 'rest_ok(s0, r, 1, 1)'],
    'fails': '!clz_is(0xFFFF_FFFF - %s, %s)' % (A, H),
    'hints': ['lemma_clz_all(s0[0], adv[0]);']},
 'u32ctz': {'src': src('u32ctz'), 'pre': ['is_u32(s0[0])', 'adv.len() >= 1'],
    'post': ['r[0] == adv[0]', 'ctz_is(%s, %s)' % (A, H), 'rest_ok(s0, r, 1, 1)'],
    'fails': '!ctz_is(%s, %s)' % (A, H),
    'hints': ['lemma_ctz_all(s0[0], adv[0]);']},
 'u32cto': {'src': src('u32cto'), 'pre': ['is_u32(s0[0])', 'adv.len() >= 1'],
    'post': ['r[0] == adv[0]', 'ctz_is(0xFFFF_FFFF - %s, %s)' % (A, H), 'rest_ok(s0, r, 1, 1)'],
    'fails': '!ctz_is(0xFFFF_FFFF - %s, %s)' % (A, H),
    'hints': ['lemma_ctz_all(s0[0], adv[0]);']},
 # ilog2 (docs: b = floor(log2(a)), fails if a = 0): for every hint, completes exactly when 2^hint <= a < 2^(hint+1)
 'ilog2': {'src': src('ilog2'), 'pre': ['adv.len() >= 1'],
    'post': ['r[0] == adv[0]', 'ilog2_is(%s, %s)' % (A, H), 'rest_ok(s0, r, 1, 1)'],
    'fails': '!ilog2_is(%s, %s)' % (A, H),
    'chain_in_body': True,
    'hints': ['lemma_ilog2_all(s0[0], adv[0]);',
              'let h = adv[0].val(); let p = p2(h); let nh = s0[0].val() / 0x1_0000_0000; let nl = s0[0].val() % 0x1_0000_0000; let ph = p / 0x1_0000_0000; let pl = p % 0x1_0000_0000;',
              'let d = if pl == 0 { 1int } else { 0int }; let phalf = if d == 1 { ph } else { pl }; let nhalf = if d == 1 { nh } else { nl };',
              'if ok3 { assert(s3[0].val() == p); assert(s7[0].val() == ph && s7[1].val() == pl && s7[2].val() == nh && s7[3].val() == nl);',
              '  assert(s9[0].val() == d); assert(s13[0].val() == phalf); assert(s14[0].val() == d && s14[1].val() == nh && s14[2].val() == nl && s14[3].val() == phalf);',
              '  assert(s18[0].val() == fmul(nh, 1 - d)); assert(fmul(nh, 1 - d) == (1 - d) * nh) by (nonlinear_arith) requires fmul(1 - d, nh) == (1 - d) * nh, fmul(nh, 1 - d) == (nh * (1 - d)) % P(), fmul(1 - d, nh) == ((1 - d) * nh) % P();',
              '  if ok20 { assert(s22[0].val() == nhalf && s22[1].val() == phalf); assert(s25[0].val() == ((phalf as u64) & (nhalf as u64)) as int);',
              '    if ok28 { assert(s33[0].val() == fmul(phalf, 2)); assert(fmul(phalf, 2) == 2 * phalf); assert(s37[0].val() == 2 * phalf - 1); assert(s37[1].val() == nhalf); } } }']},
 # ext2inv: [a1, a0, ...] -> [b1, b0, ...]; whatever (b0, b1) the host supplies, the run completes exactly when
 # a * b = 1 in F_p[x]/(x^2 - x + 2), i.e. b is THE inverse of a (field: inverses are unique)
 'ext2inv': {'src': src('ext2inv'), 'pre': ['adv.len() >= 2'],
    'post': ['r[0] == adv[1] && r[1] == adv[0]', 'rest_ok(s0, r, 2, 2)'],
    'fails': '!(ext2_c0(adv[0].val(), adv[1].val(), s0[1].val(), s0[0].val()) == 1 && ext2_c1(adv[0].val(), adv[1].val(), s0[1].val(), s0[0].val()) == 0)'},
 # ext2div: [b1, b0, a1, a0, ...] -> [c1, c0, ...]; whatever (b0', b1') the host supplies, the run completes exactly when
 # b * b' = (1, 0), i.e. b' is THE inverse of b, and then leaves a * b' = a / b
 'ext2div': {'src': src('ext2div'), 'pre': ['adv.len() >= 2'],
    'post': ['r[1].val() == ext2_c0(adv[0].val(), adv[1].val(), s0[3].val(), s0[2].val())',
             'r[0].val() == ext2_c1(adv[0].val(), adv[1].val(), s0[3].val(), s0[2].val())', 'rest_ok(s0, r, 4, 2)'],
    'fails': '!(ext2_c0(adv[0].val(), adv[1].val(), s0[1].val(), s0[0].val()) == 1 && ext2_c1(adv[0].val(), adv[1].val(), s0[1].val(), s0[0].val()) == 0)'},
}
