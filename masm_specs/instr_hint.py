# side-car specifications for the instructions that verify a prover-supplied hint in the VM (C09).
# adv[0] is WHATEVER the host pushed (universally quantified): a completed run must leave the true result.
# From docs/src/user_docs/assembly/u32_operations.md ("undefined if a >= 2^32" is the precondition).
def src(i): return 'begin %s end' % i
A = 's0[0].val()'
H = 'adv[0].val()'
SPECS = {
 # clz: the result is the hint, and the run completes exactly when the hint is the number of leading zeros
 'u32clz': {'src': src('u32clz'), 'pre': ['is_u32(s0[0])', 'adv.len() >= 1'],
    'post': ['r[0] == adv[0]', 'clz_is(%s, %s)' % (A, H), 'rest_ok(s0, r, 1, 1)'],
    'fails': '!clz_is(%s, %s)' % (A, H),
    'hints': ['lemma_clz_all(s0[0], adv[0]);']},
}
