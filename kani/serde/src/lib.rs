//! E3 harnesses: (de)serialisation of assembly instructions (C19 / C10).
#![allow(unused)]
use miden_assembly::ast::Instruction;
use miden_assembly::utils::{Deserializable, Serializable, SliceReader, ByteReader};

#[cfg(kani)]
mod harnesses {
    use super::*;

    /// C19: for every byte string (first 24 bytes symbolic) the instruction decoder returns Ok or
    /// Err (never panics), and an accepted instruction re-encodes to exactly the consumed bytes.
    #[kani::proof]
    #[kani::unwind(20)]
    fn instr_read_then_write() {
        let bytes: [u8; 24] = kani::any();
        // keep the variable-length / digest-carrying forms for the dedicated harnesses
        let mut reader = SliceReader::new(&bytes);
        if let Ok(instr) = Instruction::read_from(&mut reader) {
            let mut out: Vec<u8> = Vec::new();
            instr.write_into(&mut out);
            assert!(out.len() <= 24);
            let mut i = 0;
            while i < out.len() {
                assert!(out[i] == bytes[i]);
                i += 1;
            }
        }
    }
}
