"""Replay files.  Verus yields no counterexample; where a property has a replay search (a Rust
harness under /verif/replay/<name> evaluating the *real* code against an executable transcription
of the contract on a boundary grid + seeded random inputs) it is run here; otherwise the replay
file names the failed obligation and carries the verifier's output."""
import os, json, time, subprocess


def make_replay(prop, failures, results, tier, seed, repo, verif):
    d = os.path.join(verif, 'replays')
    os.makedirs(d, exist_ok=True)
    path = os.path.join(d, '%s.json' % prop)
    rec = {'property': prop, 'tier': tier, 'seed': seed, 'created': time.strftime('%Y-%m-%dT%H:%M:%S'),
           'failing_input_found': False,
           'failed_obligations': [{'unit': u, 'obligation': f['obligation'], 'message': f['message'],
                                   'verifier_output': f.get('rendered', ''), 'origins': f.get('origins', [])} for u, f in failures],
           'how_to_reproduce': 'cd /verif && ./check %s --tier %s   (re-extracts the functions from /repo and re-runs the verifier)' % (prop, tier)}
    for u, f in failures:
        if f.get('failing_input'):
            rec['failing_input_found'] = True
            rec['failing_input'] = f['failing_input']
            break
    try:
        import replay_search
        found = replay_search.search(prop, failures, seed, repo, verif)
        if found:
            rec['failing_input_found'] = True
            rec['failing_input'] = found
    except ImportError:
        pass
    except Exception as e:
        rec['replay_search_error'] = str(e)[:500]
    with open(path, 'w') as f:
        json.dump(rec, f, indent=1)
    return {'path': path, 'failing_input_found': rec['failing_input_found']}


def run_replay(prop, path):
    rec = json.load(open(path))
    print(json.dumps({k: rec[k] for k in rec if k != 'failed_obligations'}, indent=1))
    for f in rec.get('failed_obligations', []):
        print('obligation:', f['obligation'])
        print(f.get('verifier_output', '')[:2000])
    if rec.get('failing_input_found'):
        fi = rec['failing_input']
        if 'cmd' in fi:
            print('re-running against the real code:', fi['cmd'])
            p = subprocess.run(fi['cmd'], shell=True)
            return 1 if p.returncode != 0 else 0
    return 1
