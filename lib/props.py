"""Property -> machinery table.  Each entry lists the Verus units (E1), MAST-lemma units (E2) and
Kani harnesses (E3) that decide the property, plus the explicit not-decided list."""

UNIT_RLIMIT = {'executor': 150, 'masm_u64': 150, 'masm_u64_div': 300}

T_FELT = 'T1 field model prelude/felt.rs: assumed contracts on winter-math BaseElement (new/as_int/add/sub/mul/neg/inv/eq/from) — external crate'
T_TOOLS = 'T10 Verus 0.2026.09.13, Z3, rustc; machine integers are checked (not mathematical)'

T_RPO = 'T4 RPO hash (miden-crypto hash_elements / merge_in_domain) uninterpreted; collision resistance NOT assumed'

PROPS = {
    'C09': {
        'level': 'proof',
        'units': ['masm_u64_div', 'ops_sys'],
        'kani': [],
        'trusted_base': [T_FELT, T_TOOLS, 'T7 the host / advice provider is an arbitrary oracle: lemmas quantify over every advice sequence', 'T9 mastdump + lemma generator', 'T2 P prime'],
        'not_decided': ['u32clz/u32ctz/u32clo/u32cto, ilog2, ext2inv/ext2div expansions (pow2 / EXPACC chains): no lemma yet', 'mtree_get / mtree_set / mtree_verify (op_mpverify, op_mrupdate, Merkle store)', 'honest-host completeness (the hinted values always pass the check)', 'adv_loadw / adv_pipe ordering'],
        'sample_obligations': ['C09/masm_u64_div/masm::u64::div : for EVERY advice sequence, a completed run leaves floor(a / b); b = 0 never completes',
                               'C09/ops_sys/Process::op_advpop#ensures : the pushed element is whatever the host returned, nothing else changes'],
    },
    'C16': {
        'level': 'proof',
        'units': ['masm_u64', 'masm_u64_div'],
        'kani': [],
        'trusted_base': [T_FELT, T_TOOLS, 'T9 tools/mastdump prints the MAST built by /repo\'s assembler (public API); lib/e2gen.py transcribes it', 'hub spec/opsem.rs operation semantics (the relations the real op_* functions are proved to implement in C05)'],
        'not_decided': ['u64 procedures without a lemma yet: shl, shr, rotl, rotr, clz, ctz, clo, cto', 'u256 procedures'],
        'sample_obligations': ['C16/masm_u64/masm::u64::wrapping_mul : for all u32 limbs and any stack tail, exec(MAST) leaves (a*b) mod 2^64 as limbs and the rest of the stack untouched',
                               'C16/masm_u64/masm::u64::min : result is a if a < b else b'],
    },
    'C02': {
        'level': 'proof',
        'units': ['glue_proof', 'air_boundary', 'serde_core'],
        'kani': [],
        'trusted_base': [T_FELT, T_TOOLS, 'T6 winterfell: verify_proof soundness (stark_ok uninterpreted), StarkProof codec, Assertion::single, security_level', 'StackOutputs::stack_top contract (iterator chain) assumed'],
        'not_decided': ['cryptographic soundness of the STARK verifier, rejection of corrupted/truncated proof bytes beyond the tag byte (winterfell)', 'aux-segment boundary values (overflow table init/final products) and range-checker assertions', 'PublicInputs::to_elements (Fiat-Shamir seeding) ordering'],
        'sample_obligations': ['C02/glue_proof/lib::verify#ensures.0 : Ok ==> stark_ok(proof, PublicInputs{program_info, stack_inputs, stack_outputs}, tag(hash_fn), accept_set(tag))',
                               'C02/air_boundary/stack::get_assertions_first_step#ensures.0 : result == old ++ 16 input assertions (zero padded) ++ [b0 = depth, b1 = overflow address] at step 0',
                               'C02/serde_core/ExecutionProof::from_bytes#ensures : short input or unknown hash tag ==> Err'],
    },
    'C01': {
        'level': 'proof',
        'units': ['glue_proof'],
        'kani': [],
        'trusted_base': [T_FELT, T_TOOLS, 'T6 winterfell prover completeness / verifier acceptance (assumed)', 'C03 (honest trace satisfies the AIR) is a separate property'],
        'not_decided': ['completeness of the STARK protocol (winterfell)', 'body of prover::prove (generic dispatch over hashers, cfg-gated instrumentation): out of Verus reach', 'reported security level arithmetic (inside winterfell)', 'proof byte round trip beyond the hash-function tag'],
        'sample_obligations': ['C01/glue_proof/ProvingOptions::with_96_bit_security#ensures.0 : the preset (hash_fn, options) is a member of verify()\'s accept set for that hash_fn',
                               'C01/glue_proof/ExecutionProver as Prover::get_pub_inputs#ensures.0 : statement == (trace.program_info, given inputs, given outputs)'],
    },
    'C19': {
        'level': 'proof',
        'units': ['serde_core'],
        'bounded': ['libpath_decode'],
        'kani': [],
        'trusted_base': [T_FELT, T_TOOLS, 'T6 winter-utils ByteReader/ByteWriter contracts (little-endian fixed-width reads, EOF => Err), StarkProof::from_bytes total', 'T4b Digest::as_bytes injective / totally ordered; slice::sort_by_key and windows(2).any(==) contracts (R8 helpers) assumed in Kernel::new'],
        'not_decided': ['decoders of program/module ASTs, instruction nodes and compiled libraries (assembly crate): not yet under contract', 'LibraryPath::read_from / validate: str slicing is outside Verus reach — only the bounded stand-in libpath_decode covers it', 'winter-utils read_many allocation with an attacker-chosen length', 'StackInputs::try_from_values / AdviceInputs::with_stack_values (iterator closures, R8)'],
        'sample_obligations': ['C19/serde_core/StackOutputs as Deserializable::read_from#ensures.0 : Ok(v) ==> v.wf() (>= 16 elements, canonical, overflow length consistent)',
                               'C19/serde_core/Kernel as Deserializable::read_from#ensures.0 : Ok(k) ==> at most 255 distinct procedures',
                               'C19/serde_core/ExecutionProof::from_bytes#ensures : < 2 bytes or unknown tag ==> Err'],
    },
    'C04': {
        'level': 'proof',
        'units': ['air_field', 'air_u32', 'air_stack'],
        'kani': [],
        'trusted_base': [T_FELT, T_TOOLS, 'T2 P prime (no zero divisors) axiom', 'T6 winterfell EvaluationFrame stand-in', 'A-flags: OpFlags accessor values uninterpreted (OpFlags::new not yet under contract)'],
        'not_decided': ['OpFlags::new (flags from op bits: one-hot, composite shift flags)', 'chiplet constraints (hasher, bitwise, memory) and range checker', 'cross-row lookup soundness (LogUp / multiset arguments)', 'constraint degree declarations'],
        'sample_obligations': ['C04/air_stack/system_ops::enforce_constraints#ensures.0 : 4 constraints incl. CLK (s0\' - clk)',
                               'C04/air_field/enforce_eq_constraints#ensures.2 : result[1] == flag * (s0\' - (1 - (s0 - s1) * h0))',
                               'C04/air_field/sound_eq (hub lemma): flag = 1 and both constraints 0 ==> s0\' == (s0 == s1 ? 1 : 0)'],
    },
    'C13': {
        'level': 'proof',
        'units': ['executor', 'span_batch', 'decoder'],
        'kani': [],
        'trusted_base': [T_FELT, T_TOOLS, 'A-decoder: the executor unit assumes Decoder contracts over abstract views ops()/blocks(); unit decoder proves the corresponding facts on the real Decoder/DecoderTrace/BlockStack (row opcodes, block stack) for start_join/split/loop/call/syscall/dyn, end_control_block, repeat and the row writers; start_span/respan/execute_user_op/end_span rows: append_user_op / append_span_end proved, the Decoder-level wrappers not yet', 'hub rules (control_sem.rs, span_sem.rs) define the documented stream/semantics'],
        'not_decided': ['decoder trace column contents (append_* row writers) beyond the assumed one-row-per-call contract', 'final decoder row carries the program hash (Decoder::program_hash)', 'call/syscall/dyn blocks: contract assumed in unit executor'],
        'sample_obligations': ['C13/executor/Process::execute_op_batch#ensures.0 : decoder.ops == old + batch_stream(batch) (NOOP only after a group-ending immediate op and once per missing group up to the next power of two)',
                               'C13/executor/Process::execute_span_block#ensures.0 : trace == [SPAN] ++ batches joined by RESPAN ++ [END]; block stack restored'],
    },
    'C06': {
        'level': 'proof',
        'units': ['executor'],
        'bounded': ['masm_lowering'],
        'kani': [],
        'trusted_base': [T_FELT, T_TOOLS, 'A-decoder: Decoder method contracts (one row per call, block-stack push/pop) assumed in unit executor', 'hub control-flow rules spec/control_sem.rs are the semantics definition (axioms)'],
        'not_decided': ['text->AST parser', 'AST->MAST lowering (compile_body, combine_blocks): closures/iterators outside Verus reach'],
        'sample_obligations': ['C06/executor/Process::execute_split_block#ensures.0 : Ok ==> exec_rel(Split, before, after) (only rule_split_true/false can derive it)',
                               'C06/executor/Process::end_loop_block#ensures.0 : pop_stack && top != 0 ==> Err(NotBinaryValue(top))'],
    },
    'C05': {
        'level': 'proof',
        'units': ['stack', 'ops_field', 'ops_stack', 'ops_u32', 'ops_sys', 'masm_instr', 'masm_instr_u32', 'masm_instr_stack'],
        'kani': [],
        'trusted_base': [T_FELT, T_TOOLS, 'T9 tools/mastdump prints the MAST built by /repo\'s assembler; lib/e2gen.py transcribes it (unit masm_instr: instruction -> operations)'],
        'not_decided': ['instructions without a lemma in masm_specs/instr_*.py (see the unit detail for the covered list)', 'text->AST parser (assembly/src/ast/parsers): string handling outside both verifiers'],
        'sample_obligations': ['C05/stack/Stack::shift_left#ensures: next_view[i] == (i+1 < depth ? view[i+1] : ZERO) for all i >= start_pos-1; depth\' = max(16, depth-1)'],
    },
    'C08': {
        'level': 'proof',
        'units': ['span_batch', 'blocks_hash'],
        'kani': [],
        'trusted_base': [T_FELT, T_RPO, T_TOOLS],
        'not_decided': ['RPO collision resistance', 'assembler emits identical ops with/without comments/debug (see C14 bounded family)'],
        'sample_obligations': ['C08/span_batch/batch_ops#ensures.2 : concat_ops(batches) == ops (order preserving, nothing dropped)',
                               'C08/span_batch/OpBatchAccumulator::add_op#ensures.0 : representation invariant wf() preserved (<=9 ops/group, <=8 groups, immediates in the next groups, imm-op never 9th)'],
    },
    'C15': {
        'level': 'proof',
        'units': ['system', 'executor'],
        'kani': [],
        'trusted_base': [T_FELT, T_TOOLS],
        'not_decided': ['clk == u32::MAX (precondition clk < 2^32-1: a 2^32-row trace cannot be allocated)',
                        'ExecutionOptions::new with expected_cycles > 2^31 (next_power_of_two overflow; outside C15 statement)'],
        'sample_obligations': [
            'C15/system/System::advance_clock#ensures.1 : (r is Ok) <==> old.clk + 1 <= max_cycles',
            'C15/system/ExecutionOptions::new#ensures.0 : Err iff max < 64 or max < expected',
        ],
    },
}
