"""Property -> machinery table.  Each entry lists the Verus units (E1), MAST-lemma units (E2) and
Kani harnesses (E3) that decide the property, plus the explicit not-decided list."""

UNIT_RLIMIT = {'executor': 150}

T_FELT = 'T1 field model prelude/felt.rs: assumed contracts on winter-math BaseElement (new/as_int/add/sub/mul/neg/inv/eq/from) — external crate'
T_TOOLS = 'T10 Verus 0.2026.09.13, Z3, rustc; machine integers are checked (not mathematical)'

T_RPO = 'T4 RPO hash (miden-crypto hash_elements / merge_in_domain) uninterpreted; collision resistance NOT assumed'

PROPS = {
    'C19': {
        'level': 'proof',
        'units': ['serde_core'],
        'kani': [],
        'trusted_base': [T_FELT, T_TOOLS, 'T6 winter-utils ByteReader/ByteWriter contracts (little-endian fixed-width reads, EOF => Err), StarkProof::from_bytes total', 'Kernel::new (sort_by_key / windows closures) contract assumed'],
        'not_decided': ['decoders of program/module ASTs, instruction nodes and compiled libraries (assembly crate): not yet under contract', 'winter-utils read_many allocation with an attacker-chosen length', 'StackInputs::try_from_values / AdviceInputs::with_stack_values (iterator closures, R8)'],
        'sample_obligations': ['C19/serde_core/StackOutputs as Deserializable::read_from#ensures.0 : Ok(v) ==> v.wf() (>= 16 elements, canonical, overflow length consistent)',
                               'C19/serde_core/Kernel as Deserializable::read_from#ensures.0 : Ok(k) ==> at most 255 distinct procedures',
                               'C19/serde_core/ExecutionProof::from_bytes#ensures : < 2 bytes or unknown tag ==> Err'],
    },
    'C04': {
        'level': 'proof',
        'units': ['air_field', 'air_u32', 'air_stack'],
        'kani': [],
        'trusted_base': [T_FELT, T_TOOLS, 'T2 P prime (no zero divisors) axiom', 'T6 winterfell EvaluationFrame stand-in', 'A-flags: OpFlags accessor values uninterpreted (OpFlags::new not yet under contract)'],
        'not_decided': ['OpFlags::new (flags from op bits: one-hot, composite shift flags)', 'chiplet constraints (hasher, bitwise, memory) and range checker', 'cross-row lookup soundness (LogUp / multiset arguments)', 'constraint degree declarations'],
        'sample_obligations': ['C04/air_stack/system_ops::enforce_constraints#ensures.0 : 4 constraints incl. CLK (s0\' - clk)',
                               'C04/air_field/enforce_eq_constraints#ensures.2 : result[1] == flag * (s0\' - (1 - (s0 - s1) * h0))',
                               'C04/air_field/sound_eq (hub lemma): flag = 1 and both constraints 0 ==> s0\' == (s0 == s1 ? 1 : 0)'],
    },
    'C13': {
        'level': 'proof',
        'units': ['executor', 'span_batch'],
        'kani': [],
        'trusted_base': [T_FELT, T_TOOLS, 'A-decoder: Decoder method contracts (one row per call carrying the named opcode; block-stack push/pop) assumed in unit executor', 'hub rules (control_sem.rs, span_sem.rs) define the documented stream/semantics'],
        'not_decided': ['decoder trace column contents (append_* row writers) beyond the assumed one-row-per-call contract', 'final decoder row carries the program hash (Decoder::program_hash)', 'call/syscall/dyn blocks: contract assumed in unit executor'],
        'sample_obligations': ['C13/executor/Process::execute_op_batch#ensures.0 : decoder.ops == old + batch_stream(batch) (NOOP only after a group-ending immediate op and once per missing group up to the next power of two)',
                               'C13/executor/Process::execute_span_block#ensures.0 : trace == [SPAN] ++ batches joined by RESPAN ++ [END]; block stack restored'],
    },
    'C06': {
        'level': 'proof',
        'units': ['executor'],
        'kani': [],
        'trusted_base': [T_FELT, T_TOOLS, 'A-decoder: Decoder method contracts (one row per call, block-stack push/pop) assumed in unit executor', 'hub control-flow rules spec/control_sem.rs are the semantics definition (axioms)'],
        'not_decided': ['text->AST parser', 'AST->MAST lowering (compile_body, combine_blocks): closures/iterators outside Verus reach'],
        'sample_obligations': ['C06/executor/Process::execute_split_block#ensures.0 : Ok ==> exec_rel(Split, before, after) (only rule_split_true/false can derive it)',
                               'C06/executor/Process::end_loop_block#ensures.0 : pop_stack && top != 0 ==> Err(NotBinaryValue(top))'],
    },
    'C05': {
        'level': 'proof',
        'units': ['stack', 'ops_field', 'ops_stack', 'ops_u32', 'ops_sys'],
        'kani': [],
        'trusted_base': [T_FELT, T_TOOLS],
        'not_decided': ['text->AST parser (assembly/src/ast/parsers): string handling outside both verifiers'],
        'sample_obligations': ['C05/stack/Stack::shift_left#ensures: next_view[i] == (i+1 < depth ? view[i+1] : ZERO) for all i >= start_pos-1; depth\' = max(16, depth-1)'],
    },
    'C08': {
        'level': 'proof',
        'units': ['span_batch', 'blocks_hash'],
        'kani': [],
        'trusted_base': [T_FELT, T_RPO, T_TOOLS],
        'not_decided': ['RPO collision resistance', 'assembler emits identical ops with/without comments/debug (see C14 bounded family)'],
        'sample_obligations': ['C08/span_batch/batch_ops#ensures.2 : concat_ops(batches) == ops (order preserving, nothing dropped)',
                               'C08/span_batch/OpBatchAccumulator::add_op#ensures.0 : representation invariant wf() preserved (<=9 ops/group, <=8 groups, immediates in the next groups, imm-op never 9th)'],
    },
    'C15': {
        'level': 'proof',
        'units': ['system', 'executor'],
        'kani': [],
        'trusted_base': [T_FELT, T_TOOLS],
        'not_decided': ['clk == u32::MAX (precondition clk < 2^32-1: a 2^32-row trace cannot be allocated)',
                        'ExecutionOptions::new with expected_cycles > 2^31 (next_power_of_two overflow; outside C15 statement)'],
        'sample_obligations': [
            'C15/system/System::advance_clock#ensures.1 : (r is Ok) <==> old.clk + 1 <= max_cycles',
            'C15/system/ExecutionOptions::new#ensures.0 : Err iff max < 64 or max < expected',
        ],
    },
}
