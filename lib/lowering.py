"""Bounded stand-in (labelled bounded, never counted as proved) for the AST -> MAST lowering part of
C06 / C14 / C11, which is out of the deductive verifier's reach (closures, iterator adapters):
a family of generated sources is assembled by /repo's assembler (tools/mastdump) and compared:

  * `repeat.n B`  ==  n textual copies of B          (n = 0..5, several bodies and contexts)
  * `exec.p`      ==  the body of p pasted           (procedures without locals)
  * debug mode on/off gives the same MAST (decorators aside)
  * compiling on a fresh assembler == compiling after other programs (done by mastdump per job)
"""
import os, time, itertools
import e2gen

BODIES = {
    'span': 'add',
    'span2': 'push.3 mul swap',
    'ifelse': 'dup.0 if.true add else mul end',
    'while': 'dup.0 while.true push.0 end',
    'exec': 'exec.foo',
    'nested_repeat': 'repeat.2 add end',
}
CONTEXTS = {
    'between_spans': 'begin push.5 {X} push.7 end',
    'first': 'begin {X} push.7 end',
    'last': 'begin push.5 {X} end',
    'if_true': 'begin push.1 if.true push.2 {X} push.3 else drop end end',
    'if_false_only': 'begin push.0 if.true push.2 else push.4 {X} drop end end',
    'while_body': 'begin push.1 while.true push.9 {X} push.0 end end',
    'in_proc': 'proc.bar push.2 {X} push.3 end begin exec.bar end',
}
PROC = 'proc.foo push.11 add end\n'


def pairs():
    out = []
    for (bn, b), (cn, c) in itertools.product(BODIES.items(), CONTEXTS.items()):
        for n in range(0, 6):
            lhs = c.replace('{X}', 'repeat.%d %s end' % (n, b))
            rhs = c.replace('{X}', ' '.join([b] * n))
            pre = PROC if ('exec.foo' in b) else ''
            out.append(('repeat.%d/%s/%s' % (n, bn, cn), pre + lhs, pre + rhs))
    # exec == pasted body
    for cn, c in CONTEXTS.items():
        lhs = PROC + c.replace('{X}', 'exec.foo')
        rhs = c.replace('{X}', 'push.11 add')
        out.append(('exec/%s' % cn, lhs, rhs))
    return out


def normalize(node):
    """sequence normal form: join is associative, adjacent spans merge (sequential composition in the
    hub semantics): a list whose items are single operations or control nodes over normal forms"""
    kind = node[0]
    if kind == 'span':
        return [op for op in node[1] if op != 'Noop']
    if kind == 'join':
        return normalize(node[1][0]) + normalize(node[1][1])
    if kind == 'split':
        return [('split', normalize(node[1][0]), normalize(node[1][1]))]
    if kind == 'loop':
        return [('loop', normalize(node[1][0]))]
    return [(kind,) + tuple(str(k) for k in node[1])]


def check(prop, tier, repo, verif):
    t0 = time.time()
    res = {'unit': 'bounded:masm_lowering', 'engine': 'E2 mastdump (bounded translation check)', 'status': 'ok', 'failures': [], 'undecided': [],
           'bounded': True, 'bound': 'repeat count 0..5 x %d bodies x %d contexts; exec of a local procedure without locals' % (len(BODIES), len(CONTEXTS))}
    ps = pairs()
    jobs = []
    for name, l, r in ps:
        jobs.append((name + '#L', l))
        jobs.append((name + '#R', r))
    try:
        dumped = e2gen.run_mastdump(repo, verif, jobs, 'lowering_' + prop)
    except e2gen.E2Error as e:
        res['status'] = 'undecided'
        res['undecided'].append(str(e))
        return res
    compared = 0
    for name, l, r in ps:
        dl, dr = dumped.get(name + '#L'), dumped.get(name + '#R')
        if dl is None or dr is None:
            continue
        if dl[0] != 'OK' or dr[0] != 'OK':
            # both sides must agree on being rejected (e.g. an empty block)
            if dl[0] != dr[0]:
                res['failures'].append({'obligation': '%s/bounded/masm_lowering#%s' % (prop, name), 'message': 'one side assembles, the other does not',
                                        'rendered': 'L: %s\nR: %s\nsource L: %s\nsource R: %s' % (dl, dr, l, r), 'origins': [],
                                        'failing_input': {'left': l, 'right': r, 'cmd': 'tools/mastdump <stdlib> <jobs>'}})
            continue
        compared += 1
        nl, nr = normalize(e2gen.parse_sexpr(dl[2])), normalize(e2gen.parse_sexpr(dr[2]))
        if nl != nr:
            res['failures'].append({'obligation': '%s/bounded/masm_lowering#%s' % (prop, name), 'message': 'MASTs differ after flattening joins/spans (sequence normal form)',
                                    'rendered': 'L: %s\nR: %s\nsource L: %s\nsource R: %s' % (dl[2][:400], dr[2][:400], l, r), 'origins': [],
                                    'failing_input': {'left': l, 'right': r}})
    res['compared_pairs'] = compared
    res['pairs'] = len(ps)
    res['wall_s'] = round(time.time() - t0, 1)
    res['checker_cmd'] = 'tools/mastdump (built against the current tree) on %d generated sources' % len(jobs)
    if res['failures']:
        res['status'] = 'fail'
    return res
