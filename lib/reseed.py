#!/usr/bin/env python3
"""Developer tool (not used by any check): re-applies every confirmed seeded change under /verif/seeded to /repo, runs the
property's quick check and records whether it is detected.  Run ONLY when nothing else uses /repo.
usage: python3 lib/reseed.py [seed-dir-name ...]"""
import json, os, subprocess, sys, time
V = '/verif'; R = '/repo'
names = sys.argv[1:] or sorted(os.listdir(os.path.join(V, 'seeded')))
rows = []
for n in names:
    d = os.path.join(V, 'seeded', n)
    if not os.path.isdir(d) or not os.path.exists(os.path.join(d, 'meta.json')):
        continue
    meta = json.load(open(os.path.join(d, 'meta.json')))
    prop = meta['property']
    patch = os.path.join(d, 'patch.diff')
    if subprocess.run(['git', '-C', R, 'status', '--porcelain'], capture_output=True, text=True).stdout.strip():
        print('refusing: /repo is not clean'); sys.exit(2)
    a = subprocess.run(['git', '-C', R, 'apply', patch], capture_output=True, text=True)
    if a.returncode != 0:
        rows.append((n, prop, 'PATCH-DOES-NOT-APPLY', a.stderr.strip()[:120])); print(rows[-1]); continue
    t0 = time.time()
    try:
        p = subprocess.run([os.path.join(V, 'check'), prop], capture_output=True, text=True, cwd=V, timeout=3600)
        out = p.stdout
        viol = [l for l in out.split('\n') if l.startswith('VIOLATION')]
        obl = [l[len('FAILED-OBLIGATION '):].split(' : ')[0] for l in out.split('\n') if l.startswith('FAILED-OBLIGATION')]
        res = 'DETECTED' if p.returncode == 1 and viol else ('UNDECIDED' if p.returncode == 2 else 'MISSED')
    finally:
        subprocess.run(['git', '-C', R, 'checkout', '--', '.'])
    rows.append((n, prop, res, '; '.join(obl[:3])[:300] + (' (+%d more)' % (len(obl) - 3) if len(obl) > 3 else ''), round(time.time() - t0)))
    print(rows[-1], flush=True)
json.dump(rows, open(os.path.join(V, 'seeded', 'RESULTS.json' if not sys.argv[1:] else 'RESULTS.partial.json'), 'w'), indent=1)
print('detected %d / %d' % (sum(1 for r in rows if r[2] == 'DETECTED'), len(rows)))
