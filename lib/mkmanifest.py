#!/usr/bin/env python3
"""Regenerates /verif/MANIFEST.json from lib/props.py + lib/manifest_meta.py"""
import json, os, sys
sys.path.insert(0, os.path.dirname(os.path.abspath(__file__)))
import props as P
import manifest_meta as M

checks = []
for pid in sorted(P.PROPS):
    meta = M.META[pid]
    checks.append({
        'property_id': pid,
        'quick_cmd': './check %s --tier quick' % pid,
        'thorough_cmd': './check %s --tier thorough' % pid,
        'evidence_file': '/verif/evidence/%s.json' % pid,
        'replay_cmd_template': './check %s --replay {path}' % pid,
        'engine': meta['engine'],
        'level_claimed': {'category': P.PROPS[pid].get('level', 'proof'), 'text': meta['level_text'], 'design_ref': meta['design_ref']},
        'level_note': meta['level_note'],
        'technique': meta['technique'],
    })
na = [{'property_id': k, 'reason': v} for k, v in sorted(M.NOT_APPLICABLE.items()) if k not in P.PROPS]
man = {
    'version': 1,
    'setup_cmd': './setup.sh',
    'hooks': {'guard': 'cf_miden_vm_verif', 'enable': 'none needed: checks read /repo sources (E1), use the public API (E2) or the existing `internals` cargo feature (E3)',
              'baseline_off_cmd': 'cd /repo && cargo test --workspace --no-fail-fast --offline', 'source_commits': M.HOOK_COMMITS, 'add_only': True},
    'engines': M.ENGINES,
    'checks': checks,
    'notes': M.NOTES,
    'not_applicable': na,
}
json.dump(man, open(os.path.join(os.path.dirname(os.path.abspath(__file__)), '..', 'MANIFEST.json'), 'w'), indent=1)
print('wrote MANIFEST.json: %d checks, %d not_applicable' % (len(checks), len(na)))
