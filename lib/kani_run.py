"""E3: Kani harness crates under /verif/kani/<crate>, path-dependent on /repo crates."""
import os, subprocess, time, re, shutil


def check_kani(prop, h, tier, repo, verif):
    name = h['name']
    crate = os.path.join(verif, 'kani', h['crate'])
    out = {'unit': 'kani:' + name, 'engine': 'E3 kani/cbmc', 'status': 'ok', 'failures': [], 'undecided': [],
           'bounded': bool(h.get('bound')), 'bound': h.get('bound'), 'trusted': h.get('trusted', [])}
    work = os.path.join(verif, '.kani', h['crate'])
    os.makedirs(work, exist_ok=True)
    # refresh harness crate copy (sources only) and lock file from the current tree
    for fn in os.listdir(crate):
        src = os.path.join(crate, fn)
        dst = os.path.join(work, fn)
        if os.path.isdir(src):
            shutil.rmtree(dst, ignore_errors=True)
            shutil.copytree(src, dst)
        else:
            shutil.copy(src, dst)
    cargo = open(os.path.join(work, 'Cargo.toml')).read().replace('/repo/', repo.rstrip('/') + '/')
    open(os.path.join(work, 'Cargo.toml'), 'w').write(cargo)
    shutil.copy(os.path.join(repo, 'Cargo.lock'), os.path.join(work, 'Cargo.lock'))
    os.makedirs(os.path.join(work, '.cargo'), exist_ok=True)
    open(os.path.join(work, '.cargo', 'config.toml'), 'w').write('[net]\noffline = true\n')
    cmd = ['cargo', 'kani', '--harness', name] + h.get('args', [])
    env = dict(os.environ)
    env['CARGO_NET_OFFLINE'] = 'true'
    env['CARGO_TARGET_DIR'] = os.path.join(verif, '.cache', 'kani-target', h['crate'])
    t0 = time.time()
    try:
        p = subprocess.run(cmd, cwd=work, env=env, stdout=subprocess.PIPE, stderr=subprocess.STDOUT, text=True,
                           timeout=h.get('timeout', 1500))
        txt = p.stdout
    except subprocess.TimeoutExpired as e:
        out['status'] = 'undecided'
        out['undecided'].append('kani timeout after %ss' % h.get('timeout', 1500))
        out['wall_s'] = round(time.time() - t0, 1)
        return out
    out['wall_s'] = round(time.time() - t0, 1)
    out['checker_cmd'] = 'CARGO_NET_OFFLINE=true ' + ' '.join(cmd) + '  (in .kani/%s)' % h['crate']
    out['obligations'] = 1
    out['backend'] = 'kani 0.68 / cbmc 6.11'
    m = re.search(r'\*\* (\d+) of (\d+) failed', txt)
    nchecks = int(m.group(2)) if m else 0
    out['cbmc_checks'] = nchecks
    if 'VERIFICATION:- SUCCESSFUL' in txt and nchecks > 0:
        out['discharged'] = 1
    elif 'VERIFICATION:- FAILED' in txt:
        out['discharged'] = 0
        failed = re.findall(r'Failed Checks: (.*)', txt)
        # unwinding assertion failure => bound too small => undecided, not a violation
        if failed and all('unwinding assertion' in f for f in failed):
            out['status'] = 'undecided'
            out['undecided'].append('kani unwinding bound insufficient: %s' % failed[:2])
        else:
            out['status'] = 'fail'
            out['failures'].append({'obligation': '%s/kani/%s#%s' % (prop, name, (failed[0] if failed else 'check')[:80]),
                                    'message': 'Kani FAILURE: ' + '; '.join(failed[:5]),
                                    'rendered': txt[-4000:], 'origins': []})
    else:
        out['status'] = 'undecided'
        out['discharged'] = 0
        out['undecided'].append('kani did not report a verdict: ' + txt[-800:])
    return out
