"""E2: lemmas over real MAST (placeholder until the mastdump tool is built)."""


def check_e2(prop, h, tier, repo, verif):
    return {'unit': 'e2:' + str(h), 'status': 'undecided', 'failures': [], 'undecided': ['E2 engine not built yet']}
