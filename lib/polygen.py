#!/usr/bin/env python3
"""Developer tool (NOT used by checks): drafts `//@fn` contract blocks for AIR enforce_* functions by
symbolically evaluating their straight-line bodies into field-polynomial spec terms.  Every draft is
then reviewed by hand against docs/src/design/stack/*.md before it is committed in a unit file."""
import re, sys
sys.path.insert(0, '/verif/lib')
from rsitems import RustFile, mask

ATOM = {
    'E::ONE': '1', 'E::ZERO': '0', 'ONE': '1', 'ZERO': '0',
}

class P:
    def __init__(self, s, env, acc):
        self.t = re.findall(r'[A-Za-z_][A-Za-z_0-9:]*|\d[\d_]*(?:u32|u64|_u32|_u64)?|[-+*()\[\].,&]', s)
        self.i = 0; self.env = env; self.acc = acc
    def peek(self): return self.t[self.i] if self.i < len(self.t) else None
    def eat(self, x=None):
        t = self.t[self.i]; self.i += 1
        assert x is None or t == x, (t, x, self.t)
        return t
    def expr(self):
        v = self.term()
        while self.peek() in ('+', '-'):
            op = self.eat()
            r = self.term()
            v = ('fadd(%s, %s)' if op == '+' else 'fsub(%s, %s)') % (v, r)
        return v
    def term(self):
        v = self.unary()
        while self.peek() == '*':
            self.eat(); r = self.unary()
            v = 'fmul(%s, %s)' % (v, r)
        return v
    def unary(self):
        if self.peek() == '-':
            self.eat(); return 'fneg(%s)' % self.unary()
        if self.peek() == '&': self.eat()
        return self.postfix()
    def args(self):
        self.eat('('); a = []
        while self.peek() != ')':
            a.append(self.expr())
            if self.peek() == ',': self.eat()
        self.eat(')'); return a
    def postfix(self):
        t = self.eat()
        if t == '(':
            v = self.expr(); self.eat(')')
        elif re.match(r'\d', t):
            v = str(int(re.sub(r'(_?u32|_?u64)$', '', t).replace('_', '')))
        elif t in ATOM: v = ATOM[t]
        elif t in ('E::from', 'Felt::from', 'E::from_mont'):
            v = self.args()[0]
        elif t in ('are_equal',):
            a = self.args(); v = 'fsub(%s, %s)' % (a[0], a[1])
        elif t == 'is_binary':
            a = self.args(); v = 'fsub(fmul(%s, %s), %s)' % (a[0], a[0], a[0])
        elif t == 'binary_not':
            a = self.args(); v = 'fsub(1, %s)' % a[0]
        elif t in self.env: v = self.env[t]
        elif t in ('frame', 'op_flag', 'op_flags', 'limbs', 'self'):
            v = t
        else:
            v = 'C_' + t      # constant: resolve by hand
        while self.peek() in ('.', '['):
            if self.peek() == '[':
                self.eat(); idx = self.expr(); self.eat(']'); v = '%s[%s]' % (v, idx); continue
            self.eat('.'); m = self.eat()
            a = self.args() if self.peek() == '(' else None
            if v == 'frame' and m in self.acc:
                v = self.acc[m](a)
            elif m == 'square': v = 'fmul(%s, %s)' % (v, v)
            elif m == 'double': v = 'fadd(%s, %s)' % (v, v)
            elif v in ('op_flag', 'op_flags'): v = 'fl.%s(%s)' % (m, ', '.join(a or []))
            elif v == 'limbs': v = 'limbs.%s' % m
            else: v = '%s.%s(%s)' % (v, m, ', '.join(a or []))
        return v

ACC = {
    'stack_item': lambda a: 'frame.s(%s).val()' % a[0],
    'stack_item_next': lambda a: 'frame.sn(%s).val()' % a[0],
    'user_op_helper': lambda a: 'frame.h(%s).val()' % a[0],
    'stack_depth': lambda a: 'frame.b0().val()', 'stack_depth_next': lambda a: 'frame.b0n().val()',
    'stack_overflow_addr_next': lambda a: 'frame.b1n().val()', 'stack_helper': lambda a: 'frame.h0().val()',
    'clk': lambda a: 'frame.clk().val()', 'clk_next': lambda a: 'frame.clkn().val()',
    'fmp': lambda a: 'frame.fmp().val()', 'fmp_next': lambda a: 'frame.fmpn().val()',
    'is_call_end': lambda a: 'frame.is_call_end().val()', 'is_syscall_end': lambda a: 'frame.is_syscall_end().val()',
}

def draft(path, fn):
    f = RustFile('/repo/' + path, path)
    it = f.get(['fn ' + fn])
    body = it.body
    m = mask(body)
    # strip comments
    body = ''.join(c if m[i] == c or c == '\n' else ' ' for i, c in enumerate(body)) if False else re.sub(r'//[^\n]*', '', body)
    env = {}
    res = {}
    for st in body.split(';'):
        st = ' '.join(st.split())
        mt = re.match(r'let (?:mut )?(\w+)(?:: \w+)? = (.*)$', st)
        if mt:
            env[mt.group(1)] = P(mt.group(2), env, ACC).expr(); continue
        mt = re.match(r'result\[(\d+)\] = (.*)$', st)
        if mt:
            res[int(mt.group(1))] = P(mt.group(2), env, ACC).expr(); continue
    n = len(res)
    out = ['//@fn %s :: fn %s' % (path, fn), '//@requires', '    frame.wf(), old(result)@.len() >= %d,' % n,
           '//@ensures', '    r == %d, rest_same(final(result)@, old(result)@, %d),' % (n, n)]
    for k in sorted(res):
        v = res[k]
        mt = re.match(r'fmul\(op_flag, (.*)\)$', v)
        if mt: out.append('    final(result)@[%d].val() == cval(op_flag, %s),' % (k, mt.group(1)))
        else: out.append('    final(result)@[%d].val() == %s,' % (k, v))
    out.append('//@end')
    return '\n'.join(out)

if __name__ == '__main__':
    path = sys.argv[1]
    for fn in sys.argv[2:]:
        print(draft(path, fn))
