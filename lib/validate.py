#!/usr/bin/env python3-vt
import json, jsonschema, glob, sys
jsonschema.validate(json.load(open('/verif/MANIFEST.json')), json.load(open('/root/.vp/MANIFEST.schema.json')))
es = json.load(open('/root/.vp/EVIDENCE.schema.json'))
for f in sorted(x for x in glob.glob('/verif/evidence/*.json') if not x.endswith('.partial.json')):
    jsonschema.validate(json.load(open(f)), es)
    print('ok', f)
print('manifest valid')
