"""Brace/quote/comment-aware Rust item scanner (no syn available offline).

Finds items of /repo source files by *path* (never by line number) and returns their verbatim
text.  Only lexical structure is understood: comments, string/char literals, lifetimes, raw
strings, nesting of () [] {}.
"""
import re


class ScanError(Exception):
    pass


def mask(src):
    """Return a same-length copy of src where comment bodies and string/char literal contents are
    replaced by spaces (newlines kept), so that brace matching and regex search are safe."""
    out = list(src)
    i, n = 0, len(src)

    def blank(a, b):
        for k in range(a, b):
            if out[k] != '\n':
                out[k] = ' '

    while i < n:
        c = src[i]
        if c == '/' and i + 1 < n and src[i + 1] == '/':
            j = src.find('\n', i)
            j = n if j < 0 else j
            blank(i, j)
            i = j
        elif c == '/' and i + 1 < n and src[i + 1] == '*':
            depth, j = 1, i + 2
            while j < n and depth:
                if src.startswith('/*', j):
                    depth += 1
                    j += 2
                elif src.startswith('*/', j):
                    depth -= 1
                    j += 2
                else:
                    j += 1
            blank(i, j)
            i = j
        elif c == '"':
            j = i + 1
            while j < n and src[j] != '"':
                j += 2 if src[j] == '\\' else 1
            blank(i + 1, j)
            i = j + 1
        elif c == 'r' and re.match(r'r#*"', src[i:i + 8]) and (i == 0 or not (src[i - 1].isalnum() or src[i - 1] == '_')):
            m = re.match(r'r(#*)"', src[i:])
            close = '"' + m.group(1)
            j = src.find(close, i + len(m.group(0)))
            j = n if j < 0 else j
            blank(i + len(m.group(0)), j)
            i = j + len(close)
        elif c == "'":
            # char literal or lifetime
            m = re.match(r"'(\\.[^']*|[^'\\])'", src[i:i + 12])
            if m:
                blank(i + 1, i + len(m.group(0)) - 1)
                i += len(m.group(0))
            else:
                i += 1
        else:
            i += 1
    return ''.join(out)


def match_close(m, open_idx):
    """index of the bracket closing the one at open_idx (in masked text)."""
    pairs = {'{': '}', '(': ')', '[': ']'}
    o = m[open_idx]
    c = pairs[o]
    depth = 0
    for k in range(open_idx, len(m)):
        ch = m[k]
        if ch == o:
            depth += 1
        elif ch == c:
            depth -= 1
            if depth == 0:
                return k
    raise ScanError('unbalanced %s at %d' % (o, open_idx))


def depth_zero_positions(m, start, end):
    """yield indices in [start,end) of masked text that are at brace depth 0 relative to start."""
    depth = 0
    k = start
    while k < end:
        ch = m[k]
        if ch == '{':
            depth += 1
        elif ch == '}':
            depth -= 1
        elif depth == 0:
            yield k
        k += 1


def _find_at_depth0(m, start, end, regex):
    """all regex matches in [start,end) whose start is at brace depth 0 relative to start."""
    res = []
    depth = 0
    # compute depth prefix lazily
    depths = {}
    d = 0
    for k in range(start, end):
        ch = m[k]
        if ch == '}':
            d -= 1
        depths[k] = d
        if ch == '{':
            d += 1
    for mt in re.finditer(regex, m[start:end]):
        pos = start + mt.start()
        if depths.get(pos, 1) == 0:
            res.append((pos, mt))
    return res


def _header_end(m, pos, end):
    """from pos, find first '{' or ';' at ()/[] depth 0; returns (idx, char)."""
    depth = 0
    k = pos
    while k < end:
        ch = m[k]
        if ch in '([':
            depth += 1
        elif ch in ')]':
            depth -= 1
        elif depth == 0 and ch in '{;':
            return k, ch
        k += 1
    raise ScanError('no header end after %d' % pos)


def _attrs_before(src, m, pos, lo):
    """collect single-line attributes (#[...]) and comment lines immediately preceding pos.
    returns (start index of the first such line, [attr strings])"""
    attrs = []
    start = pos
    k = src.rfind('\n', lo, pos) + 1          # start of the item's line
    while k > lo:
        prev_start = src.rfind('\n', lo, k - 1) + 1
        s = src[prev_start:k - 1].strip() if k - 1 >= prev_start else ''
        if s.startswith('#[') and s.endswith(']'):
            attrs.insert(0, s)
        elif s.startswith('//'):
            pass
        else:
            break
        start = prev_start
        k = prev_start
    return start, attrs


class Item:
    def __init__(self, file, kind, name, src, masked, start, end, hdr_end, attrs, container=None):
        self.file, self.kind, self.name = file, kind, name
        self.src, self.masked = src, masked
        self.start, self.end = start, end          # [start,end) of the item incl. pub / keyword
        self.hdr_end = hdr_end                     # index of '{' or ';' ending the header
        self.attrs = attrs
        self.container = container

    @property
    def text(self):
        return self.src[self.start:self.end]

    @property
    def header(self):
        return self.src[self.start:self.hdr_end]

    @property
    def body(self):
        """text between the outer braces (exclusive); None for ';' items"""
        if self.src[self.hdr_end] != '{':
            return None
        return self.src[self.hdr_end + 1:self.end - 1]

    @property
    def line(self):
        return self.src.count('\n', 0, self.start) + 1


KIND_RE = {
    'fn': r'(?:pub(?:\s*\([^)]*\))?\s+)?(?:default\s+)?(?:const\s+)?(?:unsafe\s+)?(?:extern\s+"[^"]*"\s+)?fn\s+%s\b',
    'struct': r'(?:pub(?:\s*\([^)]*\))?\s+)?struct\s+%s\b',
    'enum': r'(?:pub(?:\s*\([^)]*\))?\s+)?enum\s+%s\b',
    'trait': r'(?:pub(?:\s*\([^)]*\))?\s+)?(?:unsafe\s+)?trait\s+%s\b',
    'const': r'(?:pub(?:\s*\([^)]*\))?\s+)?const\s+%s\b',
    'static': r'(?:pub(?:\s*\([^)]*\))?\s+)?static\s+%s\b',
    'type': r'(?:pub(?:\s*\([^)]*\))?\s+)?type\s+%s\b',
    'mod': r'(?:pub(?:\s*\([^)]*\))?\s+)?mod\s+%s\b',
}


class RustFile:
    def __init__(self, path, relpath=None):
        self.path = path
        self.rel = relpath or path
        self.src = open(path, encoding='utf-8').read()
        self.m = mask(self.src)

    # -- containers -------------------------------------------------------------------------
    def impls(self, header_pat, lo=0, hi=None):
        """all impl blocks (at depth 0 in [lo,hi)) whose whitespace-normalised header matches
        header_pat (a regex searched in e.g. 'impl<H> Process<H> where H: Host')."""
        hi = len(self.src) if hi is None else hi
        res = []
        for pos, mt in _find_at_depth0(self.m, lo, hi, r'\b(?:unsafe\s+)?impl\b'):
            he, ch = _header_end(self.m, pos, hi)
            if ch != '{':
                continue
            hdr = ' '.join(self.src[pos:he].split())
            if re.search(header_pat, hdr):
                close = match_close(self.m, he)
                st, attrs = _attrs_before(self.src, self.m, pos, lo)
                res.append(Item(self.rel, 'impl', hdr, self.src, self.m, pos, close + 1, he, attrs))
        return res

    def find(self, kind, name, lo=0, hi=None, container=None):
        hi = len(self.src) if hi is None else hi
        rx = KIND_RE[kind] % re.escape(name)
        hits = _find_at_depth0(self.m, lo, hi, r'(?<![\w])' + rx)
        # filter: must be at start of an item (preceded by whitespace / '}' / ';' / attr)
        out = []
        for pos, mt in hits:
            he, ch = _header_end(self.m, pos + len(mt.group(0)), hi)
            if kind in ('const', 'static', 'type'):
                # ends at ';' at depth 0 wrt all brackets
                k = pos
                depth = 0
                while k < hi:
                    c = self.m[k]
                    if c in '([{':
                        depth += 1
                    elif c in ')]}':
                        depth -= 1
                    elif c == ';' and depth == 0:
                        break
                    k += 1
                end, he = k + 1, k
            elif ch == '{':
                end = match_close(self.m, he) + 1
            else:
                end = he + 1
            st, attrs = _attrs_before(self.src, self.m, pos, lo)
            out.append(Item(self.rel, kind, name, self.src, self.m, pos, end, he, attrs, container))
        return out

    def get(self, path):
        """path: list like ['impl System', 'fn advance_clock'] or ['struct System'] or
        ['mod foo', 'fn bar'].  impl/trait/mod elements are containers."""
        ranges = [(0, len(self.src), None)]
        for i, el in enumerate(path):
            el = el.strip()
            last = i == len(path) - 1
            if el.startswith('impl'):
                kind, name = 'impl', re.escape(' '.join(el.split())) + r'(?![\w])'
            else:
                kind, _, name = el.partition(' ')
                name = name.strip()
            nxt = []
            found = []
            for lo, hi, cont in ranges:
                if kind == 'impl':
                    its = self.impls(name if name else r'.', lo, hi)
                    # 'impl X' spec: header must match regex r'^impl(<[^>]*>)? NAME' loosely
                else:
                    its = self.find(kind, name, lo, hi, cont)
                for it in its:
                    if last:
                        found.append(it)
                    else:
                        nxt.append((it.hdr_end + 1, it.end - 1, it))
            if last:
                if not found:
                    raise ScanError('item not found: %s :: %s' % (self.rel, ' :: '.join(path)))
                # skip #[cfg(test)] items
                f2 = [f for f in found if not any(('cfg(test)' in a or 'cfg(any(test' in a) for a in f.attrs)]
                if len(f2) > 1:
                    raise ScanError('ambiguous item (%d matches): %s :: %s' % (len(f2), self.rel, ' :: '.join(path)))
                if not f2:
                    raise ScanError('item only found under cfg(test): %s :: %s' % (self.rel, ' :: '.join(path)))
                return f2[0]
            if not nxt:
                raise ScanError('container not found: %s :: %s' % (self.rel, ' :: '.join(path[:i + 1])))
            ranges = nxt
        raise ScanError('empty path')


def find_loops(body_masked):
    """positions of loop keywords (while/for/loop) in a masked fn body, in textual order, with the
    index of the '{' opening each loop body.  `for` inside `impl .. for` / HRTB is not expected in
    bodies."""
    res = []
    for mt in re.finditer(r'(?<![\w.])(while|for|loop)\b', body_masked):
        kw = mt.group(1)
        pos = mt.start()
        if kw == 'for' and re.match(r'for\s*<', body_masked[pos:]):
            continue
        # header end: first '{' at ()/[] depth 0
        depth = 0
        k = mt.end()
        brace = None
        while k < len(body_masked):
            ch = body_masked[k]
            if ch in '([':
                depth += 1
            elif ch in ')]':
                depth -= 1
            elif ch == '{' and depth == 0:
                brace = k
                break
            elif ch == ';' and depth == 0:
                break
            k += 1
        if brace is not None:
            res.append((kw, pos, brace))
    return res
