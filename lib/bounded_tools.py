"""Bounded stand-ins that run a small Rust tool built against the CURRENT tree (path deps on the
repo).  Labelled bounded in the evidence and never counted as proved."""
import os, subprocess, time, re


def build_tool(repo, verif, name, release=False):
    """copies tools/<name> into .gen/<name>/crate with its /repo/ path deps pointed at `repo`, builds it
    into the shared .cache/target and returns the binary path"""
    tool = os.path.join(verif, 'tools', name)
    crate = os.path.join(verif, '.gen', name, 'crate')
    os.makedirs(os.path.join(crate, 'src'), exist_ok=True)
    cargo = open(os.path.join(tool, 'Cargo.toml')).read().replace('/repo/', repo.rstrip('/') + '/')
    open(os.path.join(crate, 'Cargo.toml'), 'w').write(cargo)
    for root, _dirs, files in os.walk(os.path.join(tool, 'src')):
        rel = os.path.relpath(root, os.path.join(tool, 'src'))
        os.makedirs(os.path.join(crate, 'src', rel), exist_ok=True)
        for fn in files:
            if fn.endswith('.rs'):
                open(os.path.join(crate, 'src', rel, fn), 'w').write(open(os.path.join(root, fn)).read())
    open(os.path.join(crate, 'Cargo.lock'), 'w').write(open(os.path.join(repo, 'Cargo.lock')).read())
    env = dict(os.environ)
    env['CARGO_TARGET_DIR'] = os.path.join(verif, '.cache', 'target')
    env['CARGO_NET_OFFLINE'] = 'true'
    p = subprocess.run(['cargo', 'build', '--offline', '--quiet'] + (['--release'] if release else []), cwd=crate, env=env, stdout=subprocess.PIPE, stderr=subprocess.STDOUT, text=True)
    if p.returncode != 0:
        return None, p.stdout[-800:]
    return os.path.join(env['CARGO_TARGET_DIR'], 'release' if release else 'debug', name), ''


def check_libpath(prop, tier, repo, verif):
    t0 = time.time()
    n = 7 if tier == 'thorough' else 6
    res = {'unit': 'bounded:libpath_decode', 'engine': 'bounded exhaustive run of the real decoder (tools/pathprobe)', 'status': 'ok',
           'failures': [], 'undecided': [], 'bounded': True,
           'bound': 'LibraryPath::read_from on every byte string of length <= %d over a 12-byte alphabet (# : s y e x c a 1 _ and a 2-byte UTF-8 char)' % n}
    binp, err = build_tool(repo, verif, 'pathprobe')
    if binp is None:
        res['status'] = 'undecided'
        res['undecided'].append('pathprobe does not build against the current tree: ' + err)
        return res
    p = subprocess.run([binp, str(n)], stdout=subprocess.PIPE, stderr=subprocess.PIPE, text=True)
    out = p.stdout
    m = re.search(r'SUMMARY inputs=(\d+) accepted=(\d+) failures=(\d+)', out)
    if not m:
        res['status'] = 'undecided'
        res['undecided'].append('pathprobe gave no summary: ' + (out + p.stderr)[-400:])
        return res
    res['inputs'] = int(m.group(1))
    for ln in out.split('\n'):
        if ln.startswith('FAIL '):
            _, hx, what = ln.split(' ', 2)
            res['failures'].append({'obligation': '%s/bounded/libpath_decode#%s' % (prop, what.split(' ')[0]),
                                    'message': 'LibraryPath::read_from: ' + what, 'rendered': ln, 'origins': ['assembly/src/library/path.rs'],
                                    'failing_input': {'bytes_hex': hx, 'cmd': '.cache/target/debug/serdeprobe libpath %s' % hx}})
    if int(m.group(3)) > 0:
        res['status'] = 'fail'
    res['wall_s'] = round(time.time() - t0, 1)
    res['checker_cmd'] = 'tools/pathprobe %d (built against the current tree): %s inputs' % (n, m.group(1))
    return res


def check_memory(prop, tier, repo, verif):
    t0 = time.time()
    n = 3 if tier == 'thorough' else 2
    res = {'unit': 'bounded:memory_model', 'engine': 'bounded exhaustive run of the real memory chiplet (tools/memprobe)', 'status': 'ok',
           'failures': [], 'undecided': [], 'bounded': True,
           'bound': 'every sequence of <= %d accesses (read, read_double, write, write_element, write_double) over 3 contexts x 3 addresses x 2 words, compared with zero-initialised word RAM' % n}
    binp, err = build_tool(repo, verif, 'memprobe')
    if binp is None:
        res['status'] = 'undecided'
        res['undecided'].append('memprobe does not build against the current tree: ' + err)
        return res
    p = subprocess.run([binp, str(n)], stdout=subprocess.PIPE, stderr=subprocess.PIPE, text=True)
    m = re.search(r'SUMMARY sequences=(\d+) failures=(\d+)', p.stdout)
    if not m:
        res['status'] = 'undecided'
        res['undecided'].append('memprobe gave no summary (panic?): ' + (p.stdout + p.stderr)[-400:])
        return res
    for ln in p.stdout.split('\n'):
        if ln.startswith('FAIL '):
            res['failures'].append({'obligation': '%s/bounded/memory_model#T-mem' % prop, 'message': 'memory chiplet deviates from word RAM',
                                    'rendered': ln, 'origins': ['processor/src/chiplets/memory/mod.rs', 'processor/src/chiplets/memory/segment.rs'],
                                    'failing_input': {'access_sequence': ln[5:300], 'cmd': '.cache/target/debug/memprobe %d' % n}})
    if int(m.group(2)) > 0:
        res['status'] = 'fail'
    res['wall_s'] = round(time.time() - t0, 1)
    res['checker_cmd'] = 'tools/memprobe %d (built against the current tree): %s access sequences' % (n, m.group(1))
    return res


def check_binding(prop, tier, repo, verif):
    t0 = time.time()
    res = {'unit': 'bounded:seed_binding', 'engine': 'bounded run of the real PublicInputs::to_elements (tools/bindprobe)', 'status': 'ok',
           'failures': [], 'undecided': [], 'bounded': True,
           'bound': 'statements with 0..3 kernel procedures x {0,1,3,16} inputs x 0..2 overflow outputs; every single-field alteration must change the seed elements (injectivity only)'}
    binp, err = build_tool(repo, verif, 'bindprobe')
    if binp is None:
        res['status'] = 'undecided'
        res['undecided'].append('bindprobe does not build against the current tree: ' + err)
        return res
    p = subprocess.run([binp], stdout=subprocess.PIPE, stderr=subprocess.PIPE, text=True)
    m = re.search(r'SUMMARY alterations=(\d+) failures=(\d+)', p.stdout)
    if not m:
        res['status'] = 'undecided'
        res['undecided'].append('bindprobe gave no summary (panic?): ' + (p.stdout + p.stderr)[-400:])
        return res
    for ln in p.stdout.split('\n'):
        if ln.startswith('FAIL '):
            res['failures'].append({'obligation': '%s/bounded/seed_binding#injective' % prop, 'message': 'an altered statement yields the same Fiat-Shamir seed elements',
                                    'rendered': ln, 'origins': ['air/src/lib.rs', 'core/src/program/info.rs', 'core/src/stack/inputs.rs', 'core/src/stack/outputs.rs'],
                                    'failing_input': {'statement_and_alteration': ln[5:300], 'cmd': '.cache/target/debug/bindprobe'}})
    if int(m.group(2)) > 0:
        res['status'] = 'fail'
    res['wall_s'] = round(time.time() - t0, 1)
    res['checker_cmd'] = 'tools/bindprobe (built against the current tree): %s alterations' % m.group(1)
    return res


def check_proof_bytes(prop, tier, repo, verif):
    t0 = time.time()
    head, tail, stride = (256, 64, 64) if tier == 'thorough' else (64, 32, 2048)
    res = {'unit': 'bounded:proof_bytes', 'engine': 'bounded run of the real prover / ExecutionProof::from_bytes / verify (tools/proofprobe)', 'status': 'ok',
           'failures': [], 'undecided': [], 'bounded': True,
           'bound': 'one real proof; every bit flip in the first %d and last %d bytes, bit 0 of every %d-th byte in between, 9 truncations, 4 ways of appending bytes after the proof; required: no panic, no acceptance' % (head, tail, stride)}
    binp, err = build_tool(repo, verif, 'proofprobe')
    if binp is None:
        res['status'] = 'undecided'
        res['undecided'].append('proofprobe does not build against the current tree: ' + err)
        return res
    p = subprocess.run([binp, str(head), str(tail), str(stride)], stdout=subprocess.PIPE, stderr=subprocess.PIPE, text=True)
    m = re.search(r'SUMMARY proof_len=(\d+) presentations=(\d+) failures=(\d+)', p.stdout)
    if not m:
        res['status'] = 'undecided'
        res['undecided'].append('proofprobe gave no summary: ' + (p.stdout + p.stderr)[-400:])
        return res
    n = int(m.group(1))
    seen = set()
    for ln in p.stdout.split('\n'):
        mm = re.match(r'FAIL kind=(\w+) offset=(\d+) bit=(-?\d+) (.*)', ln)
        if not mm:
            continue
        kind, off, bit, detail = mm.group(1), int(mm.group(2)), mm.group(3), mm.group(4)
        if prop == 'C19' and kind == 'accepted':
            continue        # C19 is about decoding (no panic, re-encodable); acceptance of altered proofs is C02
        where = 'offset-%d' % off if off < n // 2 else 'offset-from-end-%d' % (n - off)
        if bit == '-2':
            where = 'appended-bytes'
        slug = re.sub(r'[^a-z0-9]+', '-', detail.lower()).strip('-')[:48]
        ob = '%s/bounded/proof_bytes#%s:%s:%s' % (prop, kind, where, slug)
        if ob in seen:
            continue
        seen.add(ob)
        res['failures'].append({'obligation': ob, 'message': 'corrupted proof bytes: %s (%s)' % (kind, detail), 'rendered': ln,
                                'origins': ['air/src/proof.rs', 'verifier/src/lib.rs'],
                                'failing_input': {'flip': ('%d bytes appended to the serialised proof of `begin push.3 push.4 add drop end`' % (off - n)) if bit == '-2' else 'byte %d bit %s of the serialised proof of `begin push.3 push.4 add drop end`' % (off, bit),
                                                  'cmd': '.cache/target/debug/proofprobe %d %d %d' % (head, tail, stride)}})
    if res['failures']:
        res['status'] = 'fail'
    res['wall_s'] = round(time.time() - t0, 1)
    res['checker_cmd'] = 'tools/proofprobe %d %d %d (built against the current tree): %s presentations' % (head, tail, stride, m.group(2))
    return res


def check_u64_grid(prop, tier, repo, verif):
    t0 = time.time()
    n = 7 if tier == 'thorough' else 5
    res = {'unit': 'bounded:u64_boundary_grid', 'engine': 'bounded run of the real assembler + processor on std::math::u64 and std::math::u256 (tools/u64probe)', 'status': 'ok',
           'failures': [], 'undecided': [], 'bounded': True,
           'bound': 'all 29 u64 procedures on every operand pair with limbs from a %d-value boundary set (0, 1, 2^31, 2^32-2, 2^32-1%s), shifts/rotations on all amounts 0..63, compared with native arithmetic incl. a sentinel below the operands; all 8 u256 procedures (add/sub/mul_unsafe, and, or, xor, eq_unsafe, iszero_unsafe) on 72 x 72 operand patterns (all-zero, all-ones, single boundary limbs in every position, half-full, alternating, 40 fixed pseudo-random boundary mixes) against limb-wise big-integer arithmetic' % (n, ', 2, 2^31-1' if n == 7 else '')}
    binp, err = build_tool(repo, verif, 'u64probe', release=True)
    if binp is None:
        res['status'] = 'undecided'
        res['undecided'].append('u64probe does not build against the current tree: ' + err)
        return res
    p = subprocess.run([binp, str(n)], stdout=subprocess.PIPE, stderr=subprocess.PIPE, text=True)
    m = re.search(r'SUMMARY executions=(\d+) failures=(\d+)', p.stdout)
    if not m:
        res['status'] = 'undecided'
        res['undecided'].append('u64probe gave no summary: ' + (p.stdout + p.stderr)[-400:])
        return res
    seen = set()
    for ln in p.stdout.split('\n'):
        mm = re.match(r'FAIL ([\w:]+) (.*)', ln)
        if not mm or mm.group(1) in seen:
            continue
        seen.add(mm.group(1))
        pname = mm.group(1) if '::' in mm.group(1) else 'u64::' + mm.group(1)
        res['failures'].append({'obligation': '%s/bounded/u64_boundary_grid#%s' % (prop, pname), 'message': '%s deviates from the integer function' % pname,
                                'rendered': ln, 'origins': ['stdlib/asm/math/u64.masm', 'stdlib/asm/math/u256.masm'],
                                'failing_input': {'case': mm.group(2)[:300], 'cmd': '.cache/target/release/u64probe %d' % n}})
    if res['failures']:
        res['status'] = 'fail'
    res['wall_s'] = round(time.time() - t0, 1)
    res['checker_cmd'] = 'tools/u64probe %d (built against the current tree): %s executions' % (n, m.group(1))
    return res


def check_step_iterator(prop, tier, repo, verif):
    t0 = time.time()
    res = {'unit': 'bounded:step_iterator', 'engine': 'bounded run of the real processor: execute / execute_iter (tools/iterprobe)', 'status': 'ok',
           'failures': [], 'undecided': [], 'bounded': True,
           'bound': '6 programs (stack overflow, deep inputs, while loop, call with a deep caller stack, memory + locals, clk): re-run, expected-cycles hints 64/128/1024/4096, debug-mode assembly; every clock of execute_iter forward and backward against the main trace'}
    binp, err = build_tool(repo, verif, 'iterprobe')
    if binp is None:
        res['status'] = 'undecided'
        res['undecided'].append('iterprobe does not build against the current tree: ' + err)
        return res
    p = subprocess.run([binp], stdout=subprocess.PIPE, stderr=subprocess.PIPE, text=True)
    m = re.search(r'SUMMARY programs=(\d+) checks=(\d+) failures=(\d+)', p.stdout)
    if not m:
        res['status'] = 'undecided'
        res['undecided'].append('iterprobe gave no summary (panic?): ' + (p.stdout + p.stderr)[-400:])
        return res
    seen = set()
    for ln in p.stdout.split('\n'):
        mm = re.match(r'FAIL (\S+) (\S+) clk=(\d+) (.*)', ln)
        if not mm or mm.group(2) in seen:
            continue
        seen.add(mm.group(2))
        res['failures'].append({'obligation': '%s/bounded/step_iterator#%s' % (prop, mm.group(2)), 'message': 'step iterator / determinism check: ' + mm.group(2),
                                'rendered': ln, 'origins': ['processor/src/debug.rs', 'processor/src/stack/mod.rs', 'processor/src/stack/overflow.rs'],
                                'failing_input': {'program': mm.group(1), 'clk': int(mm.group(3)), 'detail': mm.group(4)[:200], 'cmd': '.cache/target/debug/iterprobe'}})
    if res['failures']:
        res['status'] = 'fail'
    res['wall_s'] = round(time.time() - t0, 1)
    res['checker_cmd'] = 'tools/iterprobe (built against the current tree): %s checks' % m.group(2)
    return res


def check_hints(prop, tier, repo, verif):
    t0 = time.time()
    mh = 65 if tier == 'thorough' else 34
    res = {'unit': 'bounded:hint_soundness', 'engine': 'bounded run of the real processor with a DISHONEST host (tools/hintprobe)', 'status': 'ok',
           'failures': [], 'undecided': [], 'bounded': True,
           'bound': 'u32clz/ctz/clo/cto (~120 operands x hints 0..%d, 2^32, 2^32+5, p-31, p-1), ilog2 (~75 operands x hints 0..64), u64 div/mod/divmod (8 operand pairs x 12 wrong (q, r) families), ext2inv (4 operands x 3 wrong inverses), ext2div (5 operand pairs x 10 wrong inverses of the divisor incl. inverses scaled by (1 - t, t)), mtree_get (path shorter than the depth); a completed run must leave the correct result' % mh}
    binp, err = build_tool(repo, verif, 'hintprobe')
    if binp is None:
        res['status'] = 'undecided'
        res['undecided'].append('hintprobe does not build against the current tree: ' + err)
        return res
    p = subprocess.run([binp, str(mh)], stdout=subprocess.PIPE, stderr=subprocess.PIPE, text=True)
    m = re.search(r'SUMMARY runs=(\d+) failures=(\d+)', p.stdout)
    if not m:
        res['status'] = 'undecided'
        res['undecided'].append('hintprobe gave no summary (panic?): ' + (p.stdout + p.stderr)[-400:])
        return res
    seen = set()
    for ln in p.stdout.split('\n'):
        mm = re.match(r'FAIL (\S+) (\S+) (.*)', ln)
        if not mm or (mm.group(1), mm.group(2)) in seen:
            continue
        seen.add((mm.group(1), mm.group(2)))
        kind = mm.group(2).rstrip(':')
        res['failures'].append({'obligation': '%s/bounded/hint_soundness#%s:%s' % (prop, mm.group(1), kind), 'message': '%s: %s' % (mm.group(1), kind),
                                'rendered': ln, 'origins': ['assembly/src/assembler/instruction', 'processor/src/operations/crypto_ops.rs', 'stdlib/asm/math/u64.masm'],
                                'failing_input': {'case': mm.group(3)[:300], 'cmd': '.cache/target/debug/hintprobe %d' % mh}})
    if res['failures']:
        res['status'] = 'fail'
    res['wall_s'] = round(time.time() - t0, 1)
    res['checker_cmd'] = 'tools/hintprobe %d (built against the current tree): %s runs' % (mh, m.group(1))
    return res


def check_prove_grid(prop, tier, repo, verif):
    t0 = time.time()
    res = {'unit': 'bounded:prove_grid', 'engine': 'bounded run of the real prover and verifier (tools/provegrid)', 'status': 'ok',
           'failures': [], 'undecided': [], 'bounded': True,
           'bound': ('straight-line programs of 54..66 and 120..128 swaps (trace lengths around 2^6 and 2^7, exact-fit included), a loop, deep outputs, a call; all four option sets on two programs'
                     if tier == 'thorough' else 'straight-line programs of 58..62 and 124 swaps (exact-fit 2^k - 1 included), a loop, deep outputs, a call, chiplet-dominated traces (hperm + mem_load) with every chiplets length in 2^6 - 3 .. 2^6 + 2; default options') + '; prove, verify, byte round trip, reported security level'}
    binp, err = build_tool(repo, verif, 'provegrid')
    if binp is None:
        res['status'] = 'undecided'
        res['undecided'].append('provegrid does not build against the current tree: ' + err)
        return res
    p = subprocess.run([binp] + (['thorough'] if tier == 'thorough' else []), stdout=subprocess.PIPE, stderr=subprocess.PIPE, text=True)
    m = re.search(r'SUMMARY proofs=(\d+) failures=(\d+)', p.stdout)
    if not m:
        res['status'] = 'undecided'
        res['undecided'].append('provegrid gave no summary: ' + (p.stdout + p.stderr)[-400:])
        return res
    for ln in p.stdout.split('\n'):
        mm = re.match(r'FAIL (\S+) (\S+) (.*)', ln)
        if not mm:
            continue
        res['failures'].append({'obligation': '%s/bounded/prove_grid#%s:%s' % (prop, mm.group(1), mm.group(2)), 'message': 'successful execution not provable / verifiable: ' + mm.group(3)[:120],
                                'rendered': ln, 'origins': ['processor/src/trace/mod.rs', 'prover/src/lib.rs', 'verifier/src/lib.rs', 'air/src/options.rs'],
                                'failing_input': {'program': mm.group(1), 'options': mm.group(2), 'cmd': '.cache/target/debug/provegrid'}})
    if res['failures']:
        res['status'] = 'fail'
    res['wall_s'] = round(time.time() - t0, 1)
    res['checker_cmd'] = 'tools/provegrid (built against the current tree): %s proofs' % m.group(1)
    return res


# (operation, cell) pairs the main transition constraints of this version are NOT documented to pin:
LEFT_SHIFT_OPS = {'ASSERT', 'EQ', 'ADD', 'MUL', 'AND', 'OR', 'U32AND', 'U32XOR', 'FRIE2F4', 'DROP', 'CSWAP', 'CSWAPW', 'MLOADW', 'MSTORE',
                  'MSTOREW', 'FMPUPDATE', 'U32ADD3', 'U32MADD', 'SPLIT', 'LOOP', 'REPEAT', 'END', 'DYN'}
RIGHT_SHIFT_OPS = {'PAD', 'DUP0', 'DUP1', 'DUP2', 'DUP3', 'DUP4', 'DUP5', 'DUP6', 'DUP7', 'DUP9', 'DUP11', 'DUP13', 'DUP15', 'ADVPOP', 'SDEPTH',
                   'CLK', 'U32SPLIT', 'PUSH'}
BUS_CELLS = {   # values delivered through a chiplet bus, the op-group table or the advice provider (aux columns / not enforced)
    'U32AND': ['s0'], 'U32XOR': ['s0'], 'MLOAD': ['s0'], 'MLOADW': ['s0', 's1', 's2', 's3'], 'PUSH': ['s0'], 'ADVPOP': ['s0'],
    'ADVPOPW': ['s0', 's1', 's2', 's3'], 'HPERM': ['s%d' % i for i in range(12)], 'MRUPDATE': ['s0', 's1', 's2', 's3'],
    'MSTREAM': ['s%d' % i for i in range(8)], 'PIPE': ['s%d' % i for i in range(8)], 'CALLER': ['s0', 's1', 's2', 's3'],
}


def air_cell_expected(op, cell):
    """documented reason why perturbing `cell` of the NEXT row after `op` need not violate a main transition constraint"""
    if cell == 'h0':
        return 'h0 is a helper of its own row: checked by the transition in which that row is the current one'
    if cell == 'fmp' and op != 'FMPUPDATE':
        return 'fmp constancy is carried by the decoder / block stack table, whose constraints this AIR version does not include (only FMPUPDATE pins fmp\')'
    if cell == 'b1' and op not in RIGHT_SHIFT_OPS:
        return 'b1\' after a left shift comes from the overflow table (aux column p1); without a shift it is tied through p1 as well'
    if cell == 's15' and op in LEFT_SHIFT_OPS:
        return 's15\' after a left shift comes from the overflow table (aux column p1)'
    if cell in BUS_CELLS.get(op, []):
        return 'delivered through a chiplet bus / op-group table / advice provider'
    return None


def check_air_cells(prop, tier, repo, verif):
    t0 = time.time()
    res = {'unit': 'bounded:air_cell_coverage', 'engine': 'bounded fault enumeration with the real ProcessorAir::evaluate_transition (tools/airprobe)', 'status': 'ok',
           'failures': [], 'undecided': [], 'bounded': True,
           'bound': '5 programs covering 77 operations (field, u32, stack manipulation, system, memory, control flow); every row pair of the real traces; each of the 21 cells s0..s15, b0, b1, h0, clk, fmp of the next row incremented by one; an (operation, cell) pair counts as enforced when at least one occurrence is rejected'}
    binp, err = build_tool(repo, verif, 'airprobe')
    if binp is None:
        res['status'] = 'undecided'
        res['undecided'].append('airprobe does not build against the current tree: ' + err)
        return res
    p = subprocess.run([binp], stdout=subprocess.PIPE, stderr=subprocess.PIPE, text=True)
    m = re.search(r'SUMMARY rows=(\d+) ops=(\d+) pairs=(\d+) unenforced=(\d+) honest_rejected=(\d+)', p.stdout)
    if not m:
        res['status'] = 'undecided'
        res['undecided'].append('airprobe gave no summary (panic?): ' + (p.stdout + p.stderr)[-400:])
        return res
    expected = 0
    for ln in p.stdout.split('\n'):
        if ln.startswith('HONEST-ROW-REJECTED'):
            res['failures'].append({'obligation': '%s/bounded/air_cell_coverage#honest-row-rejected' % prop, 'message': 'an honest transition violates a main transition constraint',
                                    'rendered': ln, 'origins': ['air/src/constraints'], 'failing_input': {'row': ln, 'cmd': '.cache/target/debug/airprobe'}})
        mm = re.match(r'UNENFORCED (\S+) (\S+)', ln)
        if not mm:
            continue
        op, cell = mm.group(1), mm.group(2)
        if air_cell_expected(op, cell):
            expected += 1
            continue
        res['failures'].append({'obligation': '%s/bounded/air_cell_coverage#%s:%s' % (prop, op, cell), 'message': 'a wrong value in cell %s after %s satisfies every main transition constraint' % (cell, op),
                                'rendered': ln, 'origins': ['air/src/constraints/stack/op_flags/mod.rs', 'air/src/constraints/stack/mod.rs'],
                                'failing_input': {'operation': op, 'cell': cell, 'perturbation': 'next-row cell + 1 on an honest row pair', 'cmd': '.cache/target/debug/airprobe'}})
    res['expected_unenforced_pairs'] = expected
    if res['failures']:
        res['status'] = 'fail'
    res['wall_s'] = round(time.time() - t0, 1)
    res['checker_cmd'] = 'tools/airprobe (built against the current tree): %s rows, %s (operation, cell) pairs' % (m.group(1), m.group(3))
    return res


def check_ast_roundtrip(prop, tier, repo, verif):
    t0 = time.time()
    res = {'unit': 'bounded:ast_roundtrip', 'engine': 'bounded run of the real parser / serialiser / deserialiser / assembler / processor (tools/astprobe)', 'status': 'ok',
           'failures': [], 'undecided': [], 'bounded': True,
           'bound': '750 instruction forms (every mnemonic, boundary immediates) as ProgramAst and as ModuleAst, 35 + 22 container shapes (counts / name lengths / docs / imports / re-exports at the u8 / u16 edges), 8 MaslLibrary shapes (+3 constructor edge cases), 17 executed programs, Kernel / ProgramInfo / StackInputs / StackOutputs sizes; each: to_bytes -> from_bytes -> equality, byte fix-point, source locations written and reloaded, recompilation to the same MAST root'}
    binp, err = build_tool(repo, verif, 'astprobe')
    if binp is None:
        res['status'] = 'undecided'
        res['undecided'].append('astprobe does not build against the current tree: ' + err)
        return res
    p = subprocess.run([binp], stdout=subprocess.PIPE, stderr=subprocess.PIPE, text=True)
    m = re.search(r'SUMMARY checks=(\d+) failures=(\d+)', p.stdout)
    if not m:
        res['status'] = 'undecided'
        res['undecided'].append('astprobe gave no summary (panic?): ' + (p.stdout + p.stderr)[-400:])
        return res
    seen = set()
    for ln in p.stdout.split('\n'):
        mm = re.match(r'FAIL \[(\S+)\] (.*?) :: (.*)', ln)
        if not mm:
            continue
        group, what, detail = mm.group(1), mm.group(2), mm.group(3)
        # one obligation per (group, instruction mnemonic / case): boundary immediates of one form collapse
        key = (group, re.sub(r'[=.][0-9a-fx.]+$', '', what)[:80])
        if key in seen:
            continue
        seen.add(key)
        if detail.startswith('HARNESS'):
            res['undecided'].append('astprobe harness precondition failed for %s %s: %s' % (group, what, detail[:200]))
            continue
        res['failures'].append({'obligation': '%s/bounded/ast_roundtrip#%s:%s' % (prop, group, key[1]), 'message': 'serialisation round trip: [%s] %s' % (group, what),
                                'rendered': ln[:1500], 'origins': ['assembly/src/ast/nodes/serde', 'assembly/src/ast/mod.rs', 'assembly/src/ast/imports.rs', 'assembly/src/library/masl.rs', 'core/src'],
                                'failing_input': {'group': group, 'case': what[:400], 'detail': detail[:600], 'cmd': '.cache/target/debug/astprobe'}})
    if res['failures']:
        res['status'] = 'fail'
    elif res['undecided']:
        res['status'] = 'undecided'
    res['wall_s'] = round(time.time() - t0, 1)
    res['checker_cmd'] = 'tools/astprobe (built against the current tree): %s checks' % m.group(1)
    return res


def check_ast_shapes(prop, tier, repo, verif):
    t0 = time.time()
    res = {'unit': 'bounded:ast_shapes', 'engine': 'bounded run of the real parser / AST + library serialisers / assembler (tools/astshapes, adapted from the second C10 sub-agent\'s demo; release build)', 'status': 'ok',
           'failures': [], 'undecided': [], 'bounded': True,
           'bound': '12658 sources: every chain of if / if-else / while / repeat to depth 3 with 0-3 instructions before and after on every level (as program, export and proc bodies), sibling blocks, repeat counts up to 2^32-1, locals 0..65535, docs of 0..65535 bytes on modules / procedures / re-exports, 0..65535 procedures, imports and re-exports with aliases and long paths, every decorator form inside each block kind, 252 MaslLibrary instances, Kernel / ProgramInfo / StackInputs / StackOutputs; each serialised with and without imports, decoded, all bytes consumed, equal, byte fix-point, locations written and reloaded (strict, node by node), recompiled with and without debug mode to the same MAST root'}
    binp, err = build_tool(repo, verif, 'astshapes', release=True)
    if binp is None:
        res['status'] = 'undecided'
        res['undecided'].append('astshapes does not build against the current tree: ' + err)
        return res
    p = subprocess.run([binp], stdout=subprocess.PIPE, stderr=subprocess.PIPE, text=True)
    m = re.search(r'SUMMARY cases=(\d+) checks=(\d+) failures=(\d+)', p.stdout)
    if not m:
        res['status'] = 'undecided'
        res['undecided'].append('astshapes gave no summary (panic?): ' + (p.stdout + p.stderr)[-500:])
        return res
    seen = set()
    for ln in p.stdout.split('\n'):
        mm = re.match(r'FAILCASE (\S+) :: (.*?) :: (.*)', ln)
        if not mm:
            continue
        family, desc, detail = mm.groups()
        if family == 'nested-locations-not-restored':
            key = 'nested-locations:'
        else:
            key = '%s:%s' % (family, re.sub(r'[^A-Za-z0-9.]+', '-', desc).strip('-')[:70])
        if key in seen or len(seen) > 40:
            continue
        seen.add(key)
        res['failures'].append({'obligation': '%s/bounded/ast_shapes#%s' % (prop, key), 'message': 'serialisation round trip of [%s] %s: %s' % (family, desc[:200], detail[:300]),
                                'rendered': ln[:1800], 'origins': ['assembly/src/ast/nodes/serde', 'assembly/src/ast/mod.rs', 'assembly/src/ast/code_body.rs', 'assembly/src/ast/imports.rs', 'assembly/src/library/masl.rs', 'core/src'],
                                'failing_input': {'family': family, 'case': desc[:400], 'detail': detail[:900], 'cmd': '.cache/target/release/astshapes'}})
    if int(m.group(3)) and not [f for f in res['failures'] if 'nested-locations' not in f['obligation']]:
        res['failures'].append({'obligation': '%s/bounded/ast_shapes#failures' % prop, 'message': '%s failures' % m.group(3), 'rendered': p.stdout[-800:], 'origins': []})
    if res['failures']:
        res['status'] = 'fail'
    res['wall_s'] = round(time.time() - t0, 1)
    res['checker_cmd'] = 'tools/astshapes (built against the current tree): %s sources, %s checks' % (m.group(1), m.group(2))
    return res


def check_decoder_mutations_full(prop, tier, repo, verif):
    t0 = time.time()
    nrand = 1000000 if tier == 'thorough' else 300000
    res = {'unit': 'bounded:decoder_mutations_full', 'engine': 'bounded run of the real decoders / serialisers / assembler (tools/decodefull, adapted from the third C19 sub-agent\'s demo; release build with debug assertions and overflow checks)', 'status': 'ok',
           'failures': [], 'undecided': [], 'bounded': True,
           'bound': '134 valid encodings (ProgramAst / ModuleAst shapes with and without imports and source locations, ProcedureAst, ProcReExport, ModuleImports, LibraryPath, LibraryNamespace, ProcedureName, ProcedureId, Version, Node, Instruction, AdviceInjectorNode, docs / labels / paths of MAXIMAL length, 3 MaslLibraries, Kernel, ProgramInfo, StackInputs, StackOutputs) x every byte set to 0x00 / 0xff / +1 / -1 and every bit flip (first and last 300 offsets + every integer field for encodings over 4 KiB), truncations, insertions, deletions, every integer field (found with a tracing reader) rewritten to 0, 1, 2, max/2, max/2+1, max-1, max and p-1, p, p+1 = 187054 mutants, plus %d pseudo-random short strings to all 20 decoders; per accepted value: re-serialise (a panic is a failure), decode again, equal, stable bytes; integer constructors with p-1, p, p+1, 2^64-1 in every position' % nrand}
    binp, err = build_tool(repo, verif, 'decodefull', release=True)
    if binp is None:
        res['status'] = 'undecided'
        res['undecided'].append('decodefull does not build against the current tree: ' + err)
        return res
    env = dict(os.environ)
    env['C19_RANDOM_INPUTS'] = str(nrand)
    wd = os.path.join(verif, '.gen', 'decodefull')
    p = subprocess.run([binp], stdout=subprocess.PIPE, stderr=subprocess.PIPE, text=True, env=env, cwd=wd)
    m = re.search(r'SUMMARY seeds=(\d+) mutants=(\d+) random=(\d+) failures=(\d+)', p.stdout)
    if not m:
        res['status'] = 'undecided'
        res['undecided'].append('decodefull gave no summary (abort?): ' + (p.stdout + p.stderr)[-500:])
        return res
    seen = set()
    for ln in p.stdout.split('\n'):
        mm = re.match(r'FAILCASE (\S+) :: (.*?) :: (.*?) :: (.*?) :: (.*)', ln)
        if not mm:
            continue
        codec, stage, detail, origin, hx = mm.groups()
        key = '%s:%s' % (codec, re.sub(r'[^A-Za-z0-9]+', '-', stage).strip('-')[:60])
        if key in seen:
            continue
        seen.add(key)
        res['failures'].append({'obligation': '%s/bounded/decoder_mutations_full#%s' % (prop, key), 'message': '%s: %s (%s) on %s' % (codec, stage, detail[:200], origin[:200]),
                                'rendered': ln[:1800], 'origins': ['assembly/src/ast', 'assembly/src/library', 'assembly/src/procedures/mod.rs', 'core/src/program', 'core/src/stack', 'processor/src/host/advice/inputs.rs'],
                                'failing_input': {'decoder': codec, 'problem': stage, 'detail': detail[:400], 'origin': origin[:300], 'bytes_hex': hx[:900], 'cmd': '.cache/target/release/decodefull'}})
    if int(m.group(4)) and not res['failures']:
        res['failures'].append({'obligation': '%s/bounded/decoder_mutations_full#failures' % prop, 'message': '%s failing inputs' % m.group(4), 'rendered': p.stdout[-800:], 'origins': []})
    if res['failures']:
        res['status'] = 'fail'
    res['wall_s'] = round(time.time() - t0, 1)
    res['checker_cmd'] = 'tools/decodefull (built against the current tree): %s seeds, %s mutants, %s random inputs' % (m.group(1), m.group(2), m.group(3))
    return res


def check_int_grid(prop, tier, repo, verif):
    t0 = time.time()
    nrand = 200000 if tier == 'thorough' else 20000
    res = {'unit': 'bounded:int_grid_full', 'engine': 'bounded run of the real assembler + processor on the build-time stdlib (tools/intgrid, adapted from the third C16 sub-agent\'s demo; release build)', 'status': 'ok',
           'failures': [], 'undecided': [], 'bounded': True,
           'bound': 'every export of std::math::u64 (29) and std::math::u256 (8), each with an independent u128 / two-u128 reference (self-checked against a schoolbook implementation): u64 on all 9^4 limb pairs from {0, 1, 2, 2^16-1, 2^16, 2^31-1, 2^31, 2^32-2, 2^32-1}, the 9^2 grid x shift / rotation amounts 0..64, zero divisors; u256: one limb position x 9 values x 9 backgrounds, every pair of limb positions x 81 x 9, carry / borrow chains of every start and length, block products, {0,1,2^32-1}^8 for iszero; %d seeded random cases per procedure in 5 modes (random, equal limbs, boundary mix, {0,1,2^32-1} limbs, equal except one limb); 0..12 random elements below the operands; the COMPLETE final stack is compared' % nrand}
    binp, err = build_tool(repo, verif, 'intgrid', release=True)
    if binp is None:
        res['status'] = 'undecided'
        res['undecided'].append('intgrid does not build against the current tree: ' + err)
        return res
    p = subprocess.run([binp, '--threads', '10', '--random', str(nrand)], stdout=subprocess.PIPE, stderr=subprocess.PIPE, text=True)
    m = re.search(r'SUMMARY cases=(\d+) procedures_failing=(\d+) baseline_deviations=(\d+)', p.stdout)
    if not m:
        res['status'] = 'undecided'
        res['undecided'].append('intgrid gave no summary (panic?): ' + (p.stdout + p.stderr)[-500:])
        return res
    for ln in p.stdout.split('\n'):
        mm = re.match(r'FAILCASE (\S+) :: (.*?) :: (.*)', ln)
        if not mm:
            continue
        proc, count, detail = mm.groups()
        res['failures'].append({'obligation': '%s/bounded/int_grid_full#%s' % (prop, proc), 'message': '%s deviates from its integer function: %s' % (proc, count),
                                'rendered': ln[:1800], 'origins': ['stdlib/asm/math/u64.masm', 'stdlib/asm/math/u256.masm'],
                                'failing_input': {'procedure': proc, 'first_mismatch': detail[:1200], 'cmd': '.cache/target/release/intgrid --only %s' % proc}})
    if res['failures']:
        res['status'] = 'fail'
    res['wall_s'] = round(time.time() - t0, 1)
    res['checker_cmd'] = 'tools/intgrid --random %d (built against the current tree): %s executions; %s excluded cases are the documented-behaviour notes (rotl / rotr by 64 do not fail - outside the quantifier 0..63; u256::mul_unsafe leaves extra zeros at the bottom of a stack at minimum depth)' % (nrand, m.group(1), m.group(3))
    return res


def check_statement_binding_full(prop, tier, repo, verif):
    t0 = time.time()
    step = 1 if tier == 'thorough' else 6
    res = {'unit': 'bounded:statement_binding_full', 'engine': 'bounded run of the real prover and verifier (tools/bindfull, adapted from the third C02 sub-agent\'s demo; release build)', 'status': 'ok',
           'failures': [], 'undecided': [], 'bounded': True,
           'bound': '%d proved programs (0 / 1 / 3 kernel procedures x 0, 1, 5, 16, 17, 24 stack inputs x final depth 16, 17, 20, 33, the four presets in rotation%s); every honest statement verifies; verify() must return Err (a panic is a failure, the known winter-air header panics F15 excepted and counted) for every single-field alteration: each stack input (+1, 0, swapped, appended / removed elements), each output position and overflow element, each overflow address, the overflow list lengthened / shortened, each program-hash element, each kernel procedure hash (altered, removed, duplicated, added, kernel swapped / emptied), the hash-function tag set to each of the other 255 values, option bytes replaced by weaker ones or by another preset\'s, 50 truncations, 3 extensions, 2000 bit flips incl. every byte of the first 200; 66 honestly generated proofs from 3 hash functions x 11 parameter sets x 2 programs: exactly the 8 documented combinations verify' % (72 if step == 1 else 12, '' if step == 1 else '; every 6th of the 72-program family, all 72 in the thorough tier')}
    binp, err = build_tool(repo, verif, 'bindfull', release=True)
    if binp is None:
        res['status'] = 'undecided'
        res['undecided'].append('bindfull does not build against the current tree: ' + err)
        return res
    env = dict(os.environ)
    env['DEMO_THREADS'] = '10'
    env['DEMO_SPEC_STEP'] = str(step)
    try:
        p = subprocess.run([binp], stdout=subprocess.PIPE, stderr=subprocess.PIPE, text=True, env=env, timeout=3600)
    except subprocess.TimeoutExpired:
        res['status'] = 'undecided'
        res['undecided'].append('bindfull timed out')
        return res
    m = re.search(r'SUMMARY programs=(\d+) checked=(\d+) rejected=(\d+) failures=(\d+) known_header_panics=(\d+)', p.stdout)
    if not m:
        res['status'] = 'undecided'
        res['undecided'].append('bindfull gave no summary (panic?): ' + (p.stdout + p.stderr)[-500:])
        return res
    seen = set()
    for ln in p.stdout.split('\n'):
        mm = re.match(r'FAILCASE FAIL \[(.*?)\] (.*?)(?:: (.*))?$', ln)
        if not mm:
            continue
        case, category, detail = mm.group(1), mm.group(2), mm.group(3) or ''
        key = re.sub(r'[^A-Za-z0-9]+', '-', category).strip('-')[:70]
        if key in seen:
            continue
        seen.add(key)
        res['failures'].append({'obligation': '%s/bounded/statement_binding_full#%s' % (prop, key), 'message': 'an altered statement / proof was accepted or verification panicked: %s: %s' % (category, detail[:300]),
                                'rendered': ln[:1800], 'origins': ['verifier/src/lib.rs', 'air/src/lib.rs', 'air/src/proof.rs', 'air/src/options.rs', 'air/src/constraints/stack/mod.rs', 'core/src/stack', 'core/src/program/info.rs'],
                                'failing_input': {'program': case[:300], 'alteration': (category + ': ' + detail)[:900], 'cmd': 'DEMO_SPEC_STEP=%d .cache/target/release/bindfull' % step}})
    if int(m.group(4)) and not res['failures']:
        res['failures'].append({'obligation': '%s/bounded/statement_binding_full#failures' % prop, 'message': '%s failures' % m.group(4), 'rendered': p.stdout[-800:], 'origins': []})
    if res['failures']:
        res['status'] = 'fail'
    res['wall_s'] = round(time.time() - t0, 1)
    res['checker_cmd'] = 'tools/bindfull (built against the current tree): %s programs proved, %s alterations checked, %s rejected, %s known header panics (F15) excluded' % (m.group(1), m.group(2), m.group(3), m.group(5))
    return res


def check_asm_full(prop, tier, repo, verif):
    t0 = time.time()
    ngraphs = 24 if tier == 'thorough' else 6
    res = {'unit': 'bounded:asm_reference_full', 'engine': 'bounded run of the real assembler + processor (tools/asmfull, adapted from the second C11 sub-agent\'s demo; release build with debug assertions)', 'status': 'ok',
           'failures': [], 'undecided': [], 'bounded': True,
           'bound': '(1) 521 parameter-boundary sources: for every instruction with a parameter the last valid and first invalid value, 0 and the type maximum (ranges from docs/src/user_docs/assembly); (2) 1635 forbidden-construct x context sources (undefined procedure, call / syscall / caller where forbidden, export in an executable, zero divisor immediates; in program bodies, local procs, library exports, kernel exports, kernel-internal procs; directly / through exec / through a re-export); (3) %d generated library graphs (2-5 modules, imports, re-exports, same body under different names, same name in different modules, nested exec / call / procref chains) x programs x every history of up to 3 earlier compilations x every library order: identical result (same MAST root / same success or failure) and every assembled program executes without a missing procedure; (4) two directed history probes (X1 failing module with a re-export, X2 equal MAST roots with different call sets)' % ngraphs}
    binp, err = build_tool(repo, verif, 'asmfull', release=True)
    if binp is None:
        res['status'] = 'undecided'
        res['undecided'].append('asmfull does not build against the current tree: ' + err)
        return res
    try:
        p = subprocess.run([binp, str(ngraphs)], stdout=subprocess.PIPE, stderr=subprocess.PIPE, text=True, timeout=3600)
    except subprocess.TimeoutExpired:
        res['status'] = 'undecided'
        res['undecided'].append('asmfull timed out')
        return res
    m = re.search(r'SUMMARY graphs=(\d+) parts_ok=(\d+)', p.stdout)
    if not m:
        res['status'] = 'undecided'
        res['undecided'].append('asmfull gave no summary (panic?): ' + (p.stdout + p.stderr)[-500:])
        return res
    seen = set()
    for ln in p.stdout.split('\n'):
        mm = re.match(r'FAILCASE (\S+) :: (.*)', ln)
        if not mm:
            continue
        part, detail = mm.groups()
        head = re.match(r'(\[[^\]]*\]\s*)?(.{0,60})', detail)
        key = '%s:%s' % (part, re.sub(r'[^A-Za-z0-9]+', '-', (head.group(1) or '') + (head.group(2) or '')).strip('-')[:70])
        if key in seen or len(seen) > 30:
            continue
        seen.add(key)
        res['failures'].append({'obligation': '%s/bounded/asm_reference_full#%s' % (prop, key), 'message': 'assembler deviates (%s): %s' % (part, detail[:400]),
                                'rendered': ln[:1800], 'origins': ['assembly/src/assembler', 'assembly/src/procedures/mod.rs', 'assembly/src/library'],
                                'failing_input': {'part': part, 'case': detail[:1400], 'cmd': '.cache/target/release/asmfull %d' % ngraphs}})
    if m.group(2) != '111' and not [f for f in res['failures'] if not re.search(r'#x[12]:', f['obligation'])]:
        res['failures'].append({'obligation': '%s/bounded/asm_reference_full#failures' % prop, 'message': 'a part failed: parts_ok=%s' % m.group(2), 'rendered': p.stdout[-800:], 'origins': []})
    if res['failures']:
        res['status'] = 'fail'
    res['wall_s'] = round(time.time() - t0, 1)
    cm = re.search(r'\[part3\] (\d+) library graphs, (\d+) \(graph, library order\) combinations, (\d+) compilations', p.stdout)
    res['checker_cmd'] = 'tools/asmfull %d (built against the current tree): %s' % (ngraphs, cm.group(0) if cm else '')
    return res


def check_trace_validate(prop, tier, repo, verif):
    t0 = time.time()
    step = 1 if tier == 'thorough' else 3
    res = {'unit': 'bounded:trace_validate', 'engine': 'bounded run of the real assembler, processor and ProcessorAir with winter-prover\'s own Trace::validate (tools/tracecheck, adapted from the C03 sub-agent\'s demo; release build)', 'status': 'ok',
           'failures': [], 'undecided': [], 'bounded': True,
           'bound': '%s of 11234 generated programs in 16 families (every instruction reachable from assembly with boundary operands in every position, immediates, stack manipulation, io, crypto incl. Merkle operations on advice-provided stores, 0..40 elements through the overflow table across spans / loops / calls / syscalls, control flow, kernels with 0 / 1 / several procedures, memory accesses over 8 boundary addresses x root / call / nested call / syscall contexts x clock gaps from 1 to > 2^16, range-checker tables with small / large / maximal gaps, chiplet-dominated traces, cycle / range / chiplet lengths at 2^k - 3 .. 2^k + 2 for k = 6..12, stdlib procedures, 400 seeded random programs); each executed with expected-cycle hints 64, 0, 2^10, 2^16 (same length and main segment required); trace-length clause checked directly (power of two, minimal, >= cycles + 1 / range table / chiplet rows + random row); ProcessorAir built from the trace info and the public inputs, auxiliary segment built for 2-3 pseudo-random challenge vectors in the quadratic extension, every boundary assertion and every transition constraint (main and auxiliary) evaluated on every non-exempt row' % ('all' if step == 1 else 'every 3rd')}
    binp, err = build_tool(repo, verif, 'tracecheck', release=True)
    if binp is None:
        res['status'] = 'undecided'
        res['undecided'].append('tracecheck does not build against the current tree: ' + err)
        return res
    env = dict(os.environ)
    env['DEMO_THREADS'] = '10'
    env['DEMO_STEP'] = str(step)
    try:
        p = subprocess.run([binp], stdout=subprocess.PIPE, stderr=subprocess.PIPE, text=True, env=env, timeout=7200)
    except subprocess.TimeoutExpired:
        res['status'] = 'undecided'
        res['undecided'].append('tracecheck timed out')
        return res
    m = re.search(r'SUMMARY programs=(\d+) validated=(\d+) failures=(\d+) undefined_u32=(\d+) known=(\d+) exec_errors=(\d+) panics=(\d+)', p.stdout)
    if not m:
        res['status'] = 'undecided'
        res['undecided'].append('tracecheck gave no summary (panic?): ' + (p.stdout + p.stderr)[-500:])
        return res
    seen = set()
    for ln in p.stdout.split('\n'):
        mm = re.match(r'FAILCASE (\S+) :: (.*?) :: (.*?) :: (.*)', ln)
        if not mm:
            continue
        family, name, msg, rest = mm.groups()
        cons = re.search(r'(main|auxiliary) transition constraint (\d+)|assertion (main|aux)_trace\((\d+)|trace length|hint', msg)
        key = '%s:%s' % (family, re.sub(r'[^A-Za-z0-9]+', '-', cons.group(0) if cons else msg[:40]).strip('-'))
        if key in seen or len(seen) > 40:
            continue
        seen.add(key)
        res['failures'].append({'obligation': '%s/bounded/trace_validate#%s' % (prop, key), 'message': 'the honest trace of a successful execution violates the AIR / the trace-length clause: [%s] %s: %s' % (family, name[:200], msg[:300]),
                                'rendered': ln[:1800], 'origins': ['processor/src/trace', 'processor/src/operations', 'processor/src/stack', 'processor/src/range', 'processor/src/chiplets', 'processor/src/decoder', 'processor/src/system/mod.rs', 'air/src'],
                                'failing_input': {'family': family, 'case': name[:300], 'violation': msg[:400], 'program_and_inputs': rest[:1600], 'cmd': 'DEMO_FILTER=<family> .cache/target/release/tracecheck'}})
    if int(m.group(3)) and not [f for f in res['failures'] if not re.search(r'#(undefined-u32|known)', f['obligation'])]:
        res['failures'].append({'obligation': '%s/bounded/trace_validate#failures' % prop, 'message': '%s failing programs' % m.group(3), 'rendered': p.stdout[-800:], 'origins': []})
    if res['failures']:
        res['status'] = 'fail'
    res['wall_s'] = round(time.time() - t0, 1)
    res['checker_cmd'] = 'DEMO_STEP=%d tools/tracecheck (built against the current tree): %s programs, %s traces validated, %s executions returned an error (outside the property)' % (step, m.group(1), m.group(2), m.group(6))
    return res


def check_lookup_balance(prop, tier, repo, verif):
    t0 = time.time()
    nrand = 1500 if tier == 'thorough' else 400
    res = {'unit': 'bounded:lookup_balance', 'engine': 'bounded run of the real assembler + processor with Trace::build_aux_segment (tools/lookupcheck, adapted from the C12 sub-agent\'s demo; release build)', 'status': 'ok',
           'failures': [], 'undecided': [], 'bounded': True,
           'bound': '%d generated programs (every operation that talks to a chiplet with boundary operands: hperm, mtree_get / set / merge / verify on advice-provided trees of depth 1..8, u32and / u32xor, all memory operations across root / call / nested call / syscall / dyncall contexts, mstream / pipe / rcomb_base; spans of 1..3 batches with every push pattern (RESPAN); join / split / loop (0, 1, n iterations) / call / syscall / dyn nestings to depth 4; kernels with 0 / 1 / 3 procedures called 0 / 1 / many times; 0..40 elements through the overflow table; %d seeded random programs); 3 pseudo-random challenge vectors in the quadratic extension each; checked: the initial and the terminal value (last row before the random rows) of all 7 auxiliary columns against the documented ones, and an INDEPENDENT recount from the main segment alone (raw column indices): multiset of chiplet-bus requests of the decoder / stack rows == multiset of responses in the hasher / bitwise / memory / kernel-ROM rows, 16-bit range checks requested == range-checker table multiplicities, stack overflow table rows' % (7133 + nrand, nrand)}
    binp, err = build_tool(repo, verif, 'lookupcheck', release=True)
    if binp is None:
        res['status'] = 'undecided'
        res['undecided'].append('lookupcheck does not build against the current tree: ' + err)
        return res
    try:
        p = subprocess.run([binp, '--random', str(nrand)], stdout=subprocess.PIPE, stderr=subprocess.PIPE, text=True, timeout=7200)
    except subprocess.TimeoutExpired:
        res['status'] = 'undecided'
        res['undecided'].append('lookupcheck timed out')
        return res
    m = re.search(r'SUMMARY programs=(\d+) executed=(\d+) rows=(\d+) findings=(\d+) invalid=(\d+)', p.stdout)
    if not m:
        res['status'] = 'undecided'
        res['undecided'].append('lookupcheck gave no summary (panic?): ' + (p.stdout + p.stderr)[-500:])
        return res
    seen = set()
    for ln in p.stdout.split('\n'):
        mm = re.match(r'FAILCASE (\S+) :: (.*?) :: (.*?) :: (.*)', ln)
        if not mm:
            continue
        kind, what, detail, rest = mm.groups()
        if kind == 'invalid':
            res['undecided'].append('lookupcheck generator: ' + detail[:300])
            continue
        if kind == 'K9':
            continue      # the generated program itself violates a documented precondition of RCOMBBASE: not a defect
        if kind == 'finding':
            key = 'finding:%s' % re.sub(r'[^A-Za-z0-9]+', '-', what).strip('-')[:70]
        else:
            key = '%s:' % kind
        if key in seen or len(seen) > 40:
            continue
        seen.add(key)
        res['failures'].append({'obligation': '%s/bounded/lookup_balance#%s' % (prop, key), 'message': 'an auxiliary column misses its specified value / a lookup multiset is unbalanced: %s: %s' % (what[:120], detail[:400]),
                                'rendered': ln[:1800], 'origins': ['processor/src/chiplets/aux_trace/mod.rs', 'processor/src/decoder/aux_trace', 'processor/src/stack/aux_trace.rs', 'processor/src/range', 'processor/src/trace/utils.rs', 'processor/src/chiplets', 'air/src/trace/main_trace.rs'],
                                'failing_input': {'class': kind, 'case': what[:300], 'violation': detail[:600], 'program_and_inputs': rest[:1600], 'cmd': '.cache/target/release/lookupcheck --random %d' % nrand}})
    if int(m.group(4)) and not [f for f in res['failures'] if '#finding:' in f['obligation']]:
        res['failures'].append({'obligation': '%s/bounded/lookup_balance#failures' % prop, 'message': '%s findings' % m.group(4), 'rendered': p.stdout[-800:], 'origins': []})
    if res['failures']:
        res['status'] = 'fail'
    elif res['undecided']:
        res['status'] = 'undecided'
    res['wall_s'] = round(time.time() - t0, 1)
    res['checker_cmd'] = 'tools/lookupcheck --random %d (built against the current tree): %s programs executed, %s main-trace rows inspected' % (nrand, m.group(2), m.group(3))
    return res


def check_stepping_full(prop, tier, repo, verif):
    t0 = time.time()
    res = {'unit': 'bounded:determinism_stepping_full', 'engine': 'bounded run of the real assembler + processor incl. execute_iter (tools/stepfull, adapted from the third C14 sub-agent\'s demo; release build)', 'status': 'ok',
           'failures': [], 'undecided': [], 'bounded': True,
           'bound': '461 generated programs (straight-line code of 12..15432 cycles so that the trace components are reallocated 0..6 times, loops, calls / syscalls / dyncalls with memory and locals in several contexts, addresses >= 2^31, same-address accesses in consecutive cycles, stacks deeper than 16 across calls, every decorator and most advice injectors at every position of a span, clk at many positions, stdlib u64 / hashing procedures) x 88 configurations (11 expected-cycle hints 64..2^16 x tracing on / off x release / debug assembly x no-op / recording host): identical outputs, trace length and main segment cell by cell, decorator-free twin gives the identical trace, two runs agree; stepping with execute_iter forward, backward and in 200 seeded random next / back sequences: op, top 16 + depth, fmp, ctx and the memory of the current context at every visited clock against row t of the trace and a memory image replayed from the memory chiplet rows; every clk instruction pushes its clock (about 7 million comparisons)'}
    binp, err = build_tool(repo, verif, 'stepfull', release=True)
    if binp is None:
        res['status'] = 'undecided'
        res['undecided'].append('stepfull does not build against the current tree: ' + err)
        return res
    try:
        p = subprocess.run([binp], stdout=subprocess.PIPE, stderr=subprocess.PIPE, text=True, timeout=7200)
    except subprocess.TimeoutExpired:
        res['status'] = 'undecided'
        res['undecided'].append('stepfull timed out')
        return res
    m = re.search(r'SUMMARY programs=(\d+) checks=(\d+) failures=(\d+) probe_failures=(\d+) generator_errors=(\d+)', p.stdout)
    if not m:
        res['status'] = 'undecided'
        res['undecided'].append('stepfull gave no summary (panic?): ' + (p.stdout + p.stderr)[-500:])
        return res
    if int(m.group(5)):
        res['undecided'].append('stepfull: %s generated programs do not assemble' % m.group(5))
    seen = set()
    for ln in p.stdout.split('\n'):
        mm = re.match(r'FAILCASE (\S+) :: (.*?) :: (.*?) :: (.*)', ln)
        if not mm:
            continue
        kind, name, what, detail = mm.groups()
        fam = name.split('/')[0]
        key = '%s:%s:%s' % (kind, fam, re.sub(r'[^A-Za-z0-9]+', '-', re.sub(r'\(.*?\)', '', what)).strip('-')[:60])
        if key in seen or len(seen) > 30:
            continue
        seen.add(key)
        res['failures'].append({'obligation': '%s/bounded/determinism_stepping_full#%s' % (prop, key), 'message': '[%s] %s: %s' % (name, what, detail[:300]),
                                'rendered': ln[:1800], 'origins': ['processor/src/debug.rs', 'processor/src/lib.rs', 'processor/src/system/mod.rs', 'processor/src/stack', 'processor/src/chiplets/memory', 'assembly/src/assembler/span_builder.rs'],
                                'failing_input': {'program': name, 'check': what[:200], 'detail': detail[:1500], 'cmd': '.cache/target/release/stepfull %s' % name}})
    if int(m.group(3)) and not [f for f in res['failures'] if '#fail:' in f['obligation']]:
        res['failures'].append({'obligation': '%s/bounded/determinism_stepping_full#failures' % prop, 'message': '%s failing checks' % m.group(3), 'rendered': p.stdout[-800:], 'origins': []})
    if res['failures']:
        res['status'] = 'fail'
    elif res['undecided']:
        res['status'] = 'undecided'
    res['wall_s'] = round(time.time() - t0, 1)
    res['checker_cmd'] = 'tools/stepfull (built against the current tree): %s programs, %s comparisons' % (m.group(1), m.group(2))
    return res


def check_decoder_model_full(prop, tier, repo, verif):
    t0 = time.time()
    res = {'unit': 'bounded:decoder_model_full', 'engine': 'bounded run of the real processor against an independent decoder model written from docs/src/design/decoder/{main,constraints}.md and programs.md (tools/decfull, adapted from the fourth C13 sub-agent\'s demo; release build)', 'status': 'ok',
           'failures': [], 'undecided': [], 'bounded': True,
           'bound': '112190 programs, about 15 million decoder rows: 42 assembled from MASM; spans with every PUSH-immediate mask up to length 10, structured / random masks for lengths 11..80, batch-boundary sweeps (7-group non-last batches, an immediate in the last slot of a batch, spans ending exactly on a batch boundary); control-flow shapes to depth 3 (incl. dyncall) under 6 decision policies and to depth 4 (span / join / split / loop / call / syscall / dyn) under 2; 4000 seeded random programs; compared per row: operation and the 7 op bits (+ extra columns), block address, h0..h7 on block-start / END / RESPAN / HALT rows (child hashes, block hash, is_loop_body / is_loop / is_call / is_syscall), h0 h1 on operation rows, in_span, group_count, op_index, op-batch flags, the op reported per clock by VmStateIterator and the stack outputs'}
    binp, err = build_tool(repo, verif, 'decfull', release=True)
    if binp is None:
        res['status'] = 'undecided'
        res['undecided'].append('decfull does not build against the current tree: ' + err)
        return res
    try:
        p = subprocess.run([binp], stdout=subprocess.PIPE, stderr=subprocess.PIPE, text=True, timeout=3600)
    except subprocess.TimeoutExpired:
        res['status'] = 'undecided'
        res['undecided'].append('decfull timed out')
        return res
    m = re.search(r'SUMMARY cases=(\d+) compared=(\d+) rows=(\d+) failures=(\d+) dyn_cells=(\d+) end_flag_cells=(\d+)', p.stdout)
    if not m:
        res['status'] = 'undecided'
        res['undecided'].append('decfull gave no summary (panic?): ' + (p.stdout + p.stderr)[-500:])
        return res
    seen = set()
    for ln in p.stdout.split('\n'):
        mm = re.match(r'FAILCASE (\S+) :: (.*?) :: (.*?) :: (.*)', ln)
        if not mm:
            continue
        fam, name, msg, rest = mm.groups()
        col = re.search(r'column (\w+)|expected operation `(\w+)`|(stack outputs|VmStateIterator|trace length)', msg)
        key = '%s' % re.sub(r'[^A-Za-z0-9]+', '-', (col.group(0) if col else msg[:50])).strip('-')
        if key in seen or len(seen) > 30:
            continue
        seen.add(key)
        res['failures'].append({'obligation': '%s/bounded/decoder_model_full#%s' % (prop, key), 'message': 'decoder trace deviates from the documented model: [%s] %s: %s' % (fam, name[:200], msg[:300]),
                                'rendered': ln[:1800], 'origins': ['processor/src/lib.rs', 'processor/src/decoder/mod.rs', 'processor/src/decoder/trace.rs', 'processor/src/decoder/block_stack.rs', 'core/src/program/blocks/span_block.rs'],
                                'failing_input': {'family': fam, 'case': name[:300], 'deviation': msg[:400], 'program_and_inputs': rest[:1600], 'cmd': '.cache/target/release/decfull'}})
    if int(m.group(4)) and not res['failures']:
        res['failures'].append({'obligation': '%s/bounded/decoder_model_full#failures' % prop, 'message': '%s programs deviate' % m.group(4), 'rendered': p.stdout[-800:], 'origins': []})
    if res['failures']:
        res['status'] = 'fail'
    res['wall_s'] = round(time.time() - t0, 1)
    res['checker_cmd'] = 'tools/decfull (built against the current tree): %s programs compared, %s decoder rows; %s DYN-row cells carry the callee hash where the docs say zeros (F65, noted under C12; outside C13 as stated: the operation stream, nesting, group counters and the final hash are not affected); %s END-row block-type flag cells (h4..h7) deviate (noted, not part of C13 as stated)' % (m.group(2), m.group(3), m.group(5), m.group(6))
    return res


def check_air_fault_enum(prop, tier, repo, verif):
    t0 = time.time()
    res = {'unit': 'bounded:air_fault_enumeration', 'engine': 'fault enumeration through the real ProcessorAir::evaluate_transition / evaluate_aux_transition on honest traces of the real processor (tools/airenum, adapted from the fourth C04 sub-agent\'s demo; release build)', 'status': 'ok',
           'failures': [], 'undecided': [], 'bounded': True,
           'bound': '540 programs (every operation at depth 16 / 17 / > 17 with empty and non-empty overflow table; hperm, hmerge, mtree_get / set / merge / verify; u32and / u32xor with boundary operands; memory reads / writes across contexts, addresses and clock gaps incl. first access, same-address re-access in consecutive cycles, context change, address change, gaps > 2^16; range-checker tables with every delta 0, 1, 3, ..., 3^7), 166216 row pairs, about 1.06 million enforced cells (stack positions, b0 b1 h0, clk fmp ctx, u32 helper registers, every column of the three chiplets and of the range checker incl. selectors and the rows at chiplet boundaries) x substitutions v+1, v-1, 0, 1, p-1, flipped bits 0 / 16 / 31, neighbouring cells and rows = 8.3 million substitutions, 3 challenge vectors for the LogUp column; required: at least one main or auxiliary transition constraint becomes non-zero; every honest row pair evaluates to zero; cells the documentation leaves to a bus / the advice provider / the decoder are excluded with a doc reference'}
    binp, err = build_tool(repo, verif, 'airenum', release=True)
    if binp is None:
        res['status'] = 'undecided'
        res['undecided'].append('airenum does not build against the current tree: ' + err)
        return res
    wd = os.path.join(verif, '.gen', 'airenum')
    try:
        p = subprocess.run([binp, '--threads', '10'], stdout=subprocess.PIPE, stderr=subprocess.PIPE, text=True, timeout=7200, cwd=wd)
    except subprocess.TimeoutExpired:
        res['status'] = 'undecided'
        res['undecided'].append('airenum timed out')
        return res
    m = re.search(r'SUMMARY undetected_enforced=(\d+) preexisting=(\d+) excluded=(\d+) honest_fail=(\d+)', p.stdout)
    if not m:
        res['status'] = 'undecided'
        res['undecided'].append('airenum gave no summary (panic?): ' + (p.stdout + p.stderr)[-500:])
        return res
    for ln in p.stdout.split('\n'):
        mm = re.match(r'FAILCASE (\S+) :: (.*?) :: (.*?) :: (.*)', ln)
        if not mm:
            continue
        kind, cls, count, first = mm.groups()
        if kind == 'free' and cls.startswith('stack position after CALLER'):
            continue      # CALLER / DYN / SYSCALL / MSTREAM / PIPE / FRIE2F4 / RCOMBBASE are outside the operation classes C04 names ("documented to enforce directly")
        key = '%s:%s' % (kind, re.sub(r'[^A-Za-z0-9]+', '-', cls).strip('-')[:90])
        res['failures'].append({'obligation': '%s/bounded/air_fault_enumeration#%s' % (prop, key), 'message': 'an enforced cell can be altered without any transition constraint becoming non-zero: %s (%s)' % (cls[:300], count),
                                'rendered': ln[:1800], 'origins': ['air/src/constraints', 'air/src/lib.rs'],
                                'failing_input': {'class': cls[:400], 'count': count, 'first': first[:900], 'cmd': '.cache/target/release/airenum --threads 10'}})
    if res['failures']:
        res['status'] = 'fail'
    res['wall_s'] = round(time.time() - t0, 1)
    res['checker_cmd'] = 'tools/airenum (built against the current tree): %s undetected substitutions into enforced cells, %s in the classes of cells the unchanged code leaves free, %s in cells the documentation excludes' % (m.group(1), m.group(2), m.group(3))
    return res


def check_mast_hash_reference(prop, tier, repo, verif):
    t0 = time.time()
    res = {'unit': 'bounded:mast_hash_reference', 'engine': 'bounded run of the real CodeBlock constructors / assembler / processor against an independent implementation of the MAST hash written from docs/src/design/programs.md on top of miden-crypto\'s RPO (tools/mastref, adapted from the fourth C08 sub-agent\'s demo; release build)', 'status': 'ok',
           'failures': [], 'undecided': [], 'bounded': True,
           'bound': 'about 1.08 million checks, 69109 distinct roots: spans with EVERY push / non-push pattern up to length 12, every length 1..160 with structured and random push positions, immediates in every slot, spans around 1..4 full batches +- 1 operation; join chains of 1..9 siblings, if / else with empty branches, while, repeat, nesting to depth 4, call / syscall / dyncall / dynexec, procedures with 0..4 locals - built directly with the CodeBlock constructors and assembled from MASM in release and debug mode; per node: expected hash (own batching + RPO hash_elements / merge_in_domain) == CodeBlock::hash(), groups and number of groups, op batches decoded back to the operation sequence up to NOOP padding; invariance (comments, whitespace, renaming, debug mode, each decorator kind at each position) and sensitivity (each operation / immediate replaced, no two sequences share a root); execute(): trace.program_hash() == program.hash()'}
    binp, err = build_tool(repo, verif, 'mastref', release=True)
    if binp is None:
        res['status'] = 'undecided'
        res['undecided'].append('mastref does not build against the current tree: ' + err)
        return res
    try:
        p = subprocess.run([binp], stdout=subprocess.PIPE, stderr=subprocess.PIPE, text=True, timeout=7200)
    except subprocess.TimeoutExpired:
        res['status'] = 'undecided'
        res['undecided'].append('mastref timed out')
        return res
    m = re.search(r'SUMMARY checks=(\d+) failures=(\d+) roots=(\d+)', p.stdout)
    if not m:
        res['status'] = 'undecided'
        res['undecided'].append('mastref gave no summary (panic?): ' + (p.stdout + p.stderr)[-500:])
        return res
    for ln in p.stdout.split('\n'):
        mm = re.match(r'FAILCASE (\S+) :: (.*)', ln)
        if not mm:
            continue
        cat, detail = mm.groups()
        if len(res['failures']) > 30:
            break
        res['failures'].append({'obligation': '%s/bounded/mast_hash_reference#%s' % (prop, re.sub(r'[^A-Za-z0-9<=]+', '-', cat).strip('-')[:80]), 'message': 'the program / block hash deviates from the documented MAST hash: [%s] %s' % (cat, detail[:400]),
                                'rendered': ln[:1800], 'origins': ['core/src/program/blocks', 'core/src/operations/mod.rs', 'assembly/src/assembler/mod.rs', 'assembly/src/assembler/span_builder.rs', 'processor/src/lib.rs'],
                                'failing_input': {'category': cat, 'first_failure': detail[:1600], 'cmd': '.cache/target/release/mastref'}})
    if int(m.group(2)) and not res['failures']:
        res['failures'].append({'obligation': '%s/bounded/mast_hash_reference#failures' % prop, 'message': '%s failing checks' % m.group(2), 'rendered': p.stdout[-800:], 'origins': []})
    if res['failures']:
        res['status'] = 'fail'
    res['wall_s'] = round(time.time() - t0, 1)
    res['checker_cmd'] = 'tools/mastref (built against the current tree): %s checks, %s distinct roots' % (m.group(1), m.group(3))
    return res


def check_context_reference_full(prop, tier, repo, verif):
    t0 = time.time()
    variants = 16 if tier == 'thorough' else 6
    res = {'unit': 'bounded:context_reference_full', 'engine': 'bounded run of the real assembler + processor against an independent reference model of contexts, memory, locals and stack visibility written from docs/src/user_docs/assembly/{execution_contexts,io_operations,code_organization,flow_control}.md (tools/ctxfull, adapted from the fourth C07 sub-agent\'s demo; release build)', 'status': 'ok',
           'failures': [], 'undecided': [], 'bounded': True,
           'bound': '546 nestings of exec / call / syscall / dyncall / dynexec to depth 4 (incl. user procedures reached through dynexec from a kernel procedure) x %d seeded variants each over 0..5 locals per frame, caller depths 16..30, colliding addresses {0, 1, 2, 2^30-1..2^30+9, 2^31-1..2^31+8, 3*2^30-1, 3*2^30, 2^32-2, 2^32-1}, element / word / stream / pipe / local loads and stores, side calls, loops; deliberately failing programs (callee returning with depth != 16, syscall target not in the kernel, caller outside a syscall, address >= 2^32, context creation inside a syscall); compared: complete final stack, failure kind, and the memory of EVERY context (Process::get_mem_state)' % variants}
    binp, err = build_tool(repo, verif, 'ctxfull', release=True)
    if binp is None:
        res['status'] = 'undecided'
        res['undecided'].append('ctxfull does not build against the current tree: ' + err)
        return res
    try:
        p = subprocess.run([binp, str(variants), str(0xC07), '3'], stdout=subprocess.PIPE, stderr=subprocess.PIPE, text=True, timeout=7200)
    except subprocess.TimeoutExpired:
        res['status'] = 'undecided'
        res['undecided'].append('ctxfull timed out')
        return res
    m = re.search(r'SUMMARY programs=(\d+) contexts=(\d+) mismatches=(\d+) generator_errors=(\d+)', p.stdout)
    if not m:
        res['status'] = 'undecided'
        res['undecided'].append('ctxfull gave no summary (panic?): ' + (p.stdout + p.stderr)[-500:])
        return res
    if int(m.group(4)):
        res['undecided'].append('ctxfull: %s generator / harness errors' % m.group(4))
    seen = set()
    for ln in p.stdout.split('\n'):
        mm = re.match(r'FAILCASE mismatch :: (.*?) :: expected (.*?) :: actual (.*)', ln)
        if not mm:
            continue
        descr, exp, act = mm.groups()
        shape = re.sub(r'[^A-Za-z0-9>]+', '-', descr.split('|')[0]).strip('-')[:70]
        if shape in seen or len(seen) > 10:
            continue
        seen.add(shape)
        res['failures'].append({'obligation': '%s/bounded/context_reference_full#%s' % (prop, shape), 'message': 'contexts / memory / locals deviate from the reference model: %s' % descr[:300],
                                'rendered': ln[:1800], 'origins': ['processor/src/system/mod.rs', 'processor/src/decoder/mod.rs', 'processor/src/stack/mod.rs', 'processor/src/chiplets/memory', 'processor/src/operations/io_ops.rs', 'processor/src/operations/sys_ops.rs', 'processor/src/lib.rs', 'assembly/src/assembler'],
                                'failing_input': {'program': descr[:600], 'expected': exp[:400], 'actual': act[:400], 'cmd': '.cache/target/release/ctxfull %d' % variants}})
    if int(m.group(3)) and not res['failures']:
        res['failures'].append({'obligation': '%s/bounded/context_reference_full#mismatches' % prop, 'message': '%s mismatches' % m.group(3), 'rendered': p.stdout[-800:], 'origins': []})
    if res['failures']:
        res['status'] = 'fail'
    elif res['undecided']:
        res['status'] = 'undecided'
    res['wall_s'] = round(time.time() - t0, 1)
    res['checker_cmd'] = 'tools/ctxfull %d (built against the current tree): %s programs, %s contexts compared' % (variants, m.group(1), m.group(2))
    return res


def check_hash_invariance(prop, tier, repo, verif):
    t0 = time.time()
    res = {'unit': 'bounded:hash_invariance', 'engine': 'bounded run of the real assembler and processor (tools/hashprobe)', 'status': 'ok',
           'failures': [], 'undecided': [], 'bounded': True,
           'bound': '12 programs (spans, assertions with error codes, if/else, if without else, while, repeat, exec, call, locals + memory, syscall with a kernel, nested control flow, a 2-batch span): comments + whitespace, procedure renaming, debug-mode assembly, 6 decorators (debug.stack, debug.mem, emit, trace, adv.push_mapval, adv.insert_hdword) and breakpoint inserted at every body position in both assembly modes => same MAST root; every single operation / immediate substituted => another root; execute(): trace.program_hash() == program.hash()'}
    binp, err = build_tool(repo, verif, 'hashprobe')
    if binp is None:
        res['status'] = 'undecided'
        res['undecided'].append('hashprobe does not build against the current tree: ' + err)
        return res
    p = subprocess.run([binp], stdout=subprocess.PIPE, stderr=subprocess.PIPE, text=True)
    m = re.search(r'SUMMARY checks=(\d+) failures=(\d+)', p.stdout)
    if not m:
        res['status'] = 'undecided'
        res['undecided'].append('hashprobe gave no summary (panic?): ' + (p.stdout + p.stderr)[-400:])
        return res
    seen = {}
    for ln in p.stdout.split('\n'):
        mm = re.match(r'FAIL (\S+) (\S+) (.*)', ln)
        if not mm:
            continue
        kind, prog, detail = mm.groups()
        if kind.startswith('harness'):
            res['undecided'].append('hashprobe harness precondition failed: %s %s %s' % (kind, prog, detail[:200]))
            continue
        seen.setdefault(kind, []).append((prog, detail))
    for kind, lst in seen.items():
        res['failures'].append({'obligation': '%s/bounded/hash_invariance#%s' % (prop, kind), 'message': 'program hash invariance: %s (%d cases)' % (kind, len(lst)),
                                'rendered': '\n'.join('%s %s' % x for x in lst[:6])[:2000], 'origins': ['assembly/src/assembler/span_builder.rs', 'assembly/src/assembler/mod.rs', 'assembly/src/assembler/instruction/mod.rs', 'core/src/program/blocks'],
                                'failing_input': {'program': lst[0][0], 'case': lst[0][1][:500], 'cases': len(lst), 'cmd': '.cache/target/debug/hashprobe'}})
    if res['failures']:
        res['status'] = 'fail'
    elif res['undecided']:
        res['status'] = 'undecided'
    res['wall_s'] = round(time.time() - t0, 1)
    res['checker_cmd'] = 'tools/hashprobe (built against the current tree): %s checks' % m.group(1)
    return res


def check_ast_decode_edge(prop, tier, repo, verif):
    """hand-picked hostile encodings for the AST decoders, each decoded in its own process (an abort cannot be caught)"""
    t0 = time.time()
    res = {'unit': 'bounded:ast_decode_edge', 'engine': 'bounded run of the real AST decoders, one process per input (tools/serdeprobe)', 'status': 'ok',
           'failures': [], 'undecided': [], 'bounded': True,
           'bound': 'ProgramAst::from_bytes on while-nesting of depth 1, 300 and 20000, on every single byte 0x00..0xff in instruction position, on 12 truncations of a valid program; Instruction::read_from on every single byte; required: exit without panic / abort, accepted values re-encode to an equal value'}
    binp, err = build_tool(repo, verif, 'serdeprobe')
    if binp is None:
        res['status'] = 'undecided'
        res['undecided'].append('serdeprobe does not build against the current tree: ' + err)
        return res
    work = os.path.join(verif, '.gen', 'serdeprobe')
    cases = []
    for depth in (1, 300, 20000):
        cases.append(('program', 'while-nesting-depth-%d' % depth, '0000000100' + 'ff0100' * depth + 'ff0000'))
    for b in range(256):
        cases.append(('program', 'instruction-position-byte', '0000000100%02x' % b))
        cases.append(('instr', 'single-opcode-byte', '%02x' % b))
    valid = '0000000300' + '03' + 'ff0200' + '03' + '09' + 'fe05000000010003'   # add; while(add, sub?); repeat.5(add)
    for cut in range(1, 13):
        cases.append(('program', 'truncation', valid[:2 * cut]))
    n = 0
    seen = set()
    for mode, label, hx in cases:
        n += 1
        arg = hx
        if len(hx) > 4000:
            fn = os.path.join(work, 'case_%s.hex' % label)
            open(fn, 'w').write(hx)
            arg = '@' + fn
        try:
            p = subprocess.run([binp, mode, arg], stdout=subprocess.PIPE, stderr=subprocess.PIPE, text=True, timeout=120)
            rc, out = p.returncode, p.stdout.strip()
        except subprocess.TimeoutExpired:
            rc, out = -999, 'TIMEOUT'
        kind = None
        if rc < 0 or rc in (134, 139):
            kind = 'abort'
        elif out.startswith('PANIC'):
            kind = 'panic'
        elif out.startswith('ROUNDTRIP-MISMATCH'):
            kind = 'reencode-mismatch'
        if kind and (kind, label) not in seen:
            seen.add((kind, label))
            res['failures'].append({'obligation': '%s/bounded/ast_decode_edge#%s:%s' % (prop, kind, label), 'message': 'AST decoder %s on %s' % (kind, label),
                                    'rendered': ('%s %s -> rc=%s %s' % (mode, hx[:80] + ('...' if len(hx) > 80 else ''), rc, out[:300])),
                                    'origins': ['assembly/src/ast/nodes/serde/deserialization.rs', 'assembly/src/ast/program.rs', 'assembly/src/ast/code_body.rs'],
                                    'failing_input': {'decoder': mode, 'hex': hx if len(hx) <= 200 else "'0000000100' + 'ff0100' * %d + 'ff0000'" % ((len(hx) - 16) // 6), 'cmd': '.cache/target/debug/serdeprobe %s <hex>' % mode}})
    if res['failures']:
        res['status'] = 'fail'
    res['wall_s'] = round(time.time() - t0, 1)
    res['checker_cmd'] = 'tools/serdeprobe (built against the current tree): %d inputs, one process each' % n
    return res


def check_decoder_mutations(prop, tier, repo, verif):
    t0 = time.time()
    nrand = 300000 if tier == 'thorough' else 30000
    res = {'unit': 'bounded:decoder_mutations', 'engine': 'bounded run of the real decoders under catch_unwind (tools/decodeprobe, release build with debug assertions and overflow checks)', 'status': 'ok',
           'failures': [], 'undecided': [], 'bounded': True,
           'bound': '60 valid encodings (ProgramAst / ModuleAst shapes with and without imports and source locations, ProcedureAst, Node, ModuleImports, LibraryPath, names, 4 MaslLibraries incl. the stdlib, Kernel, ProgramInfo, StackInputs, StackOutputs) x every byte set to 0x00 / 0xff / +1 / -1 (long encodings: first / last 300 offsets and the length fields), every truncation, insertions / deletions / appended bytes, + %d pseudo-random strings of 0..48 bytes to each of 16 decoders; every accepted value is re-encoded, re-decoded and compared; p-1 / p / p+1 / 2^64-1 in every position of the integer constructors. Proof decoding is covered by proof_bytes' % nrand}
    binp, err = build_tool(repo, verif, 'decodeprobe', release=True)
    if binp is None:
        res['status'] = 'undecided'
        res['undecided'].append('decodeprobe does not build against the current tree: ' + err)
        return res
    env = dict(os.environ)
    env['VERIF_REPO'] = repo.rstrip('/')
    p = subprocess.run([binp, '--no-proof', '--no-hazards', '--random', str(nrand)], stdout=subprocess.PIPE, stderr=subprocess.PIPE, text=True, env=env)
    m = re.search(r'SUMMARY samples=(\d+) decoder_calls=(\d+) failures=(\d+) constructor_failures=(\d+)', p.stdout)
    if not m:
        res['status'] = 'undecided'
        res['undecided'].append('decodeprobe gave no summary: ' + (p.stdout + p.stderr)[-500:])
        return res
    for ln in p.stdout.split('\n'):
        mm = re.match(r'FAIL decoder=(\w+) count=(\d+) :: (.*?) :: shortest=(.*)', ln)
        if not mm:
            continue
        dec, cnt, key, hx = mm.groups()
        slug = re.sub(r'[^a-z0-9]+', '-', key.lower()).strip('-')[:70]
        res['failures'].append({'obligation': '%s/bounded/decoder_mutations#%s:%s' % (prop, dec, slug), 'message': '%s: %s (%s inputs)' % (dec, key[:200], cnt),
                                'rendered': ln[:1500], 'origins': ['assembly/src/ast', 'assembly/src/library', 'core/src/stack', 'core/src/program'],
                                'failing_input': {'decoder': dec, 'shortest_bytes_hex': hx[:1200], 'detail': key[:300], 'cmd': '.cache/target/release/decodeprobe --one %s <hex>' % dec}})
    if res['failures']:
        res['status'] = 'fail'
    res['wall_s'] = round(time.time() - t0, 1)
    res['checker_cmd'] = 'tools/decodeprobe --no-proof --no-hazards --random %d (built against the current tree): %s decoder calls on %s valid encodings' % (nrand, m.group(2), m.group(1))
    return res


def check_immediate_forms(prop, tier, repo, verif):
    """immediate / constant parsing (assembly/src/ast/parsers): outside both verifiers, so a bounded table"""
    t0 = time.time()
    P = 2 ** 64 - 2 ** 32 + 1
    res = {'unit': 'bounded:immediate_forms', 'engine': 'bounded run of the real parser + assembler + processor (tools/runmasm), one process per source', 'status': 'ok',
           'failures': [], 'undecided': [], 'bounded': True,
           'bound': 'about 170 sources: the last valid and first invalid parameter of dup / swap / movup / movdn / dupw / swapw / movupw / movdnw / u32 shifts and rotations / exp.uN / adv_push / memory addresses / u32 division immediates / repeat / local indices, caller outside a kernel, undefined procedure, export in an executable; push in decimal / short big-endian hex / long little-endian hex word at 0, 1, 2^32-1, 2^32, p-1 (accepted) and p, 2^64-1, odd digit counts, 17 values (rejected); value lists in documented order; constants incl. + - * / // ( ) expressions; decimal immediates of add / sub / mul / div / eq / exp at p-1, p and 0; expected values computed from docs/src/user_docs/assembly/io_operations.md and code_organization.md'}
    binp, err = build_tool(repo, verif, 'runmasm')
    if binp is None:
        res['status'] = 'undecided'
        res['undecided'].append('runmasm does not build against the current tree: ' + err)
        return res
    inv2 = pow(2, P - 2, P)
    le = lambda v: ''.join('%02x' % ((v >> (8 * i)) & 0xff) for i in range(8))
    cases = [
        ('push.0', [0]), ('push.1', [1]), ('push.4294967295', [2 ** 32 - 1]), ('push.4294967296', [2 ** 32]), ('push.%d' % (P - 1), [P - 1]),
        ('push.%d' % P, None), ('push.%d' % (2 ** 64 - 1), None), ('push.%d' % (2 ** 64), None),
        ('push.0x00', [0]), ('push.0x7b', [123]), ('push.0x0100', [256]), ('push.0xffffffff', [2 ** 32 - 1]), ('push.0x0100000000', [2 ** 32]),
        ('push.0xffffffff00000000', [P - 1]), ('push.0xffffffff00000001', None), ('push.0xffffffffffffffff', None), ('push.0x1', None), ('push.0x123', None),
        ('push.0x', None), ('push.0xzz', None),
        ('push.0x00001234.0x00005678.0x00009012.0x0000abcd', [0xabcd, 0x9012, 0x5678, 0x1234]),
        ('push.0x341200000000000078560000000000001290000000000000cdab000000000000', [0xabcd, 0x9012, 0x5678, 0x1234]),
        ('push.0x' + le(1) + le(2 ** 32) + le(P - 1) + le(0), [0, P - 1, 2 ** 32, 1]),
        ('push.0x' + le(1) + le(2) + le(P) + le(0), None),
        ('push.0x' + le(1) + le(2) + le(3), None),
        ('push.1.2.3', [3, 2, 1]), ('push.0x0a.11', [11, 10]),
        ('push.' + '.'.join(str(i) for i in range(1, 17)), list(range(16, 0, -1))),
        ('push.' + '.'.join(str(i) for i in range(1, 18)), None),
        ('push.1.%d' % P, None),
    ]
    consts = [
        ('const.A=7', 'push.A', [7]), ('const.A=0x10', 'push.A', [16]), ('const.A=%d' % (P - 1), 'push.A', [P - 1]), ('const.A=%d' % P, 'push.A', None),
        ('const.A=7 const.B=A*3+1', 'push.B', [22]), ('const.A=7 const.B=A//2', 'push.B', [3]), ('const.A=7 const.B=A/2', 'push.B', [7 * inv2 % P]),
        ('const.A=8 const.B=A/2', 'push.B', [4]), ('const.A=7 const.B=(A+1)*(A-2)', 'push.B', [40]), ('const.A=2 const.B=10-A*3', 'push.B', [4]),
        ('const.A=2 const.B=A+A*A', 'push.B', [6]), ('const.A=2**32', 'push.A', None), ('const.A=1+', 'push.A', None), ('const.A=(1+2', 'push.A', None),
        ('const.A=1+2)', 'push.A', None), ('const.A=*3', 'push.A', None), ('const.A=()', 'push.A', None), ('const.A=((2))', 'push.A', [2]), ('const.A=4/0', 'push.A', None), ('const.A=4//0', 'push.A', None), ('const.A=9 const.B=A//2//2', 'push.B', [2]), ('const.A=5', 'push.A.A', [5, 5]),
    ]
    srcs = [('begin %s end' % c, c, exp) for c, exp in cases] + [('%s begin %s end' % (h, b), h + ' ' + b, exp) for h, b, exp in consts]
    # decimal immediates of the arithmetic / comparison instructions at the field boundaries
    srcs += [('begin push.5 add.%d end' % (P - 1), 'add.p-1', [4]), ('begin push.5 add.%d end' % P, 'add.p', None), ('begin push.5 mul.%d end' % (P - 1), 'mul.p-1', [P - 5]),
             ('begin push.5 sub.%d end' % (P - 1), 'sub.p-1', [6]), ('begin push.%d eq.%d end' % (P - 1, P - 1), 'eq.p-1', [1]), ('begin push.6 div.2 end', 'div.2', [3]),
             ('begin push.5 div.0 end', 'div.0', None), ('begin push.3 exp.%d end' % (2 ** 64 - 2 ** 32), 'exp.p-1', [1])]
    # parameter ranges of the instruction reference: the last valid and the first invalid value on each side
    # (exp = 'ASM' means: must assemble - what it does at run time is decided elsewhere)
    for ins, ok, bad in [('dup', [0, 15], [16]), ('swap', [1, 15], [0, 16]), ('movup', [2, 15], [0, 1, 16]), ('movdn', [2, 15], [0, 1, 16]),
                         ('dupw', [0, 3], [4]), ('swapw', [1, 3], [0, 4]), ('movupw', [2, 3], [0, 1, 4]), ('movdnw', [2, 3], [0, 1, 4]),
                         ('u32shl', [0, 31], [32]), ('u32shr', [0, 31], [32]), ('u32rotl', [0, 31], [32]), ('u32rotr', [0, 31], [32]),
                         ('exp.u', [0, 64], [65]), ('adv_push', [1, 16], [0, 17]), ('mem_load', [0, 2 ** 32 - 1], [2 ** 32]), ('mem_storew', [0, 2 ** 32 - 1], [2 ** 32]),
                         ('u32div', [1, 2 ** 32 - 1], [0, 2 ** 32]), ('u32mod', [1], [0]), ('u32divmod', [1], [0]), ('u32wrapping_add', [0, 2 ** 32 - 1], [2 ** 32]),
                         ('repeat', [1, 2 ** 32 - 1], [2 ** 32])]:   # repeat.0: docs say count > 0, the parser accepts it as zero copies (C06 treats it so) - not checked
        sep = '' if ins.endswith('.u') else '.'
        for v, want in [(v, 'ASM') for v in ok] + [(v, None) for v in bad]:
            form = '%s%s%d' % (ins, sep, v)
            body = 'repeat.%d add end' % v if ins == 'repeat' else form
            if ins == 'repeat' and v > 1000:
                continue        # assembling 2^32 copies is not a test of the parser
            srcs.append(('begin %s end' % body, form, want))
    srcs += [('proc.foo loc_load.0 end begin exec.foo end', 'loc_load.0 with 0 locals', None), ('proc.foo.1 loc_load.0 end begin exec.foo end', 'loc_load.0 with 1 local', 'ASM'),
             ('proc.foo.1 loc_load.1 end begin exec.foo end', 'loc_load.1 with 1 local', None), ('proc.foo.3 loc_storew.2 end begin exec.foo end', 'loc_storew.2 with 3 locals', 'ASM'),
             ('proc.foo.3 locaddr.3 end begin exec.foo end', 'locaddr.3 with 3 locals', None), ('begin caller end', 'caller outside a kernel', None),
             ('begin exec.nothing end', 'undefined procedure', None), ('use.std::math::u64 use.std::math::u256->u64 begin push.1 end', 'two imports under one module name', None),
             ('use.std::math::u64 use.std::math::u256->big begin push.1 end', 'two imports under different names', 'ASM'), ('export.foo add end begin exec.foo end', 'export in an executable', None)]
    n = 0
    for src, label, exp in srcs:
        n += 1
        p = subprocess.run([binp, src], stdout=subprocess.PIPE, stderr=subprocess.PIPE, text=True)
        out = p.stdout.strip().split('\n')[-1] if p.stdout.strip() else ''
        bad = None
        if out.startswith('PANIC') or p.returncode < 0 or p.returncode in (101, 134):
            bad = 'panic'
        elif exp is None:
            if not out.startswith('ASMERR'):
                bad = 'accepted-invalid'
        elif exp == 'ASM':
            if out.startswith('ASMERR'):
                bad = 'rejected-valid'
        else:
            m = re.match(r'OK \[(.*)\]', out)
            if not m:
                bad = 'rejected-valid'
            else:
                got = [int(x) for x in m.group(1).split(',')]
                if got[:len(exp)] != exp or any(x != 0 for x in got[len(exp):]):
                    bad = 'wrong-value'
        if bad:
            slug = re.sub(r'[^a-zA-Z0-9.]+', '-', label)[:60]
            res['failures'].append({'obligation': '%s/bounded/immediate_forms#%s:%s' % (prop, bad, slug), 'message': 'immediate parsing: %s for `%s`' % (bad, label[:100]),
                                    'rendered': '%s -> %s (expected %s)' % (src[:300], out[:200], 'an assembly error' if exp is None else exp),
                                    'origins': ['assembly/src/ast/parsers', 'assembly/src/ast/parsers/constants.rs'],
                                    'failing_input': {'source': src[:600], 'expected': 'assembly error' if exp is None else exp, 'got': out[:200], 'cmd': ".cache/target/debug/runmasm '<source>'"}})
    if res['failures']:
        res['status'] = 'fail'
    res['wall_s'] = round(time.time() - t0, 1)
    res['checker_cmd'] = 'tools/runmasm (built against the current tree): %d sources' % n
    return res


def check_air_full(prop, tier, repo, verif):
    t0 = time.time()
    res = {'unit': 'bounded:air_full_coverage', 'engine': 'bounded fault enumeration through the real ProcessorAir::evaluate_transition (tools/airfull, release build)', 'status': 'ok',
           'failures': [], 'undecided': [], 'bounded': True,
           'bound': '3 generated programs (every modelled operation at stack depth 16, 17 and 21; u32 / bitwise, hperm / hmerge / mtree_*, memory in several contexts, call / exec with locals; ~49000 row pairs): every cell of the next row (system, decoder, stack, range checker, chiplets) and the single-row helper / chiplet cells of the current row perturbed by +1 and by a random value; a cell the documentation (docs/src/design/stack, chiplets, range.md) says is pinned by a main-trace transition constraint must make some constraint non-zero. Whitelisted from the documentation: cells tied through bus / LogUp columns or boundary constraints. Outside the operation groups C04 names and therefore not counted: MSTREAM s8..s15 (IO operation), kernel-ROM selector s3 on padding rows'}
    binp, err = build_tool(repo, verif, 'airfull', release=True)
    if binp is None:
        res['status'] = 'undecided'
        res['undecided'].append('airfull does not build against the current tree: ' + err)
        return res
    p = subprocess.run([binp], stdout=subprocess.PIPE, stderr=subprocess.PIPE, text=True)
    m = re.search(r'SUMMARY honest_violations=(\d+) uncaught_cells=(\d+) gap_cells=(\d+)', p.stdout)
    if not m:
        res['status'] = 'undecided'
        res['undecided'].append('airfull gave no summary (panic?): ' + (p.stdout + p.stderr)[-500:])
        return res
    seen = {}
    excluded = 0
    for ln in p.stdout.split('\n'):
        if ln.startswith('HONEST-VIOLATION'):
            seen.setdefault(('honest-row-rejected', 'any'), []).append(ln)
            continue
        mm = re.match(r'(UNCAUGHT|GAP) (.*?) \| (.*?) \| (\d+) \| (.*?) \| (.*)', ln)
        if not mm:
            continue
        kindtag, kind, cell, cnt, first, reason = mm.groups()
        if kindtag == 'GAP' and (reason.startswith('MSTREAM') or 'selector s3' in reason or kind.startswith('chiplets-padding')):
            excluded += 1
            continue
        rowkind = re.sub(r' @ depth.*', '', kind)
        seen.setdefault((rowkind, cell), []).append('%s x%s first at %s' % (kind, cnt, first))
    for (rowkind, cell), lst in seen.items():
        slug = re.sub(r'[^A-Za-z0-9]+', '-', rowkind).strip('-')[:50] + ':' + re.sub(r'[^A-Za-z0-9=]+', '-', cell).strip('-')[:40]
        res['failures'].append({'obligation': '%s/bounded/air_full_coverage#%s' % (prop, slug),
                                'message': 'a wrong value in cell [%s] on rows of kind [%s] satisfies every main transition constraint' % (cell, rowkind) if rowkind != 'honest-row-rejected' else 'an honest row pair violates a transition constraint',
                                'rendered': '\n'.join(lst[:4])[:1500], 'origins': ['air/src/constraints'],
                                'failing_input': {'row_kind': rowkind, 'cell': cell, 'where': lst[0][:300], 'perturbation': '+1 / random value on an honest row pair', 'cmd': '.cache/target/release/airfull'}})
    res['excluded_out_of_scope_cells'] = excluded
    if res['failures']:
        res['status'] = 'fail'
    res['wall_s'] = round(time.time() - t0, 1)
    res['checker_cmd'] = 'tools/airfull (built against the current tree)'
    return res


def check_asm_history(prop, tier, repo, verif):
    t0 = time.time()
    res = {'unit': 'bounded:asm_history', 'engine': 'bounded run of the real assembler and processor (tools/asmprobe, release build with debug assertions)', 'status': 'ok',
           'failures': [], 'undecided': [], 'bounded': True,
           'bound': '6060 generated programs (all call chains main -> P1 -> P2 -> leaf of depth 1..3 over hop kinds exec / call / procref+dynexec / procref+dyncall / syscall and callee locations local / imported / re-exported once / re-exported twice under an alias; 1029 modules in 4 libraries, a 4-procedure kernel): every program assembles and EXECUTES (no missing procedure) on a fresh assembler and on a long-lived one; same MAST root and code block table on a fresh assembler vs. one instance that compiled the others before (6 orders), under every permutation of the 4 libraries, and whether a procedure is reached directly or through re-exports; 545 invalid / boundary sources are rejected with an error (no panic) and their valid neighbours accepted, also on a long-lived instance; 8 probes for history dependence through the procedure cache'}
    binp, err = build_tool(repo, verif, 'asmprobe', release=True)
    if binp is None:
        res['status'] = 'undecided'
        res['undecided'].append('asmprobe does not build against the current tree: ' + err)
        return res
    p = subprocess.run([binp], stdout=subprocess.PIPE, stderr=subprocess.PIPE, text=True)
    m = re.search(r'SUMMARY failed_checks=(\d+) probes=(\d+)', p.stdout)
    if not m:
        res['status'] = 'undecided'
        res['undecided'].append('asmprobe gave no summary (panic / abort?): ' + (p.stdout + p.stderr)[-500:])
        return res
    seen = set()
    for ln in p.stdout.split('\n'):
        mm = re.match(r'CHECKFAIL (.*?) \| (.*?) \| (.*)', ln)
        if mm:
            cid, cnt, first = mm.groups()
            res['failures'].append({'obligation': '%s/bounded/asm_history#check:%s' % (prop, cid.strip()), 'message': 'assembler check (%s) failed: %s cases' % (cid.strip(), cnt),
                                    'rendered': ln[:1500], 'origins': ['assembly/src/assembler/context.rs', 'assembly/src/assembler/procedure_cache.rs', 'assembly/src/assembler/mod.rs', 'assembly/src/assembler/module_provider.rs'],
                                    'failing_input': {'check': cid.strip(), 'failed': cnt, 'first_case': first[:900], 'cmd': '.cache/target/release/asmprobe   (ad hoc sources: asmprobe --try [--kernel K] SRC...)'}})
            continue
        mm = re.match(r'PROBE (.*?) \| (.*)', ln)
        if mm:
            pid, text = mm.groups()
            slug = re.sub(r'[^A-Za-z0-9:]+', '-', pid).strip('-')[:70]
            if slug in seen:
                continue
            seen.add(slug)
            res['failures'].append({'obligation': '%s/bounded/asm_history#probe:%s' % (prop, slug), 'message': 'assembler probe %s deviates' % pid,
                                    'rendered': text[:1500], 'origins': ['assembly/src/assembler', 'assembly/src/ast/parsers'],
                                    'failing_input': {'probe': pid, 'detail': text[:900], 'cmd': '.cache/target/release/asmprobe'}})
    if res['failures']:
        res['status'] = 'fail'
    res['wall_s'] = round(time.time() - t0, 1)
    res['checker_cmd'] = 'tools/asmprobe (built against the current tree)'
    return res


def check_flow_reference(prop, tier, repo, verif):
    t0 = time.time()
    nrand = 24000 if tier == 'thorough' else 3000
    res = {'unit': 'bounded:flow_reference', 'engine': 'bounded run of the real assembler + processor against a reference interpreter of a MASM subset written from the docs (tools/flowprobe, release build)', 'status': 'ok',
           'failures': [], 'undecided': [], 'bounded': True,
           'bound': 'about %d generated programs: all nestings of if / if-else / explicit empty else / while / repeat / exec to depth 3 with 0..3 blocks per body, block counts 1..9 in six positional patterns (as loop body, branch, procedure body), procedures with 0..4 locals nested three deep, all 144 pairs of colliding imported procedure names, %d seeded random programs to depth 4; condition values 0, 1, 2, p-1 from advice / stack / literals at every decision point; 5-6 input sets each; full final stack and success / failure compared; exec vs. the textually inlined twin' % (14962 + nrand, nrand)}
    binp, err = build_tool(repo, verif, 'flowprobe', release=True)
    if binp is None:
        res['status'] = 'undecided'
        res['undecided'].append('flowprobe does not build against the current tree: ' + err)
        return res
    env = dict(os.environ)
    env['RANDOM_COUNT'] = str(nrand)
    p = subprocess.run([binp], stdout=subprocess.PIPE, stderr=subprocess.PIPE, text=True, env=env)
    m = re.search(r'SUMMARY programs=(\d+) executions=(\d+) inline_executions=(\d+) mismatches=(\d+) inline_mismatches=(\d+)', p.stdout)
    if not m:
        res['status'] = 'undecided'
        res['undecided'].append('flowprobe gave no summary (panic?): ' + (p.stdout + p.stderr)[-500:])
        return res
    seen = set()
    for ln in p.stdout.split('\n'):
        mm = re.match(r'FAILCASE (\S+) group=(\S+) :: (.*?) :: (.*)', ln)
        if not mm:
            continue
        kind, group, src, rest = mm.groups()
        if kind in seen:
            continue
        seen.add(kind)
        cnt = m.group(4) if kind == 'vm-vs-reference' else m.group(5)
        res['failures'].append({'obligation': '%s/bounded/flow_reference#%s' % (prop, kind), 'message': 'control flow / inlining: %s mismatches (%s executions deviate)' % (kind, cnt),
                                'rendered': ln[:2000], 'origins': ['assembly/src/assembler/mod.rs', 'processor/src/lib.rs', 'processor/src/decoder/mod.rs'],
                                'failing_input': {'program': src[:1200], 'inputs_and_results': rest[:600], 'group': group, 'cmd': 'RANDOM_COUNT=%d .cache/target/release/flowprobe' % nrand}})
    if (int(m.group(4)) or int(m.group(5))) and not res['failures']:
        res['failures'].append({'obligation': '%s/bounded/flow_reference#mismatch' % prop, 'message': 'mismatches reported without a case line', 'rendered': p.stdout[-800:], 'origins': []})
    if res['failures']:
        res['status'] = 'fail'
    res['wall_s'] = round(time.time() - t0, 1)
    res['checker_cmd'] = 'RANDOM_COUNT=%d tools/flowprobe (built against the current tree): %s programs, %s executions' % (nrand, m.group(1), m.group(2))
    return res


def check_decoder_model(prop, tier, repo, verif):
    t0 = time.time()
    res = {'unit': 'bounded:decoder_model', 'engine': 'bounded run of the real processor against an independent batching / decoding model written from programs.md and decoder/main.md (tools/decmodel, release build with debug assertions)', 'status': 'ok',
           'failures': [], 'undecided': [], 'bounded': True,
           'bound': '20299 programs built as MAST directly and from MASM: spans of length 1..11 with every push pattern, 12..80 with structured and random pushes, spans around 1..4 full batches, all join / split / loop / call shapes to depth 3 with loops of 0 / 1 / n iterations, syscall / dyn / dyncall to depth 4-5; compared: op bits, group-count column, hasher state on SPAN / RESPAN / block-start / END / final rows, the op per clock from VmStateIterator; nesting and zero group count on every END row'}
    binp, err = build_tool(repo, verif, 'decmodel', release=True)
    if binp is None:
        res['status'] = 'undecided'
        res['undecided'].append('decmodel does not build against the current tree: ' + err)
        return res
    p = subprocess.run([binp], stdout=subprocess.PIPE, stderr=subprocess.PIPE, text=True)
    m = re.search(r'SUMMARY programs=(\d+) deviating=(\d+)', p.stdout)
    if not m:
        res['status'] = 'undecided'
        res['undecided'].append('decmodel gave no summary (panic?): ' + (p.stdout + p.stderr)[-500:])
        return res
    seen = set()
    for ln in p.stdout.split('\n'):
        mm = re.match(r'FAILCASE (.*?) :: (.*?) :: (.*?) :: (.*)', ln)
        if not mm:
            continue
        kind, prog, conds, detail = mm.groups()
        slug = re.sub(r'[^A-Za-z0-9]+', '-', kind).strip('-')[:50] or 'deviation'
        if slug in seen:
            continue
        seen.add(slug)
        res['failures'].append({'obligation': '%s/bounded/decoder_model#%s' % (prop, slug), 'message': 'decoder trace deviates from the model: %s (%s programs deviate in total)' % (kind, m.group(2)),
                                'rendered': ln[:1800], 'origins': ['processor/src/lib.rs', 'processor/src/decoder/mod.rs', 'processor/src/decoder/trace.rs', 'core/src/program/blocks/span_block.rs'],
                                'failing_input': {'program': prog[:900], 'conditions': conds[:200], 'detail': detail[:500], 'cmd': '.cache/target/release/decmodel'}})
    if int(m.group(2)) and not res['failures']:
        res['failures'].append({'obligation': '%s/bounded/decoder_model#deviation' % prop, 'message': '%s programs deviate' % m.group(2), 'rendered': p.stdout[-800:], 'origins': []})
    if res['failures']:
        res['status'] = 'fail'
    res['wall_s'] = round(time.time() - t0, 1)
    res['checker_cmd'] = 'tools/decmodel (built against the current tree): %s programs' % m.group(1)
    return res


def check_cycle_limit_sweep(prop, tier, repo, verif):
    t0 = time.time()
    res = {'unit': 'bounded:cycle_limit_sweep', 'engine': 'bounded run of the real assembler + processor (tools/limitprobe)', 'status': 'ok',
           'failures': [], 'undecided': [], 'bounded': True,
           'bound': '50 terminating programs covering every control-flow construct (multi-batch spans with NOOP padding, if / else, while, repeat, exec, call, syscall with kernel loops, dyncall / dynexec, nested): exact cycle count n, then every limit n-3 .. n+3 with expected_cycles 0 and m: success exactly when m >= n, otherwise CycleLimitExceeded(m); 20 non-terminating programs (loops in the root, in call / syscall / dyn targets) x 7 limits must stop with CycleLimitExceeded (watchdog host + wall-clock timeout); ExecutionOptions::new on the 301 x 301 grid of (max_cycles, expected_cycles) plus boundary cases'}
    binp, err = build_tool(repo, verif, 'limitprobe')
    if binp is None:
        res['status'] = 'undecided'
        res['undecided'].append('limitprobe does not build against the current tree: ' + err)
        return res
    try:
        p = subprocess.run([binp], stdout=subprocess.PIPE, stderr=subprocess.PIPE, text=True, timeout=1500)
        out = p.stdout
    except subprocess.TimeoutExpired as e:
        out = (e.stdout or b'').decode() if isinstance(e.stdout, bytes) else (e.stdout or '')
    m = re.search(r'SUMMARY checks=(\d+) failures=(\d+)', out)
    if not m:
        res['status'] = 'undecided'
        res['undecided'].append('limitprobe gave no summary (timeout / panic?): ' + out[-500:])
        return res
    n = 0
    for ln in out.split('\n'):
        if not ln.startswith('FAILCASE '):
            continue
        n += 1
        text = ln[len('FAILCASE '):]
        mm = re.search(r'program `([^`]+)`', text)
        kind = 'options' if text.startswith('options') or 'ExecutionOptions' in text else ('limit-not-enforced' if ('Timeout' in text or 'WATCHDOG' in text or 'should be CycleLimit' in text) else 'wrong-outcome')
        slug = '%s:%s' % (kind, re.sub(r'[^A-Za-z0-9_]+', '-', mm.group(1))[:40] if mm else str(n))
        if any(f['obligation'].endswith('#' + slug) for f in res['failures']):
            continue
        res['failures'].append({'obligation': '%s/bounded/cycle_limit_sweep#%s' % (prop, slug), 'message': 'cycle limit not exact: %s' % text[:160],
                                'rendered': text[:1500], 'origins': ['processor/src/system/mod.rs', 'processor/src/lib.rs', 'air/src/options.rs'],
                                'failing_input': {'case': text[:900], 'cmd': '.cache/target/debug/limitprobe'}})
    if int(m.group(2)) and not res['failures']:
        res['failures'].append({'obligation': '%s/bounded/cycle_limit_sweep#failures' % prop, 'message': '%s checks failed' % m.group(2), 'rendered': out[-800:], 'origins': []})
    if res['failures']:
        res['status'] = 'fail'
    res['wall_s'] = round(time.time() - t0, 1)
    res['checker_cmd'] = 'tools/limitprobe (built against the current tree): %s checks' % m.group(1)
    return res


def check_instr_reference(prop, tier, repo, verif):
    t0 = time.time()
    res = {'unit': 'bounded:instr_reference', 'engine': 'bounded run of the real assembler + processor against reference instruction semantics written from docs/src/user_docs/assembly (tools/instrprobe, release build with debug assertions)', 'status': 'ok',
           'failures': [], 'undecided': [], 'bounded': True,
           'bound': '92056 cases: every field / comparison / ext2 / u32 / stack-manipulation / push / sdepth instruction in every immediate and parameter form (assertions with error codes, push in decimal / hex / lists / constants) on boundary operands (0, 1, 2, 2^16, 2^31, 2^32-1, 2^32, p-1, ...) in every operand position, initial depths 0..40, push / drop sequences through the overflow table, 6000 random instruction sequences; the complete final stack, failure kind and error code are compared; cases the docs call undefined are skipped'}
    binp, err = build_tool(repo, verif, 'instrprobe', release=True)
    if binp is None:
        res['status'] = 'undecided'
        res['undecided'].append('instrprobe does not build against the current tree: ' + err)
        return res
    p = subprocess.run([binp], stdout=subprocess.PIPE, stderr=subprocess.PIPE, text=True)
    m = re.search(r'SUMMARY cases=(\d+) skipped=(\d+) disagreements=(\d+) failing_programs=(\d+)', p.stdout)
    if not m:
        res['status'] = 'undecided'
        res['undecided'].append('instrprobe gave no summary (panic?): ' + (p.stdout + p.stderr)[-500:])
        return res
    for ln in p.stdout.split('\n'):
        mm = re.match(r'FAILCASE \[(.*?)\] (.*?) :: (.*)', ln)
        if not mm:
            continue
        group, prog, rest = mm.groups()
        ins = re.sub(r'^begin\s+|\s+end$', '', prog.strip())
        slug = re.sub(r'[^A-Za-z0-9_.]+', '-', ins)[:60]
        res['failures'].append({'obligation': '%s/bounded/instr_reference#%s:%s' % (prop, group, slug), 'message': 'instruction deviates from the instruction reference: %s' % ins[:120],
                                'rendered': ln[:1800], 'origins': ['assembly/src/assembler/instruction', 'processor/src/operations', 'processor/src/stack'],
                                'failing_input': {'program': prog[:600], 'detail': rest[:900], 'cmd': ".cache/target/release/instrprobe --one '<program>' <stack values, top first>"}})
    if int(m.group(3)) and not res['failures']:
        res['failures'].append({'obligation': '%s/bounded/instr_reference#disagreements' % prop, 'message': '%s disagreements' % m.group(3), 'rendered': p.stdout[-800:], 'origins': []})
    if res['failures']:
        res['status'] = 'fail'
    res['wall_s'] = round(time.time() - t0, 1)
    res['checker_cmd'] = 'tools/instrprobe (built against the current tree): %s cases' % m.group(1)
    return res


def check_dishonest_host_full(prop, tier, repo, verif):
    t0 = time.time()
    res = {'unit': 'bounded:dishonest_host_full', 'engine': 'bounded run of the real assembler + processor with a dishonest Host / advice provider (tools/hostprobe, release build with debug assertions)', 'status': 'ok',
           'failures': [], 'undecided': [], 'bounded': True,
           'bound': 'about 250000 runs: u32clz / ctz / clo / cto (268 operands x hints 0..64 and large field elements), ilog2 (469 operands), ext2inv, ext2div (wrong inverses incl. scaled ones), u64 div / mod / divmod (wrong quotient / remainder families), mtree_get / mtree_set / mtree_verify (wrong / truncated / over-long paths, wrong indices and depths, 9412 runs each): every run that completes must leave the correct result; the honest host must succeed on valid operands; control runs feed the correct hint through the dishonest channel; order of adv_push.1..16 / adv_loadw / adv_pipe'}
    binp, err = build_tool(repo, verif, 'hostprobe', release=True)
    if binp is None:
        res['status'] = 'undecided'
        res['undecided'].append('hostprobe does not build against the current tree: ' + err)
        return res
    p = subprocess.run([binp], stdout=subprocess.PIPE, stderr=subprocess.PIPE, text=True)
    m = re.search(r'SUMMARY ok=(true|false)', p.stdout)
    if not m:
        res['status'] = 'undecided'
        res['undecided'].append('hostprobe gave no summary (panic?): ' + (p.stdout + p.stderr)[-500:])
        return res
    for ln in p.stdout.split('\n'):
        mm = re.match(r'FAILCASE (.*?) :: (\d+) violations :: (.*)', ln)
        if mm:
            ins, cnt, first = mm.groups()
            kind = 'honest-host-fails' if 'honest host' in first else ('control-fails' if 'correct hint via' in first else 'wrong-hint-accepted')
            res['failures'].append({'obligation': '%s/bounded/dishonest_host_full#%s:%s' % (prop, re.sub(r'[^A-Za-z0-9_]+', '-', ins), kind), 'message': '%s: %s (%s violations)' % (ins, kind, cnt),
                                    'rendered': ln[:1800], 'origins': ['assembly/src/assembler/instruction', 'processor/src/operations/crypto_ops.rs', 'processor/src/host/advice', 'stdlib/asm/math/u64.masm'],
                                    'failing_input': {'instruction': ins, 'case': first[:900], 'cmd': '.cache/target/release/hostprobe'}})
        mm = re.match(r'\[BASELINE\] (.*)', ln)
        if mm:
            res['failures'].append({'obligation': '%s/bounded/dishonest_host_full#baseline' % prop, 'message': 'wrong hint accepted: ' + mm.group(1)[:200], 'rendered': ln[:1500], 'origins': []})
    if m.group(1) == 'false' and not res['failures']:
        res['failures'].append({'obligation': '%s/bounded/dishonest_host_full#fail' % prop, 'message': 'hostprobe failed', 'rendered': p.stdout[-800:], 'origins': []})
    if res['failures']:
        res['status'] = 'fail'
    res['wall_s'] = round(time.time() - t0, 1)
    res['checker_cmd'] = 'tools/hostprobe (built against the current tree)'
    return res


def check_determinism_full(prop, tier, repo, verif):
    t0 = time.time()
    res = {'unit': 'bounded:determinism_full', 'engine': 'bounded run of the real assembler + processor (tools/detprobe)', 'status': 'ok',
           'failures': [], 'undecided': [], 'bounded': True,
           'bound': '9 programs (long span over several capacity doublings, 24 stack inputs, loop + memory + split, calls with locals, long calls, syscalls with a kernel, advice, decorated with debug / trace / emit, clk): re-run; expected-cycles hints 64 .. 8192 plus 65 / 100 / 1000, tracing on and off; debug-mode assembly and the decorator-stripped source (same hash, outputs, cycle count, full main trace); step iterator ctx / fmp / top 16 / memory against the trace and a replay of the memory chiplet rows, forward, backward, next-back-next at every clock and a pseudo-random zig-zag, on release and debug assembly; every CLK row pushes its clock. The overflow part of VmState.stack (F19) is handled by unit step_iterator'}
    binp, err = build_tool(repo, verif, 'detprobe')
    if binp is None:
        res['status'] = 'undecided'
        res['undecided'].append('detprobe does not build against the current tree: ' + err)
        return res
    p = subprocess.run([binp], stdout=subprocess.PIPE, stderr=subprocess.PIPE, text=True)
    m = re.search(r'SUMMARY failing_programs=(\d+)', p.stdout)
    if not m:
        res['status'] = 'undecided'
        res['undecided'].append('detprobe gave no summary (panic?): ' + (p.stdout + p.stderr)[-500:])
        return res
    for ln in p.stdout.split('\n'):
        mm = re.match(r'FAILCASE (\S+) :: (.*)', ln)
        if not mm:
            continue
        prog, first = mm.groups()
        kind = re.sub(r'[^A-Za-z0-9]+', '-', re.sub(r'\(\d\)\s*', '', first.split(':')[0]))[:40].strip('-')
        res['failures'].append({'obligation': '%s/bounded/determinism_full#%s:%s' % (prop, prog, kind), 'message': 'determinism / step iterator: program %s: %s' % (prog, first[:160]),
                                'rendered': ln[:1800], 'origins': ['processor/src/debug.rs', 'processor/src/system/mod.rs', 'processor/src/stack/mod.rs', 'processor/src/chiplets/memory', 'assembly/src/assembler/span_builder.rs'],
                                'failing_input': {'program': prog, 'detail': first[:900], 'cmd': '.cache/target/debug/detprobe'}})
    if int(m.group(1)) and not res['failures']:
        res['failures'].append({'obligation': '%s/bounded/determinism_full#fail' % prop, 'message': '%s programs fail' % m.group(1), 'rendered': p.stdout[-800:], 'origins': []})
    if res['failures']:
        res['status'] = 'fail'
    res['wall_s'] = round(time.time() - t0, 1)
    res['checker_cmd'] = 'tools/detprobe (built against the current tree)'
    return res


def check_context_model(prop, tier, repo, verif):
    t0 = time.time()
    count = 12000 if tier == 'thorough' else 3000
    seed = '20260923'     # fixed: the sub-agent validated the generator against the unchanged code for this seed (and 1, 2, 3)
    res = {'unit': 'bounded:context_model', 'engine': 'bounded run of the real assembler + processor against a reference model of contexts and memory written from execution_contexts.md / io_operations.md (tools/ctxprobe, release build with debug assertions)', 'status': 'ok',
           'failures': [], 'undecided': [], 'bounded': True,
           'bound': '4 directed scenarios + %d generated programs (seed %s): 0-3 kernel and 1-6 user procedures with 0-3 locals, exec / call / syscall / procref+dyncall / procref+dynexec nested, callers made deeper than 16 by extra pushes, 0-25 stack inputs, element / word / stream / pipe / local loads and stores over a 19-address pool around 0, 2^30, 2^31, 2^32-1, sdepth, caller in kernel procedures, deliberately failing programs (unbalanced callee, address >= 2^32, exhausted advice); success / failure kind and the complete final stack incl. a dump of root memory are compared' % (count, seed)}
    binp, err = build_tool(repo, verif, 'ctxprobe', release=True)
    if binp is None:
        res['status'] = 'undecided'
        res['undecided'].append('ctxprobe does not build against the current tree: ' + err)
        return res
    p = subprocess.run([binp, '--seed', seed, '--count', str(count)], stdout=subprocess.PIPE, stderr=subprocess.PIPE, text=True)
    m = re.search(r'SUMMARY checked=(\d+) mismatches=(\d+)', p.stdout)
    if not m:
        res['status'] = 'undecided'
        res['undecided'].append('ctxprobe gave no summary (panic?): ' + (p.stdout + p.stderr)[-500:])
        return res
    n = 0
    for ln in p.stdout.split('\n'):
        if not ln.startswith('FAILCASE '):
            continue
        n += 1
        text = ln[len('FAILCASE '):]
        kind = 'directed' if text.startswith('directed') else 'generated'
        if any(f['obligation'].endswith('#' + kind) for f in res['failures']):
            continue
        res['failures'].append({'obligation': '%s/bounded/context_model#%s' % (prop, kind), 'message': 'context / memory model mismatch (%s program)' % kind,
                                'rendered': text[:2000], 'origins': ['processor/src/stack/mod.rs', 'processor/src/system/mod.rs', 'processor/src/chiplets/memory', 'processor/src/lib.rs', 'assembly/src/assembler'],
                                'failing_input': {'case': text[:1400], 'cmd': '.cache/target/release/ctxprobe --seed %s --count %d' % (seed, count)}})
    if res['failures']:
        res['status'] = 'fail'
    res['wall_s'] = round(time.time() - t0, 1)
    res['checker_cmd'] = 'tools/ctxprobe --seed %s --count %d (built against the current tree): %s programs' % (seed, count, m.group(1))
    return res
