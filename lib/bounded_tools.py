"""Bounded stand-ins that run a small Rust tool built against the CURRENT tree (path deps on the
repo).  Labelled bounded in the evidence and never counted as proved."""
import os, subprocess, time, re


def build_tool(repo, verif, name):
    """copies tools/<name> into .gen/<name>/crate with its /repo/ path deps pointed at `repo`, builds it
    into the shared .cache/target and returns the binary path"""
    tool = os.path.join(verif, 'tools', name)
    crate = os.path.join(verif, '.gen', name, 'crate')
    os.makedirs(os.path.join(crate, 'src'), exist_ok=True)
    cargo = open(os.path.join(tool, 'Cargo.toml')).read().replace('/repo/', repo.rstrip('/') + '/')
    open(os.path.join(crate, 'Cargo.toml'), 'w').write(cargo)
    open(os.path.join(crate, 'src', 'main.rs'), 'w').write(open(os.path.join(tool, 'src', 'main.rs')).read())
    open(os.path.join(crate, 'Cargo.lock'), 'w').write(open(os.path.join(repo, 'Cargo.lock')).read())
    env = dict(os.environ)
    env['CARGO_TARGET_DIR'] = os.path.join(verif, '.cache', 'target')
    env['CARGO_NET_OFFLINE'] = 'true'
    p = subprocess.run(['cargo', 'build', '--offline', '--quiet'], cwd=crate, env=env, stdout=subprocess.PIPE, stderr=subprocess.STDOUT, text=True)
    if p.returncode != 0:
        return None, p.stdout[-800:]
    return os.path.join(env['CARGO_TARGET_DIR'], 'debug', name), ''


def check_libpath(prop, tier, repo, verif):
    t0 = time.time()
    n = 7 if tier == 'thorough' else 6
    res = {'unit': 'bounded:libpath_decode', 'engine': 'bounded exhaustive run of the real decoder (tools/pathprobe)', 'status': 'ok',
           'failures': [], 'undecided': [], 'bounded': True,
           'bound': 'LibraryPath::read_from on every byte string of length <= %d over a 12-byte alphabet (# : s y e x c a 1 _ and a 2-byte UTF-8 char)' % n}
    binp, err = build_tool(repo, verif, 'pathprobe')
    if binp is None:
        res['status'] = 'undecided'
        res['undecided'].append('pathprobe does not build against the current tree: ' + err)
        return res
    p = subprocess.run([binp, str(n)], stdout=subprocess.PIPE, stderr=subprocess.PIPE, text=True)
    out = p.stdout
    m = re.search(r'SUMMARY inputs=(\d+) accepted=(\d+) failures=(\d+)', out)
    if not m:
        res['status'] = 'undecided'
        res['undecided'].append('pathprobe gave no summary: ' + (out + p.stderr)[-400:])
        return res
    res['inputs'] = int(m.group(1))
    for ln in out.split('\n'):
        if ln.startswith('FAIL '):
            _, hx, what = ln.split(' ', 2)
            res['failures'].append({'obligation': '%s/bounded/libpath_decode#%s' % (prop, what.split(' ')[0]),
                                    'message': 'LibraryPath::read_from: ' + what, 'rendered': ln, 'origins': ['assembly/src/library/path.rs'],
                                    'failing_input': {'bytes_hex': hx, 'cmd': '.cache/target/debug/serdeprobe libpath %s' % hx}})
    if int(m.group(3)) > 0:
        res['status'] = 'fail'
    res['wall_s'] = round(time.time() - t0, 1)
    res['checker_cmd'] = 'tools/pathprobe %d (built against the current tree): %s inputs' % (n, m.group(1))
    return res
