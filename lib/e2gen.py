"""E2: lemmas over real MAST.  For every entry of a spec module (masm_specs/*.py) the masm source is
assembled by /repo's assembler (tools/mastdump, rebuilt from the current tree), the MAST is dumped and
turned into one Verus `proof fn` whose body-free statement composes the hub's operation semantics
(spec/opsem.rs) along the dumped operation sequence."""
import os, re, subprocess, importlib.util

OPS_PURE = {
    'Noop': '{s}', 'Add': 'sem_add({s})', 'Neg': 'sem_neg({s})', 'Mul': 'sem_mul({s})', 'Incr': 'sem_incr({s})',
    'Eq': 'sem_eq({s})', 'Eqz': 'sem_eqz({s})', 'Expacc': 'sem_expacc({s})', 'Ext2Mul': 'sem_ext2mul({s})',
    'U32split': 'sem_u32split({s})', 'Pad': 'sem_pad({s})', 'Drop': 'sem_drop({s})', 'Swap': 'sem_swap({s})',
    'SwapW': 'sem_swapw({s})', 'SwapW2': 'sem_swapw2({s})', 'SwapW3': 'sem_swapw3({s})', 'SwapDW': 'sem_swapdw({s})',
    'SDepth': 'sem_sdepth({s})',
}
for n in (0, 1, 2, 3, 4, 5, 6, 7, 9, 11, 13, 15):
    OPS_PURE['Dup%d' % n] = 'sem_dup({s}, %d)' % n
for n in range(2, 9):
    OPS_PURE['MovUp%d' % n] = 'sem_movup({s}, %d)' % n
    OPS_PURE['MovDn%d' % n] = 'sem_movdn({s}, %d)' % n
# op -> (semantics, failure condition)
OPS_FAIL = {
    'Inv': ('sem_inv({s})', 'fail_inv({s})'), 'And': ('sem_and({s})', 'fail_and({s})'), 'Or': ('sem_or({s})', 'fail_and({s})'),
    'Not': ('sem_not({s})', 'fail_not({s})'), 'U32and': ('sem_u32and({s})', 'fail_u32assert2({s})'),
    'U32xor': ('sem_u32xor({s})', 'fail_u32assert2({s})'), 'U32div': ('sem_u32div({s})', 'fail_u32div({s})'),
    'CSwap': ('sem_cswap({s})', 'fail_cswap({s})'), 'CSwapW': ('sem_cswapw({s})', 'fail_cswap({s})'),
}
# op -> (semantics, documented operand precondition)
OPS_PRE = {
    'U32add': ('sem_u32add({s})', 'pre_u32_2({s})'), 'U32sub': ('sem_u32sub({s})', 'pre_u32_2({s})'),
    'U32mul': ('sem_u32mul({s})', 'pre_u32_2({s})'), 'U32add3': ('sem_u32add3({s})', 'pre_u32_3({s})'),
    'U32madd': ('sem_u32madd({s})', 'pre_u32_3({s})'),
}


class E2Error(Exception):
    pass


def parse_sexpr(txt):
    toks = re.findall(r'\(|\)|\||[^\s()|]+', txt)
    pos = [0]

    def node():
        assert toks[pos[0]] == '('
        pos[0] += 1
        kind = toks[pos[0]]
        pos[0] += 1
        if kind == 'span':
            ops = []
            while toks[pos[0]] != '|':
                ops.append(toks[pos[0]])
                pos[0] += 1
            pos[0] += 1
            decs = []
            while toks[pos[0]] != ')':
                decs.append(toks[pos[0]])
                pos[0] += 1
            pos[0] += 1
            return ('span', ops, decs)
        kids = []
        while toks[pos[0]] != ')':
            if toks[pos[0]] == '(':
                kids.append(node())
            else:
                kids.append(toks[pos[0]])
                pos[0] += 1
        pos[0] += 1
        return (kind, kids)
    return node()


class Gen:
    """emits a chain of `let` bindings over a state (s: Seq<Felt>, ok: bool, pre: bool, k: int)"""

    def __init__(self):
        self.lines = []
        self.n = 0
        self.nops = 0

    def fresh(self):
        self.n += 1
        return self.n

    def emit_block(self, node, st):
        """st = (s, ok, pre, k) variable names; returns new names"""
        kind = node[0]
        if kind == 'span':
            for op in node[1]:
                st = self.emit_op(op, st)
            return st
        if kind == 'join':
            st = self.emit_block(node[1][0], st)
            return self.emit_block(node[1][1], st)
        if kind == 'split':
            s, ok, pre, k = st
            i = self.fresh()
            self.lines.append('let c%d = %s[0];' % (i, s))
            self.lines.append('let ok%d = %s && is_bin(c%d);' % (i, ok, i))
            self.lines.append('let s%d = sem_drop(%s);' % (i, s))
            base = ('s%d' % i, 'ok%d' % i, pre, k)
            gt = Gen(); gt.n = self.n + 1000 * (len(self.lines) + 1)
            t = gt.emit_block(node[1][0], base)
            gf = Gen(); gf.n = gt.n + 1000
            f = gf.emit_block(node[1][1], base)
            self.nops += gt.nops + gf.nops
            j = self.fresh()
            self.lines.append('let r%d = if c%d.val() == 1 { %s (%s, %s, %s, %s) } else { %s (%s, %s, %s, %s) };' % (
                j, i, ' '.join(gt.lines), t[0], t[1], t[2], t[3], ' '.join(gf.lines), f[0], f[1], f[2], f[3]))
            self.lines.append('let s%d = r%d.0; let ok%d = r%d.1; let pre%d = r%d.2; let k%d = r%d.3;' % (j, j, j, j, j, j, j, j))
            return ('s%d' % j, 'ok%d' % j, 'pre%d' % j, 'k%d' % j)
        raise E2Error('block kind %s not supported by the lemma generator' % kind)

    def emit_op(self, op, st):
        s, ok, pre, k = st
        i = self.fresh()
        self.nops += 1
        m = re.match(r'(\w+)(?:\((\d+)\))?$', op)
        name, imm = m.group(1), m.group(2)
        ns = 's%d' % i
        if name in OPS_PURE:
            self.lines.append('let %s = %s;' % (ns, OPS_PURE[name].format(s=s)))
            return (ns, ok, pre, k)
        if name in OPS_FAIL:
            sem, fail = OPS_FAIL[name]
            self.lines.append('let %s = %s; let ok%d = %s && !%s;' % (ns, sem.format(s=s), i, ok, fail.format(s=s)))
            return (ns, 'ok%d' % i, pre, k)
        if name in OPS_PRE:
            sem, p = OPS_PRE[name]
            self.lines.append('let %s = %s; let pre%d = %s && (%s ==> %s);' % (ns, sem.format(s=s), i, pre, ok, p.format(s=s)))
            return (ns, ok, 'pre%d' % i, k)
        if name == 'Push':
            self.lines.append('let %s = sem_push(%s, fe(%s));' % (ns, s, imm))
            return (ns, ok, pre, k)
        if name == 'Assert':
            self.lines.append('let %s = sem_assert(%s); let ok%d = %s && !fail_assert(%s);' % (ns, s, i, ok, s))
            return (ns, 'ok%d' % i, pre, k)
        if name == 'U32assert2':
            self.lines.append('let %s = %s; let ok%d = %s && !fail_u32assert2(%s);' % (ns, s, i, ok, s))
            return (ns, 'ok%d' % i, pre, k)
        if name == 'AdvPop':
            self.lines.append('let %s = sem_push(%s, adv[%s]); let k%d = %s + 1;' % (ns, s, k, i, k))
            return (ns, ok, pre, 'k%d' % i)
        raise E2Error('operation %s has no hub semantics in the lemma generator' % op)


def run_mastdump(repo, verif, jobs):
    tool = os.path.join(verif, 'tools', 'mastdump')
    work = os.path.join(verif, '.gen', 'mastdump')
    os.makedirs(work, exist_ok=True)
    # build against the current tree (path deps are rewritten when VERIF_REPO is not /repo)
    crate = os.path.join(work, 'crate')
    os.makedirs(os.path.join(crate, 'src'), exist_ok=True)
    cargo = open(os.path.join(tool, 'Cargo.toml')).read().replace('/repo/', repo.rstrip('/') + '/')
    open(os.path.join(crate, 'Cargo.toml'), 'w').write(cargo)
    open(os.path.join(crate, 'src', 'main.rs'), 'w').write(open(os.path.join(tool, 'src', 'main.rs')).read())
    open(os.path.join(crate, 'Cargo.lock'), 'w').write(open(os.path.join(repo, 'Cargo.lock')).read())
    env = dict(os.environ)
    env['CARGO_TARGET_DIR'] = os.path.join(verif, '.cache', 'target')
    env['CARGO_NET_OFFLINE'] = 'true'
    p = subprocess.run(['cargo', 'build', '--offline', '--quiet'], cwd=crate, env=env, stdout=subprocess.PIPE, stderr=subprocess.STDOUT, text=True)
    if p.returncode != 0:
        raise E2Error('mastdump does not build against the current tree: ' + p.stdout[-600:])
    jf = os.path.join(work, 'jobs.txt')
    with open(jf, 'w') as f:
        for name, src in jobs:
            f.write('%s\t%s\n' % (name, src.replace('\n', '\\n')))
    p = subprocess.run([os.path.join(env['CARGO_TARGET_DIR'], 'debug', 'mastdump'), os.path.join(repo, 'stdlib', 'asm'), jf],
                       stdout=subprocess.PIPE, stderr=subprocess.PIPE, text=True)
    if p.returncode != 0:
        raise E2Error('mastdump failed: ' + p.stderr[-600:])
    res = {}
    for ln in p.stdout.split('\n'):
        if not ln.strip():
            continue
        parts = ln.split('\t')
        res[parts[0]] = parts[1:]
    return res


def generate(specfile, repo, verif):
    """returns (text, [(lemma_name, first_line_offset, nlines)], info)"""
    spec = importlib.util.spec_from_file_location('masm_spec', os.path.join(verif, specfile))
    mod = importlib.util.module_from_spec(spec)
    spec.loader.exec_module(mod)
    jobs = [(name, e['src']) for name, e in mod.SPECS.items()]
    dumped = run_mastdump(repo, verif, jobs)
    out = []
    index = []
    info = []
    for name, e in mod.SPECS.items():
        d = dumped.get(name)
        if d is None or d[0] != 'OK':
            raise E2Error('%s: the assembler rejected the source: %s' % (name, d))
        tree = parse_sexpr(d[2])
        g = Gen()
        st = g.emit_block(tree, ('s0', 'true', 'true', '0int'))
        ident = re.sub(r'\W+', '_', name)
        lines = []
        lines.append('// %s  —  MAST (from /repo\'s assembler): %s' % (name, d[2][:300]))
        lines.append('pub proof fn lemma_%s(s0: Seq<Felt>, adv: Seq<Felt>)' % ident)
        lines.append('    requires s0.len() >= 16,' + ''.join(' %s,' % p for p in e.get('pre', [])))
        lines.append('    ensures ({')
        for ln in g.lines:
            lines.append('        ' + ln)
        lines.append('        let r = %s; let ok = %s; let pre_ok = %s;' % (st[0], st[1], st[2]))
        lines.append('        &&& pre_ok')
        for p in e.get('post', []):
            lines.append('        &&& (ok ==> (%s))' % p)
        if e.get('fails') is not None:
            lines.append('        &&& ((!ok) <==> (%s))' % e['fails'])
        if e.get('never_fails'):
            lines.append('        &&& ok')
        lines.append('    })')
        lines.append('{')
        for h in e.get('hints', []):
            lines.append('    ' + h)
        lines.append('}')
        index.append((name, len(out), len(lines)))
        info.append({'lemma': name, 'ops': g.nops, 'mast': d[2][:200], 'root_hash': d[1]})
        out.extend(lines)
    return '\n'.join(out), index, info
