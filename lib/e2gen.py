"""E2: lemmas over real MAST.  For every entry of a spec module (masm_specs/*.py) the masm source is
assembled by /repo's assembler (tools/mastdump, rebuilt from the current tree), the MAST is dumped and
turned into one Verus `proof fn` whose body-free statement composes the hub's operation semantics
(spec/opsem.rs) along the dumped operation sequence."""
import os, re, subprocess, importlib.util

OPS_PURE = {
    'Noop': '{s}', 'Add': 'sem_add({s})', 'Neg': 'sem_neg({s})', 'Mul': 'sem_mul({s})', 'Incr': 'sem_incr({s})',
    'Eq': 'sem_eq({s})', 'Eqz': 'sem_eqz({s})', 'Expacc': 'sem_expacc({s})', 'Ext2Mul': 'sem_ext2mul({s})',
    'U32split': 'sem_u32split({s})', 'Pad': 'sem_pad({s})', 'Drop': 'sem_drop({s})', 'Swap': 'sem_swap({s})',
    'SwapW': 'sem_swapw({s})', 'SwapW2': 'sem_swapw2({s})', 'SwapW3': 'sem_swapw3({s})', 'SwapDW': 'sem_swapdw({s})',
    'SDepth': 'sem_sdepth({s})',
}
for n in (0, 1, 2, 3, 4, 5, 6, 7, 9, 11, 13, 15):
    OPS_PURE['Dup%d' % n] = 'sem_dup({s}, %d)' % n
for n in range(2, 9):
    OPS_PURE['MovUp%d' % n] = 'sem_movup({s}, %d)' % n
    OPS_PURE['MovDn%d' % n] = 'sem_movdn({s}, %d)' % n
# op -> (semantics, failure condition)
OPS_FAIL = {
    'Inv': ('sem_inv({s})', 'fail_inv({s})'), 'And': ('sem_and({s})', 'fail_and({s})'), 'Or': ('sem_or({s})', 'fail_and({s})'),
    'Not': ('sem_not({s})', 'fail_not({s})'), 'U32and': ('sem_u32and({s})', 'fail_u32assert2({s})'),
    'U32xor': ('sem_u32xor({s})', 'fail_u32assert2({s})'), 'U32div': ('sem_u32div({s})', 'fail_u32div({s})'),
    'CSwap': ('sem_cswap({s})', 'fail_cswap({s})'), 'CSwapW': ('sem_cswapw({s})', 'fail_cswap({s})'),
}
# op -> (semantics, documented operand precondition)
OPS_PRE = {
    'U32add': ('sem_u32add({s})', 'pre_u32_2({s})'), 'U32sub': ('sem_u32sub({s})', 'pre_u32_2({s})'),
    'U32mul': ('sem_u32mul({s})', 'pre_u32_2({s})'), 'U32add3': ('sem_u32add3({s})', 'pre_u32_3({s})'),
    'U32madd': ('sem_u32madd({s})', 'pre_u32_3({s})'),
}


# operation sequences abstracted into one opaque hub step (each justified by a proved hub lemma that is
# `broadcast use`d in the generated lemma): name -> (ops, chain fn, lemma)
POW2_SEQ = ['Push(2)', 'Pad', 'Incr', 'Swap', 'Pad'] + ['Expacc'] * 6 + ['Drop', 'Drop', 'Swap', 'Eqz', 'Assert(0)']
MACROS = [('pow2', POW2_SEQ, 'pow2_chain', 'lemma_pow2_chain')]
EXP_HEAD = ['Pad', 'Incr', 'MovUp2', 'Pad']
EXP_TAIL = ['Drop', 'Drop', 'Swap', 'Eqz', 'Assert(0)']


def match_macro(ops, i):
    """-> (name, consumed, call format over {s}, lemma) or None"""
    for mname, mseq, mfn, mlem in MACROS:
        if ops[i:i + len(mseq)] == mseq:
            return (mname, len(mseq), mfn + '({s})', mlem)
    if ops[i:i + 4] == EXP_HEAD:
        n = 0
        while i + 4 + n < len(ops) and ops[i + 4 + n] == 'Expacc':
            n += 1
        if ops[i + 4 + n:i + 9 + n] == EXP_TAIL:
            return ('exp', 9 + n, 'exp_chain({s}, %d)' % n, 'lemma_exp_chain')
    return None


class E2Error(Exception):
    pass


class Sym:
    """generator-side symbolic stack: explicit top elements (Verus spec terms of type Felt) over the
    untouched part of s0.  Used ONLY to emit `assert(s_k =~= stk(...))` hints; every hint is checked
    by the verifier against the hub semantics, so a mistake here can only make a proof fail."""

    def __init__(self):
        self.top = []          # Felt-typed spec terms
        self.c = 0             # how many elements of s0 have been consumed
        self.delta = 0         # net depth change so far
        self.mind = 0          # minimum net change so far (<= 0): zeros padded = max(0, 16 - len - mind)
        self.defs = []         # (name, Felt-typed spec term): long terms are named once and shared (no blow-up
                               # when a carry feeds both the next sum and the next carry)

    def share(self):
        for i, t in enumerate(self.top):
            if len(t) > 70 and not re.fullmatch(r't\d+', t):
                name = 't%d' % (len(self.defs) + 1)
                self.defs.append((name, t))
                self.top[i] = name

    @staticmethod
    def s0at(i):
        # lemmas require s0.len() >= 16 only: deeper positions are read through sx (zero beyond the depth)
        return 's0[%d]' % i if i < 16 else 'sx(s0, %d)' % i

    def get(self, i):
        if i < len(self.top):
            return self.top[i]
        return self.s0at(i - len(self.top) + self.c)

    def pop(self, n=1):
        out = []
        for _ in range(n):
            if self.top:
                out.append(self.top.pop(0))
            else:
                out.append(self.s0at(self.c))
                self.c += 1
        return out

    def need(self, n):
        """make the first n elements explicit"""
        while len(self.top) < n:
            self.top.append(self.s0at(self.c))
            self.c += 1

    @property
    def d(self):
        return 'depth_after(s0.len() as int, %d, %d)' % (self.delta, self.mind)

    def shl(self):
        self.delta -= 1
        self.mind = min(self.mind, self.delta)

    def shr(self):
        self.delta += 1

    def form(self):
        return 'stk(seq![%s], s0, %d, %s)' % (', '.join(self.top), self.c, self.d) if self.top else 'stk(Seq::<Felt>::empty(), s0, %d, %s)' % (self.c, self.d)

    def step(self, name, imm, advk):
        v = lambda t: '%s.val()' % t
        if name == 'Noop' or name == 'U32assert2':
            return
        if name.startswith('Dup'):
            n = int(name[3:]); self.need(n + 1); self.top.insert(0, self.top[n]); self.shr(); return
        if name.startswith('MovUp'):
            n = int(name[5:]); self.need(n + 1); self.top.insert(0, self.top.pop(n)); return
        if name.startswith('MovDn'):
            n = int(name[5:]); self.need(n + 1); self.top.insert(n, self.top.pop(0)); return
        if name == 'Swap':
            self.need(2); self.top[0], self.top[1] = self.top[1], self.top[0]; return
        if name in ('SwapW', 'SwapW2', 'SwapW3', 'SwapDW'):
            self.need(16); t = self.top
            if name == 'SwapW': self.top = t[4:8] + t[0:4] + t[8:]
            elif name == 'SwapW2': self.top = t[8:12] + t[4:8] + t[0:4] + t[12:]
            elif name == 'SwapW3': self.top = t[12:16] + t[4:12] + t[0:4] + t[16:]
            else: self.top = t[8:16] + t[0:8] + t[16:]
            return
        if name == 'Pad':
            self.top.insert(0, 'fe(0)'); self.shr(); return
        if name == 'Push':
            self.top.insert(0, 'fe(%s)' % imm); self.shr(); return
        if name == 'AdvPop':
            self.top.insert(0, 'adv[%s]' % advk); self.shr(); return
        if name == 'SDepth':
            self.top.insert(0, 'fe(%s)' % self.d); self.shr(); return
        if name in ('Drop', 'Assert'):
            self.pop(1); self.shl(); return
        un = {'Neg': 'fe(fneg({a}))', 'Incr': 'fe(fadd({a}, 1))', 'Inv': 'fe(finv({a}))', 'Not': 'b2f({a} == 0)', 'Eqz': 'b2f({a} == 0)'}
        if name in un:
            a, = self.pop(1); self.top.insert(0, un[name].format(a=v(a))); return
        bi = {'Add': 'fe(fadd({a}, {b}))', 'Mul': 'fe(fmul({a}, {b}))', 'And': 'b2f({b} == 1 && {a} == 1)',
              'Or': 'b2f({b} == 1 || {a} == 1)', 'U32and': 'fe((({a} as u64) & ({b} as u64)) as int)',
              'U32xor': 'fe((({a} as u64) ^ ({b} as u64)) as int)'}
        if name in bi:
            b, a = self.pop(2)      # b = s0 (top), a = s1
            self.top.insert(0, bi[name].format(a=v(a), b=v(b))); self.shl(); return
        if name == 'Eq':
            b, a = self.pop(2); self.top.insert(0, 'b2f(%s == %s)' % (b, a)); self.shl(); return
        hl = lambda e: ['fe((%s) / B32())' % e, 'fe((%s) %% B32())' % e]
        if name == 'U32split':
            a, = self.pop(1); self.top = hl(v(a)) + self.top; self.shr(); return
        if name == 'U32add':
            b, a = self.pop(2); self.top = hl('%s + %s' % (v(a), v(b))) + self.top; return
        if name == 'U32mul':
            b, a = self.pop(2); self.top = hl('%s * %s' % (v(a), v(b))) + self.top; return
        if name == 'U32sub':
            b, a = self.pop(2); self.top = ['b2f(%s < %s)' % (v(a), v(b)), 'fe((%s - %s) %% B32())' % (v(a), v(b))] + self.top; return
        if name == 'U32div':
            b, a = self.pop(2); self.top = ['fe(%s %% %s)' % (v(a), v(b)), 'fe(%s / %s)' % (v(a), v(b))] + self.top; return
        if name == 'U32add3':
            c, b, a = self.pop(3); self.top = hl('%s + %s + %s' % (v(a), v(b), v(c))) + self.top; self.shl(); return
        if name == 'U32madd':
            b, a, c = self.pop(3); self.top = hl('%s * %s + %s' % (v(a), v(b), v(c))) + self.top; self.shl(); return
        if name == 'CSwap':
            c, b, a = self.pop(3)
            self.top = ['(if %s == 1 { %s } else { %s })' % (v(c), a, b), '(if %s == 1 { %s } else { %s })' % (v(c), b, a)] + self.top; self.shl(); return
        if name == 'Expacc':
            self.need(4); bit, base, acc, b = self.top[0:4]
            nb = '(%s %% 2)' % v(b)
            self.top[0:4] = ['fe(%s)' % nb, 'fe(fmul(%s, %s))' % (v(base), v(base)),
                             'fe(fmul(%s, if %s == 1 { %s } else { 1 }))' % (v(acc), nb, v(base)), 'fe(%s / 2)' % v(b)]
            return
        raise E2Error('no normal-form rule for %s' % name)


def parse_sexpr(txt):
    """(span op op(imm) ... | decorators) (join A B) (split T F) (loop B) (call H) ..."""
    pos = [0]

    def skip_ws():
        while pos[0] < len(txt) and txt[pos[0]].isspace():
            pos[0] += 1

    def node():
        skip_ws()
        assert txt[pos[0]] == '(', txt[pos[0]:pos[0] + 20]
        pos[0] += 1
        m = re.match(r'\w+', txt[pos[0]:])
        kind = m.group(0)
        pos[0] += len(kind)
        if kind == 'span':
            bar = txt.index('|', pos[0])
            ops = txt[pos[0]:bar].split()
            # decorators may contain parentheses: find the matching close
            depth, k = 1, bar + 1
            while depth:
                if txt[k] == '(':
                    depth += 1
                elif txt[k] == ')':
                    depth -= 1
                k += 1
            decs = txt[bar + 1:k - 1].split()
            pos[0] = k
            return ('span', ops, decs)
        kids = []
        while True:
            skip_ws()
            if txt[pos[0]] == ')':
                pos[0] += 1
                break
            if txt[pos[0]] == '(':
                kids.append(node())
            else:
                m = re.match(r'[^\s()]+', txt[pos[0]:])
                kids.append(m.group(0))
                pos[0] += len(m.group(0))
        return (kind, kids)
    return node()


class Gen:
    """emits a chain of `let` bindings over a state (s: Seq<Felt>, ok: bool, pre: bool, k: int)"""

    def __init__(self):
        self.lines = []
        self.n = 0
        self.nops = 0
        self.sym = None        # when set, per-step normal forms are recorded in self.forms
        self.forms = []
        self.advn = 0

    def fresh(self):
        self.n += 1
        return self.n

    def emit_block(self, node, st):
        """st = (s, ok, pre, k) variable names; returns new names"""
        kind = node[0]
        if kind == 'span':
            ops = node[1]
            i = 0
            while i < len(ops):
                hit = match_macro(ops, i)
                if hit and self.sym is None:
                    st = self.emit_macro(hit, st)
                    i += hit[1]
                else:
                    st = self.emit_op(ops[i], st)
                    i += 1
            return st
        if kind == 'join':
            st = self.emit_block(node[1][0], st)
            return self.emit_block(node[1][1], st)
        if kind == 'split':
            s, ok, pre, k = st
            i = self.fresh()
            self.lines.append('let c%d = %s[0];' % (i, s))
            self.lines.append('let ok%d = %s && is_bin(c%d);' % (i, ok, i))
            self.lines.append('let s%d = sem_drop(%s);' % (i, s))
            base = ('s%d' % i, 'ok%d' % i, pre, k)
            gt = Gen(); gt.n = self.n + 1000 * (len(self.lines) + 1)
            t = gt.emit_block(node[1][0], base)
            gf = Gen(); gf.n = gt.n + 1000
            f = gf.emit_block(node[1][1], base)
            self.nops += gt.nops + gf.nops
            j = self.fresh()
            self.lines.append('let r%d = if c%d.val() == 1 { %s (%s, %s, %s, %s) } else { %s (%s, %s, %s, %s) };' % (
                j, i, ' '.join(gt.lines), t[0], t[1], t[2], t[3], ' '.join(gf.lines), f[0], f[1], f[2], f[3]))
            self.lines.append('let s%d = r%d.0; let ok%d = r%d.1; let pre%d = r%d.2; let k%d = r%d.3;' % (j, j, j, j, j, j, j, j))
            return ('s%d' % j, 'ok%d' % j, 'pre%d' % j, 'k%d' % j)
        raise E2Error('block kind %s not supported by the lemma generator' % kind)

    def emit_macro(self, hit, st):
        mname, mlen, mcall, mlem = hit
        s, ok, pre, k = st
        i = self.fresh()
        self.nops += mlen
        self.lemmas_used = getattr(self, 'lemmas_used', set()) | {mlem}
        self.lines.append('let c%d = %s; let s%d = c%d.0; let ok%d = %s && c%d.1;' % (i, mcall.format(s=s), i, i, i, ok, i))
        return ('s%d' % i, 'ok%d' % i, pre, k)

    def emit_op(self, op, st):
        s, ok, pre, k = st
        i = self.fresh()
        self.nops += 1
        m = re.match(r'(\w+)(?:\((\d+)\))?$', op)
        name, imm = m.group(1), m.group(2)
        ns = 's%d' % i
        if self.sym is not None:
            prev_form = self.sym.form()
            self.sym.step(name, imm, self.advn)
            self.sym.share()
            self.forms.append((ns, self.sym.form(), prev_form, s, op, len(self.sym.defs)))
        if name in OPS_PURE:
            self.lines.append('let %s = %s;' % (ns, OPS_PURE[name].format(s=s)))
            return (ns, ok, pre, k)
        if name in OPS_FAIL:
            sem, fail = OPS_FAIL[name]
            self.lines.append('let %s = %s; let ok%d = %s && !%s;' % (ns, sem.format(s=s), i, ok, fail.format(s=s)))
            return (ns, 'ok%d' % i, pre, k)
        if name in OPS_PRE:
            sem, p = OPS_PRE[name]
            self.lines.append('let %s = %s; let pre%d = %s && (%s ==> %s);' % (ns, sem.format(s=s), i, pre, ok, p.format(s=s)))
            return (ns, ok, 'pre%d' % i, k)
        if name == 'Push':
            self.lines.append('let %s = sem_push(%s, fe(%s));' % (ns, s, imm))
            return (ns, ok, pre, k)
        if name == 'Assert':
            self.lines.append('let %s = sem_assert(%s); let ok%d = %s && !fail_assert(%s);' % (ns, s, i, ok, s))
            return (ns, 'ok%d' % i, pre, k)
        if name == 'U32assert2':
            self.lines.append('let %s = %s; let ok%d = %s && !fail_u32assert2(%s);' % (ns, s, i, ok, s))
            return (ns, 'ok%d' % i, pre, k)
        if name == 'AdvPop':
            if self.sym is not None:
                # single span: the advice index is static
                self.lines.append('let %s = sem_push(%s, adv[%d]);' % (ns, s, self.advn))
                self.advn += 1
                return (ns, ok, pre, k)
            self.lines.append('let %s = sem_push(%s, adv[%s]); let k%d = %s + 1;' % (ns, s, k, i, k))
            return (ns, ok, pre, 'k%d' % i)
        raise E2Error('operation %s has no hub semantics in the lemma generator' % op)


def run_mastdump(repo, verif, jobs, tag='jobs'):
    tool = os.path.join(verif, 'tools', 'mastdump')
    work = os.path.join(verif, '.gen', 'mastdump')
    os.makedirs(work, exist_ok=True)
    # build against the current tree (path deps are rewritten when VERIF_REPO is not /repo)
    crate = os.path.join(work, 'crate')
    os.makedirs(os.path.join(crate, 'src'), exist_ok=True)
    cargo = open(os.path.join(tool, 'Cargo.toml')).read().replace('/repo/', repo.rstrip('/') + '/')
    open(os.path.join(crate, 'Cargo.toml'), 'w').write(cargo)
    open(os.path.join(crate, 'src', 'main.rs'), 'w').write(open(os.path.join(tool, 'src', 'main.rs')).read())
    open(os.path.join(crate, 'Cargo.lock'), 'w').write(open(os.path.join(repo, 'Cargo.lock')).read())
    env = dict(os.environ)
    env['CARGO_TARGET_DIR'] = os.path.join(verif, '.cache', 'target')
    env['CARGO_NET_OFFLINE'] = 'true'
    p = subprocess.run(['cargo', 'build', '--offline', '--quiet'], cwd=crate, env=env, stdout=subprocess.PIPE, stderr=subprocess.STDOUT, text=True)
    if p.returncode != 0:
        raise E2Error('mastdump does not build against the current tree: ' + p.stdout[-600:])
    jf = os.path.join(work, '%s.txt' % tag)
    with open(jf, 'w') as f:
        for name, src in jobs:
            f.write('%s\t%s\n' % (name, src.replace('\n', '\\n')))
    p = subprocess.run([os.path.join(env['CARGO_TARGET_DIR'], 'debug', 'mastdump'), os.path.join(repo, 'stdlib', 'asm'), jf],
                       stdout=subprocess.PIPE, stderr=subprocess.PIPE, text=True)
    if p.returncode != 0:
        raise E2Error('mastdump failed: ' + p.stderr[-600:])
    res = {}
    for ln in p.stdout.split('\n'):
        if not ln.strip():
            continue
        parts = ln.split('\t')
        res[parts[0]] = parts[1:]
    return res


def generate(specfile, repo, verif):
    """returns (text, [(lemma_name, first_line_offset, nlines)], info)"""
    spec = importlib.util.spec_from_file_location('masm_spec', os.path.join(verif, specfile))
    mod = importlib.util.module_from_spec(spec)
    spec.loader.exec_module(mod)
    jobs = [(name, e['src']) for name, e in mod.SPECS.items()]
    dumped = run_mastdump(repo, verif, jobs, re.sub(r'\W+', '_', specfile))
    out = []
    index = []
    info = []
    for name, e in mod.SPECS.items():
        d = dumped.get(name)
        if d is None or d[0] != 'OK':
            raise E2Error('%s: the assembler rejected the source: %s' % (name, d))
        tree = parse_sexpr(d[2])
        g = Gen()
        if e.get('normal_forms'):
            if tree[0] != 'span':
                raise E2Error('%s: normal forms are generated for single-span procedures only' % name)
            g.sym = Sym()
        st = g.emit_block(tree, ('s0', 'true', 'true', '0int'))
        ident = re.sub(r'\W+', '_', name)
        lines = []
        lines.append('// %s  —  MAST (from /repo\'s assembler): %s' % (name, d[2][:300]))
        lines.append('pub proof fn lemma_%s(s0: Seq<Felt>, adv: Seq<Felt>)' % ident)
        lines.append('    requires s0.len() >= 16,' + ''.join(' %s,' % p for p in e.get('pre', [])))
        lines.append('    ensures ({')
        for ln in g.lines:
            lines.append('        ' + ln)
        lines.append('        let r = %s; let ok = %s; let pre_ok = %s;' % (st[0], st[1], st[2]))
        lines.append('        &&& pre_ok')
        for p in e.get('post', []):
            lines.append('        &&& (ok ==> (%s))' % p)
        if e.get('fails') is not None:
            lines.append('        &&& ((!ok) <==> (%s))' % e['fails'])
        if e.get('never_fails'):
            lines.append('        &&& ok')
        lines.append('    })')
        lines.append('{')
        for lem in sorted(getattr(g, 'lemmas_used', set())):
            lines.append('    broadcast use %s;' % lem)
        for h in e.get('hide', []):
            lines.append('    hide(%s);' % h)
        step_lemmas = []
        if e.get('chain_in_body'):
            forms = {f[0]: f for f in g.forms}
            if forms:
                # the per-step lemmas carry the semantics; keep the definitions folded in this body
                for fn_ in sorted(set(re.findall(r'\bsem_\w+', ' '.join(g.lines)))):
                    lines.append('    hide(%s);' % fn_)
                lines.append('    assert(s0 =~= %s);' % Sym().form())
            ndef = 0
            alldefs = g.sym.defs if g.sym is not None else []
            for ln in g.lines:
                lines.append('    ' + ln)
                mm = re.match(r'let (s\d+) = ([^;]*);', ln)
                if mm and mm.group(1) in forms:
                    ns_, form, prev_form, prev_name, op_, nd_ = forms[mm.group(1)]
                    while ndef < nd_:
                        lines.append('    let %s = %s;' % alldefs[ndef])
                        mfe = re.fullmatch(r'fe\((.*)\)', alldefs[ndef][1])
                        if mfe and e.get('val_facts'):
                            # value-level fact for the shared term (true iff the inner integer is a canonical
                            # field element): gives the final arithmetic goal plain integers to work with
                            lines.append('    assert(%s.val() == (%s));' % (alldefs[ndef][0], mfe.group(1)))
                        ndef += 1
                    sem_on_prev = re.sub(r'\b%s\b' % prev_name, '(' + prev_form + ')', mm.group(2))
                    ln_name = 'step_%s_%s' % (ident, ns_)
                    step_lemmas.append((ln_name, op_, sem_on_prev, form, ''.join('let %s = %s; ' % d for d in alldefs[:nd_])))
                    lines.append('    %s(s0, adv);' % ln_name)
                    lines.append('    assert(%s == %s);' % (ns_, form))
            lines.append('    let r = %s; let ok = %s; let pre_ok = %s;' % (st[0], st[1], st[2]))
        for h in e.get('hints', []):
            lines.append('    ' + h)
        lines.append('}')
        for ln_name, op_, sem_on_prev, form, lets_ in step_lemmas:
            lines.append('// one step (%s) of %s on the normal form' % (op_, name))
            lines.append('pub proof fn %s(s0: Seq<Felt>, adv: Seq<Felt>)' % ln_name)
            # the step lemmas are about stack shapes only: they need the depth and (where advice values
            # appear in the forms) the advice length the main lemma requires
            advp = [q for q in e.get('pre', []) if q.startswith('adv.len()')]
            lines.append('    requires s0.len() >= 16,' + ''.join(' %s,' % q for q in advp))
            lines.append('    ensures ({ %s%s == %s })' % (lets_, sem_on_prev, form))
            lines.append('{ %sassert(%s =~= %s); }' % (lets_, sem_on_prev, form))
        index.append((name, len(out), len(lines)))
        info.append({'lemma': name, 'ops': g.nops, 'mast': d[2][:200], 'root_hash': d[1]})
        out.extend(lines)
    return '\n'.join(out), index, info
