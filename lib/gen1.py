import sys; sys.path.insert(0,'/verif/lib')
from weave import *
import os
name=sys.argv[1]
u=Unit(name,'/repo','/verif')
txt=u.build('/verif/units/%s.vu'%name)
os.makedirs('/verif/.gen',exist_ok=True)
open('/verif/.gen/%s.rs'%name,'w').write(txt)
print(u.rewrite_counts, len(u.items), u.clauses)
