HOOK_COMMITS = []
NOTES = ('Contract-based deductive verification of the real code: functions are extracted mechanically from /repo on every run, '
         'side-car contracts are woven on, Verus discharges every obligation. exit 2 = undecided (never an alarm). See DESIGN.md.')
ENGINES = [
    {'name': 'E1 verus-extract', 'path': '/verif/check, /verif/lib/{rsitems,weave}.py, /verif/units/*.vu, /verif/prelude/*.rs',
     'serves_properties': ['C01', 'C02', 'C04', 'C05', 'C06', 'C07', 'C08', 'C13', 'C15', 'C19'], 'kind_free_text': 'mechanical extraction of /repo Rust items into single-file Verus units with side-car contracts; Z3 back end'},
    {'name': 'E2 mast-lemmas', 'path': '/verif/tools/mastdump, /verif/lib/e2gen.py, /verif/masm_specs/*.py, /verif/units/masm_*.vu', 'serves_properties': ['C05', 'C09', 'C16'], 'kind_free_text': 'masm sources assembled by /repo\'s assembler, MAST dumped and turned into Verus lemmas over the hub operation semantics'},
    {'name': 'E3 kani', 'path': '/verif/kani/*', 'serves_properties': [], 'kind_free_text': 'Kani/CBMC harness crates with path deps on /repo crates; complete for finite domains, otherwise labelled bounded'},
]
PENDING = 'not yet claimed: machinery for this property is still being built (see DESIGN.md §10 build order)'
NOT_APPLICABLE = {
    'C03': 'Whole-trace property (every row of the finalised main + auxiliary trace satisfies every constraint and boundary assertion). Both sides are under contract separately and meet in the hub - C04 pins each stack constraint to its documented polynomial, C05/C07/C13 pin each operation\'s next state, helper registers and decoder rows - but the composition runs through finalize_trace / into_trace / fill_trace and the aux-column builders (column transposition over Vec<Vec<Felt>>, iterator chains, closures, hasher/bitwise/range chiplet tables, random rows), which are outside the subset the extraction can bring to Verus; no function contract within reach states "for all rows of the finished trace". A bounded prove-and-verify run would be a different technique. Not claimed.',
    'C12': 'Multiset balance of all lookups is a whole-trace algebraic identity over running-product / LogUp columns for every challenge; the aux-trace builders (processor/src/*/aux_trace) are iterator/closure code over whole columns and the AIR of this version does not constrain most of these columns. No per-function contract within reach expresses it. Not claimed.',
    'C18': 'truncate_stack, memcopy, pipe_* and the SMT / MMR procedures are loops over memory with hperm / mtree_* / advice-map operations; the MAST-lemma engine (E2) handles straight-line spans and splits over the field / u32 / stack operations only (no loop invariants over exec_rel at the masm level, no hasher or Merkle-store model). Not claimed.',
    'C17': 'BLAKE3/SHA-256/Keccak-256 masm programs (800-3500 straight-line u32 ops) vs reference functions is a full bit-vector equivalence of compression functions; no function contract within reach of Verus/Z3 or Kani decides it (DESIGN §7 C17)',
}
META = {
    'C10': {
        'engine': 'E1 verus-extract',
        'technique': 'Verus contracts on the real encoders (bytes written == grammar function enc(x)) and decoders (requires-free; for all x and tails: rest == enc(x) ++ tail ==> Ok(x), rest\' == tail) of the core data types, with induction lemmas on the byte codec; Verus contracts on the real 230-arm instruction encoder / decoder against a grammar function generated from the code on every run (decoder: accepted bytes == enc_instr(result) ++ rest); bounded stand-in (real parser / serialiser / assembler) for the AST containers, libraries and recompilation',
        'design_ref': '§7 C19/C10, §11',
        'level_text': 'Deductive proof for all values: StackInputs and StackOutputs decode(encode(x)) == x, consuming exactly the bytes written (any trailing bytes untouched); encoders follow the documented grammar; HashFunction tags map back. Instruction codec, all 230 variants and every payload: the encoder writes enc_instr(x), and every byte string the decoder accepts is enc_instr(of the instruction it returns) followed by the unread rest - a decoder arm that returns another variant, reads another width or order cannot verify. Bounded (1626 cases): parser-produced program / module ASTs for every instruction form and container shape, MaslLibrary files and the core data types round-trip to equal objects, identical bytes and the same MAST root.',
        'level_note': 'Not proved deductively: decoder completeness on the instruction codec (accepts every enc_instr(x)), the AST container / library codecs (string / Vec / BTreeMap code) and recompilation - covered by the bounded stand-ins ast_roundtrip and ast_shapes only (labelled bounded). Sub-codecs of instruction payloads (Felt, ProcedureId, RpoDigest, AdviceInjectorNode, DebugOptions) are assumed.',
    },
    'C11': {
        'engine': 'E1 verus-extract',
        'technique': 'Verus contracts on the assembler\'s real validation functions (local index, caller context, zero divisor, exponent width) for every parameter value; bounded stand-in (real assembler + processor on a generated family) for history / library-order / re-export independence, call-set closure and the table of invalid sources',
        'design_ref': '§11',
        'level_text': 'Deductive proof (all parameter values): a local index is rejected exactly when it is not below the procedure\'s number of locals, `caller` exactly outside a kernel, div.0 and exponent widths above 64 exactly, nothing is appended to the span on rejection and none of these functions can panic. Bounded (6060 generated programs over 4 libraries and a kernel, 545 invalid / boundary sources, ~170 parameter-range sources): same MAST root and code block table whatever the assembler compiled before, in every library order and through re-exports; every assembled program executes without a missing procedure; invalid sources give an error - except for the open known findings F44-F47, F50 (procedure-cache history dependence, syscall / caller acceptance paths, a valid wrapper rejected) and F34.',
        'level_note': 'PARTIAL claim: the clauses about history independence and self-containment are whole-history properties of the assembler\'s cache / context state (BTreeMap, string keys, closures) that no function contract within reach expresses; they are covered by the bounded stand-in only, labelled bounded and never counted as proved.',
    },
    'C14': {
        'engine': 'E1 verus-extract',
        'technique': 'Verus frame postconditions on the real execute_decorator, ensure_trace_capacity (System / Stack / Process) and op_clk; bounded stand-in (real processor) for the relational parts: re-run determinism, capacity-hint and debug-assembly independence, step iterator forward/backward against the trace',
        'design_ref': '§7 C14, §11',
        'level_text': 'Deductive proof for all programs and states: executing any decorator leaves stack, system registers (cycle count included), decoder operation stream and chiplets unchanged; trace-capacity growth (driven by the expected-cycles hint) preserves the current state and every earlier row; clk pushes the current clock. Bounded (6 programs): identical traces on re-run, under hints 64..4096 and under debug-mode assembly; the step iterator agrees with the trace at every clock in both directions - except for the open known finding F19.',
        'level_note': 'The relational statements (two runs give the same trace) are not function contracts; they are checked bounded only and labelled so. Known finding F19 (open): VmStateIterator reports the overflow part of the stack one cycle early.',
    },
    'C07': {
        'engine': 'E1 verus-extract',
        'technique': 'Verus contracts on the real memory operations, Chiplets memory front-end, System/Stack context switches and the call/syscall/dyn block executors against hub rules (rule_call / rule_syscall / rule_dyn) with memory and context in the state; memory-frame invariant (mem_frame) carried by every executor',
        'design_ref': '§7 C07, §11',
        'level_text': 'Deductive proof for all programs, nestings and inputs: memory operations read/write exactly the addressed word of the CURRENT context (never-written cells read as zeros, an element store changes element 0 only, addresses >= 2^32 fail); call/dyncall run the callee in a fresh context (id = clock + 1) that sees only the top 16 elements, must return with depth exactly 16 (else InvalidStackDepthOnReturn), after which the caller\'s context id, fmp, fn_hash, every stack element below the top 16 and - for a non-root caller - every memory cell of its context are exactly as before; syscall runs in the root context with fmp = 2^31, only for kernel procedures, never from inside a syscall; every block leaves the memory of all other pre-existing non-root contexts untouched.',
        'level_note': 'Trusted / assumed: the memory chiplet as word RAM (bounded stand-in memory_model on the real chiplet), decoder block-stack contracts (proved separately in unit decoder), kernel ROM lookup, hub rules as the semantics definition. Not decided: non-aliasing of procedure locals (needs the assembler\'s fmp arithmetic), which hash the assembler stores in CALL nodes.',
    },
    'C15': {
        'engine': 'E1 verus-extract',
        'technique': 'Verus function contracts woven onto code extracted from /repo each run (System::advance_clock, Process::execute_op/advance_clock, block executors with decreases, ExecutionOptions::new); bounded stand-in cycle_limit_sweep (limits n-3 .. n+3 around the exact cycle count of 50 programs, 20 non-terminating programs, options grid)',
        'design_ref': '§7 C15',
        'level_text': 'Deductive proof for all inputs: advance_clock increments by exactly one and returns Ok iff the new clk <= max_cycles (Err carries CycleLimitExceeded(max)); execute_op = exactly one cycle; every block executor and the while.true loop verify with decreases max_cycles - clk (every program stops); ExecutionOptions::new refuses exactly the documented option sets. Bounded (225410 checks): success exactly when the limit is at least the cycle count for 50 programs of every control-flow shape; non-terminating programs (also inside call / syscall / dyn targets) stop with the limit error; ExecutionOptions::new on a 301 x 301 grid.',
        'level_note': 'Trusted: Felt model (winter-math), core::u32::next_power_of_two contract, Verus/Z3. Preconditions: max_cycles <= 2^29 - 1 (beyond it the trace cannot be allocated), expected_cycles <= 2^31. span/call/dyn executors: contract assumed inside unit executor until their own proofs land.',
    },
    'C08': {
        'engine': 'E1 verus-extract',
        'technique': 'Verus representation invariant on the real OpBatchAccumulator + loop invariant on batch_ops; postconditions on Join/Split/Loop/Call/Dyn::new; opcode table vs docs; bounded stand-in (real assembler + processor) for the invariance / sensitivity clauses',
        'design_ref': '§7 C08',
        'level_text': 'Deductive proof for all operation sequences: batching keeps order, drops/duplicates nothing (concat of batch ops == input), <= 8 groups/batch, <= 9 ops/group, immediates in the following groups in order, an immediate-carrying op is never 9th, group value = sum opcode_k*128^k (decodes back digit by digit, NOOP = 0 padding), span hash = RPO hash of the concatenated group arrays; control-block hashes are merges in the documented domains; opcode table equals the documented one. Bounded (11 programs, ~1700 compilations): the root is unchanged by comments, whitespace, procedure names, debug mode and decorators at every body position, changes with every operation / immediate, and equals the hash recorded by execute() - except for the open known findings F34 and F35.',
        'level_note': 'Trusted: RPO (hash_elements / merge_in_domain) uninterpreted - collision resistance not assumed; Felt model; flatten_slice_elements contract. DYN_CONSTANT vs real RPO is not re-computed here.',
    },
    'C05': {
        'engine': 'E1 verus-extract',
        'technique': 'Verus contracts on the real stack primitives (whole-view postconditions) and on every op_* function against hub relations written from the docs; execute_op dispatcher proved against op_rel; E1 on the immediate-expansion functions of the assembler for every immediate (unit asm_field); bounded stand-ins instr_reference (reference semantics from the docs, 92056 cases) and immediate_forms (parser / parameter ranges)',
        'design_ref': '§7 C05',
        'level_text': 'Deductive proof for all stack states (any depth >= 16, any operand values): L1 Stack::{shift_left,shift_right,copy_state,set,..} with zero-fill at depth 16, LIFO overflow, every deeper element unchanged; L2 every field/u32/stack-manipulation/system/ext2/push operation ensures next_view == sem_X(view) and fails exactly when fail_X(view); L3 the operation sequences the assembler emits for single instructions compute the documented instruction results. The immediate forms of add / sub / mul / div / exp and the constant pushes are proved for EVERY immediate on the real assembler functions. Bounded: 92056 instruction cases against reference semantics written from the docs (complete final stack, failure kind, error code); ~170 sources for immediate / constant parsing and parameter ranges.',
        'level_note': 'Trusted: Felt model; bitwise chiplet contract (u32and/xor); host = arbitrary oracle. Unchecked u32 arithmetic ops are specified (as documented) for u32 operands only. L3: 180+ assembly instructions (field, u32, stack manipulation, ext2, push) are assembled by /repo\'s assembler and proved against the documented instruction semantics (units masm_instr*); memory/crypto/advice instructions and the text parser are not decided.',
    },
    'C06': {
        'engine': 'E1 verus-extract',
        'technique': 'Verus contracts on the real block executors against an axiomatised least-relation semantics (exec_rel / iter_rel intro rules from the docs), loop invariant in continuation style; bounded stand-in flow_reference (reference interpreter written from the docs vs the real assembler + processor on ~18000 generated programs) for the AST -> MAST lowering',
        'design_ref': '§7 C06',
        'level_text': 'Deductive proof for all programs and inputs: a successful run of a join/split/loop block is derivable with the documented rules only (split takes exactly the selected branch, loop iterates exactly while the popped value is 1); a non-binary condition at a split, at loop entry or after an iteration is an execution error; executors are properly nested and terminate. Bounded (about 18000 generated nestings of if / else / while / repeat / exec with locals and colliding imports, condition values 0, 1, 2, p-1): final stack and failure agree with a reference interpreter; exec equals textual inlining.',
        'level_note': 'Trusted: decoder method contracts (assumed), hub rules are the semantics definition. AST->MAST lowering (repeat.n unrolling, exec inlining) and the parser are outside Verus reach: not decided.',
    },
    'C13': {
        'engine': 'E1 verus-extract',
        'technique': 'Verus loop invariants on the real execute_op_batch / execute_span_block against the documented row stream (batch_stream), using batch_ok proved for batch_ops; bounded stand-in decoder_model (independent batching / decoding model vs decoder columns and VmStateIterator on 20299 programs) for the decoder functions Verus cannot take (span wrappers)',
        'design_ref': '§7 C13',
        'level_text': 'Deductive proof for all programs: the operations the decoder records for a span are exactly SPAN, the batches\' operations in order with a NOOP only after a group-ending immediate op and one per missing group up to the next power of two, RESPAN between batches, END; control blocks record JOIN/SPLIT/LOOP/REPEAT/END around their children\'s streams for the decisions taken; block starts and ends are properly nested. Bounded (20299 programs): op bits, group count, hasher state and the op per clock agree with an independent model of programs.md / decoder/main.md.',
        'level_note': 'Trusted: decoder method contracts (one row per call with the named opcode) are assumed in unit executor; unit decoder proves them on the real Decoder/DecoderTrace/BlockStack for the control-block methods and row writers (span wrappers not yet); final-row program hash not decided.',
    },
    'C04': {
        'engine': 'E1 verus-extract',
        'technique': 'Verus postconditions pinning every stack constraint function to flag * documented polynomial (whole result slice, wiring of all groups), plus hub lemmas (pure field arithmetic, P prime) that the documented constraints force the operation result; bounded fault enumeration air_full_coverage (every cell incl. decoder helpers, range checker, hasher / bitwise / memory chiplets; documentation-derived model)',
        'design_ref': '§7 C04',
        'level_text': 'Deductive proof for all frames: each enforce_* function of field/u32/stack-manipulation/system/io/overflow/general constraints writes exactly the documented polynomials into its own cells; the 93 unique + 17 general constraints are wired on disjoint slices; soundness lemmas for ADD/MUL/INCR/NEG/NOT/AND/EQ/EQZ/binary check show a wrong next value makes a constraint non-zero. Bounded (~49000 row pairs, every cell perturbed): every cell the documentation says is pinned by a main-trace transition constraint is caught, incl. the chiplets and the range checker (F41-F43 repaired).',
        'level_note': 'Trusted: OpFlags accessor values (OpFlags::new not yet under contract), P prime, winterfell frame. Not decided: chiplet constraints, range checker, cross-row lookups. Polynomials are pinned syntactically: an algebraically equivalent refactoring needs the contract updated.',
    },
    'C19': {
        'engine': 'E1 verus-extract',
        'technique': 'Verus totality proofs (no precondition on the bytes) and invariant-establishing postconditions on the real decoders of core/air types, against assumed ByteReader/ByteWriter contracts; the same for the real 230-arm AST instruction decoder',
        'design_ref': '§7 C19/C10',
        'level_text': 'Deductive proof for all byte strings: StackOutputs/StackInputs/Kernel decoders, ExecutionProof::from_bytes/HashFunction::try_from and the assembly instruction decoder (Instruction::read_from, OpCode::read_from, parse_num_push_params) return Ok or Err without panicking; accepted StackOutputs/Kernel satisfy the constructors\' invariants (canonical elements, >= 16 items, consistent overflow addresses, <= 255 distinct kernel procedures); StackOutputs::new rejects exactly non-canonical / inconsistent data.',
        'level_note': 'Trusted: winter-utils reader/writer contracts, std sort/windows helper contracts inside Kernel::new. LibraryPath::read_from is covered by a bounded exhaustive run only (labelled bounded); a bounded set of hostile AST encodings (deep nesting, every byte in instruction position, truncations) is decoded one process per input (open known finding F38: unbounded recursion aborts on 20000 nested blocks). Not decided: AST container / library decoders of the assembly crate (Node, CodeBody, ProcedureAst, ModuleAst, MaslLibrary), iterator-closure constructors (try_from_values, with_stack_values).',
    },
    'C02': {
        'engine': 'E1 verus-extract',
        'technique': 'Verus postconditions on verify() (statement, hasher tag, accept set), on the stack boundary-assertion builders (whole assertion list) and on the proof/statement decoders',
        'design_ref': '§7 C02',
        'level_text': 'Deductive proof of the binding glue: verify() hands the STARK verifier exactly the caller\'s program info, inputs and outputs with the hasher of the proof\'s tag and the documented accept set, and returns Err whenever the STARK verifier does; every top-16 input/output and the initial depth/overflow address is bound by exactly one boundary assertion; malformed proof headers and malformed statements are rejected without panic.',
        'level_note': 'Trusted: winterfell (cryptographic soundness, proof body decoding). Not decided: aux boundary products, to_elements ordering, range-checker assertions.',
    },
    'C01': {
        'engine': 'E1 verus-extract',
        'technique': 'Verus postconditions on the proving-option presets (membership in the verifier accept sets), on the prover\'s get_pub_inputs and on the trace-length arithmetic (Chiplets::trace_len and fragment offsets, TraceLenSummary::padded_trace_len); bounded prove_grid over main- and chiplet-dominated trace lengths around powers of two',
        'design_ref': '§7 C01',
        'level_text': 'Glue obligations only: each standard preset (96/128-bit, regular/recursive) carries a hash function and options that verify() accepts for that hash function; the statement the prover commits to is (trace program info, given inputs, given outputs), the same shape verify() rebuilds; the chiplets length is the sum of the four fragments plus the padding row and the padded length is the smallest power of two holding cycles + HALT row, range table and chiplet rows plus the random row. Bounded: 14 real prove / verify / byte-round-trip runs incl. exact-fit main lengths 2^k - 1 (F23) and chiplet lengths 2^6 - 3 .. 2^6 + 2.',
        'level_note': 'Protocol completeness (winterfell prover succeeds, verifier accepts, security level) is assumed, not proved; prove() body out of reach; honest-trace satisfaction is property C03.',
    },
    'C16': {
        'engine': 'E2 mast-lemmas',
        'technique': 'Verus lemmas generated over the MAST that /repo\'s assembler builds from stdlib/asm/math/u64.masm and u256.masm, composing the hub operation semantics; per-step normal-form lemmas (shared sub-terms) for long procedures; bounded stand-in (real assembler + processor) on the limb-boundary grid for the rest',
        'design_ref': '§5, §7 C16',
        'level_text': 'Deductive proof for all 32-bit limbs and every stack tail: overflowing/wrapping add, sub, mul, lt/gt/lte/gte/eq/neq/eqz, min/max, and/or/xor, div/mod/divmod compute exactly the documented integer functions, leave the rest of the stack untouched (zero fill at depth 16 included); the dividing procedures never complete on a zero divisor; shl; u256 and / or / xor / iszero_unsafe / eq_unsafe. Bounded: all 29 u64 and all 8 u256 procedures on the limb-boundary grid.',
        'level_note': 'Trusted: hub operation semantics (proved for the processor in C05), mastdump/generator, P prime. Not proved deductively (bounded only): u64 shr/rotl/rotr/clz/ctz/clo/cto, u256 add/sub/mul.',
    },
    'C09': {
        'engine': 'E2 mast-lemmas',
        'technique': 'Verus lemmas over the MAST /repo\'s assembler emits, with the advice stack universally quantified (adv[k] is whatever the host pushed); hub bit-mask lemmas (generated bit-vector cases) and the pow2 macro step; Verus contracts on op_advpop/op_advpopw; bounded dishonest-host stand-in for the Merkle instructions; bounded stand-in dishonest_host_full (attacker-controlled hints and Merkle paths, ~250000 runs)',
        'design_ref': '§7 C09, §11',
        'level_text': 'Deductive proof for EVERY advice content a host may supply: u32clz, u32clo, u32ctz, u32cto and ilog2 complete exactly when the hint is the true count / logarithm (and return it), ext2inv completes exactly when the hinted pair is the inverse, stdlib u64 div/mod/divmod either fail or produce the true quotient/remainder; advice pops push exactly the host-returned value. Honest-host completeness follows from the same equivalences (ok <==> hint correct). Bounded (~250000 runs with a dishonest host incl. Merkle paths / indices / depths for mtree_get / mtree_set / mtree_verify): no completed run leaves a wrong result.',
        'level_note': 'Merkle instructions (mtree_get / mtree_set / mtree_verify) are covered by the bounded dishonest-host stand-in only (the hasher chiplet and the Merkle store are not modelled). ext2div and the u64 clz/ctz/clo/cto procedures have no lemma. Two genuine defects in this area were found and repaired: F21 ilog2 accepted wrong hints, F22 op_mpverify ignored the depth.',
    },
}
