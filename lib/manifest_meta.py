HOOK_COMMITS = []
NOTES = ('Contract-based deductive verification of the real code: functions are extracted mechanically from /repo on every run, '
         'side-car contracts are woven on, Verus discharges every obligation. exit 2 = undecided (never an alarm). See DESIGN.md.')
ENGINES = [
    {'name': 'E1 verus-extract', 'path': '/verif/check, /verif/lib/{rsitems,weave}.py, /verif/units/*.vu, /verif/prelude/*.rs',
     'serves_properties': ['C05', 'C06', 'C08', 'C15'], 'kind_free_text': 'mechanical extraction of /repo Rust items into single-file Verus units with side-car contracts; Z3 back end'},
    {'name': 'E3 kani', 'path': '/verif/kani/*', 'serves_properties': [], 'kind_free_text': 'Kani/CBMC harness crates with path deps on /repo crates; complete for finite domains, otherwise labelled bounded'},
]
PENDING = 'not yet claimed: machinery for this property is still being built (see DESIGN.md §10 build order)'
NOT_APPLICABLE = {
    'C01': PENDING, 'C02': PENDING, 'C03': PENDING, 'C04': PENDING, 'C05': PENDING, 'C06': PENDING, 'C07': PENDING,
    'C08': PENDING, 'C09': PENDING, 'C10': PENDING, 'C11': PENDING, 'C12': PENDING, 'C13': PENDING, 'C14': PENDING,
    'C16': PENDING, 'C18': PENDING, 'C19': PENDING,
    'C17': 'BLAKE3/SHA-256/Keccak-256 masm programs (800-3500 straight-line u32 ops) vs reference functions is a full bit-vector equivalence of compression functions; no function contract within reach of Verus/Z3 or Kani decides it (DESIGN §7 C17)',
}
META = {
    'C15': {
        'engine': 'E1 verus-extract',
        'technique': 'Verus function contracts woven onto code extracted from /repo each run (System::advance_clock, Process::execute_op/advance_clock, block executors with decreases, ExecutionOptions::new)',
        'design_ref': '§7 C15',
        'level_text': 'Deductive proof for all inputs: advance_clock increments by exactly one and returns Ok iff the new clk <= max_cycles (Err carries CycleLimitExceeded(max)); execute_op = exactly one cycle; every block executor and the while.true loop verify with decreases max_cycles - clk (every program stops); ExecutionOptions::new refuses exactly the documented option sets.',
        'level_note': 'Trusted: Felt model (winter-math), core::u32::next_power_of_two contract, Verus/Z3. Preconditions: max_cycles <= 2^29 - 1 (beyond it the trace cannot be allocated), expected_cycles <= 2^31. span/call/dyn executors: contract assumed inside unit executor until their own proofs land.',
    },
    'C08': {
        'engine': 'E1 verus-extract',
        'technique': 'Verus representation invariant on the real OpBatchAccumulator + loop invariant on batch_ops; postconditions on Join/Split/Loop/Call/Dyn::new; opcode table vs docs',
        'design_ref': '§7 C08',
        'level_text': 'Deductive proof for all operation sequences: batching keeps order, drops/duplicates nothing (concat of batch ops == input), <= 8 groups/batch, <= 9 ops/group, immediates in the following groups in order, an immediate-carrying op is never 9th, group value = sum opcode_k*128^k (decodes back digit by digit, NOOP = 0 padding), span hash = RPO hash of the concatenated group arrays; control-block hashes are merges in the documented domains; opcode table equals the documented one.',
        'level_note': 'Trusted: RPO (hash_elements / merge_in_domain) uninterpreted - collision resistance not assumed; Felt model; flatten_slice_elements contract. DYN_CONSTANT vs real RPO is not re-computed here.',
    },
    'C05': {
        'engine': 'E1 verus-extract',
        'technique': 'Verus contracts on the real stack primitives (whole-view postconditions) and on every op_* function against hub relations written from the docs; execute_op dispatcher proved against op_rel',
        'design_ref': '§7 C05',
        'level_text': 'Deductive proof for all stack states (any depth >= 16, any operand values): L1 Stack::{shift_left,shift_right,copy_state,set,..} with zero-fill at depth 16, LIFO overflow, every deeper element unchanged; L2 every field/u32/stack-manipulation/system/ext2/push operation ensures next_view == sem_X(view) and fails exactly when fail_X(view).',
        'level_note': 'Trusted: Felt model; bitwise chiplet contract (u32and/xor); host = arbitrary oracle. Unchecked u32 arithmetic ops are specified (as documented) for u32 operands only. L3 (assembly instruction -> op sequence via the real assembler) and the text parser are not decided yet.',
    },
    'C06': {
        'engine': 'E1 verus-extract',
        'technique': 'Verus contracts on the real block executors against an axiomatised least-relation semantics (exec_rel / iter_rel intro rules from the docs), loop invariant in continuation style',
        'design_ref': '§7 C06',
        'level_text': 'Deductive proof for all programs and inputs: a successful run of a join/split/loop block is derivable with the documented rules only (split takes exactly the selected branch, loop iterates exactly while the popped value is 1); a non-binary condition at a split, at loop entry or after an iteration is an execution error; executors are properly nested and terminate.',
        'level_note': 'Trusted: decoder method contracts (assumed), hub rules are the semantics definition. AST->MAST lowering (repeat.n unrolling, exec inlining) and the parser are outside Verus reach: not decided.',
    },
}
