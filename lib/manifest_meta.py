HOOK_COMMITS = []
NOTES = ('Contract-based deductive verification of the real code: functions are extracted mechanically from /repo on every run, '
         'side-car contracts are woven on, Verus discharges every obligation. exit 2 = undecided (never an alarm). See DESIGN.md.')
ENGINES = [
    {'name': 'E1 verus-extract', 'path': '/verif/check, /verif/lib/{rsitems,weave}.py, /verif/units/*.vu, /verif/prelude/*.rs',
     'serves_properties': ['C15'], 'kind_free_text': 'mechanical extraction of /repo Rust items into single-file Verus units with side-car contracts; Z3 back end'},
    {'name': 'E3 kani', 'path': '/verif/kani/*', 'serves_properties': [], 'kind_free_text': 'Kani/CBMC harness crates with path deps on /repo crates; complete for finite domains, otherwise labelled bounded'},
]
PENDING = 'not yet claimed: machinery for this property is still being built (see DESIGN.md §10 build order)'
NOT_APPLICABLE = {
    'C01': PENDING, 'C02': PENDING, 'C03': PENDING, 'C04': PENDING, 'C05': PENDING, 'C06': PENDING, 'C07': PENDING,
    'C08': PENDING, 'C09': PENDING, 'C10': PENDING, 'C11': PENDING, 'C12': PENDING, 'C13': PENDING, 'C14': PENDING,
    'C16': PENDING, 'C18': PENDING, 'C19': PENDING,
    'C17': 'BLAKE3/SHA-256/Keccak-256 masm programs (800-3500 straight-line u32 ops) vs reference functions is a full bit-vector equivalence of compression functions; no function contract within reach of Verus/Z3 or Kani decides it (DESIGN §7 C17)',
}
META = {
    'C15': {
        'engine': 'E1 verus-extract',
        'technique': 'Verus function contracts woven onto code extracted from /repo each run (System::advance_clock, ensure_trace_capacity, ExecutionOptions::new)',
        'design_ref': '§7 C15',
        'level_text': 'Deductive proof for all inputs: advance_clock increments by exactly one and returns Ok iff the new clk <= max_cycles (Err carries CycleLimitExceeded(max)); rows written equal the registers, all other rows unchanged; ExecutionOptions::new refuses exactly the documented option sets.',
        'level_note': 'Trusted: Felt model (winter-math), core::u32::next_power_of_two contract, Verus/Z3. Preconditions: clk < u32::MAX, expected_cycles <= 2^31.',
    },
}
