"""Unit assembler: reads a unit template (.vu), pulls the named items out of /repo's *current*
working tree, weaves the side-car contracts onto them and returns one Verus source file plus a
line map (generated line -> origin) used to name failed obligations.

Template directives (every other line is literal Verus text, origin 'lit'):

  //@include <path relative to /verif>
  //@rewrite <RID> <regex> ==> <replacement>         (applies to every later extraction)
  //@rewrite-off <RID>
  //@item <file> :: <path> [:: ...]   [flags]          copy an item verbatim
        flags: nopub  (do not widen visibility)   keepattrs
  //@fn <file> :: <path> [flags]                        start of a contracted function
        flags: nopub, external_body (trusted: contract assumed, body not verified),
               ret=<name> (name of the return value, default r), noret
    //@attr <attribute text>
    //@requires / //@ensures / //@decreases / //@recommends    (clauses follow, one or more lines)
    //@loop <k>                                          (clauses for k-th loop, 0-based)
    //@proof after|before <n> <exact text>              (proof lines follow; n-th occurrence, 0-based)
  //@end
  //@canary                                              emits the must-fail vacuity canary
"""
import re
import os
import hashlib
from rsitems import RustFile, ScanError, mask, find_loops

NOISE_ATTR = re.compile(r'#\[(inline|allow|rustfmt::|tracing::|doc|must_use|cfg_attr|derive|repr|cfg\(feature)')


class WeaveError(Exception):
    """extraction/weaving failed: undecided (exit 2), never an alarm"""


class Out:
    def __init__(self):
        self.lines = []     # text
        self.origin = []    # dict per line

    def add(self, text, origin):
        for ln in text.split('\n'):
            self.lines.append(ln)
            self.origin.append(origin)

    def add_repo(self, text, file, item, first_line):
        for k, ln in enumerate(text.split('\n')):
            self.lines.append(ln)
            self.origin.append({'k': 'repo', 'file': file, 'item': item, 'line': first_line + k, 'text': ln.strip()})


class Unit:
    def __init__(self, name, repo, verif):
        self.name, self.repo, self.verif = name, repo, verif
        self.files = {}
        self.rewrites = []          # (rid, regex, repl)
        self.rewrite_counts = {}
        self.items = []             # dicts: label, file, kind, sha, contracted(bool), trusted(bool)
        self.out = Out()
        self.clauses = 0
        self.trusted = []
        self.body_prelude = []

    def rf(self, rel):
        if rel not in self.files:
            p = os.path.join(self.repo, rel)
            if not os.path.exists(p):
                raise WeaveError('anchored file missing: %s' % rel)
            self.files[rel] = RustFile(p, rel)
        return self.files[rel]

    # ---------------------------------------------------------------------------------------
    def rewrite_assert_macros(self, text):
        """R7 (built in): assert!/debug_assert!/assert_eq!/assert_ne! lose their message arguments
        and the _eq/_ne forms are spelled with == / != (Verus has no spec for the fmt machinery)."""
        out = []
        i = 0
        m = mask(text)
        rx = re.compile(r'(?<![\w])(debug_assert|assert)(_eq|_ne)?!\s*\(')
        while True:
            mt = rx.search(m, i)
            if not mt:
                out.append(text[i:])
                break
            out.append(text[i:mt.start()])
            # find matching paren
            depth = 0
            k = mt.end() - 1
            start = k
            while k < len(m):
                if m[k] in '([{':
                    depth += 1
                elif m[k] in ')]}':
                    depth -= 1
                    if depth == 0:
                        break
                k += 1
            inner = text[start + 1:k]
            inner_m = m[start + 1:k]
            args = []
            d = 0
            cur = 0
            for j, ch in enumerate(inner_m):
                if ch in '([{':
                    d += 1
                elif ch in ')]}':
                    d -= 1
                elif ch == ',' and d == 0:
                    args.append(inner[cur:j])
                    cur = j + 1
            args.append(inner[cur:])
            args = [a for a in args if a.strip()]
            kind = mt.group(2)
            nl = inner.count('\n')
            if kind:
                cond = '%s %s %s' % (args[0].strip(), '==' if kind == '_eq' else '!=', args[1].strip())
                changed = True
            else:
                cond = args[0].strip()
                changed = len(args) > 1
            if changed:
                self.rewrite_counts['R7'] = self.rewrite_counts.get('R7', 0) + 1
            cond = ' '.join(cond.split())
            out.append('%s!(%s)%s' % (mt.group(1), cond, '\n' * nl))
            i = k + 1
        return ''.join(out)

    def apply_rewrites(self, text):
        text = self.rewrite_assert_macros(text)
        # R16 (built in): array destructuring `let [a, b, ..] = E;` -> indexed lets (slice patterns unsupported)
        def destr(mt):
            self.rewrite_counts['R16'] = self.rewrite_counts.get('R16', 0) + 1
            names = [n.strip() for n in mt.group(1).split(',') if n.strip()]
            out = 'let w__ = %s;' % mt.group(2)
            for k, n in enumerate(names):
                out += ' let %s = w__[%d];' % (n, k)
            return out
        text = re.sub(r'let \[((?:\s*\w+\s*,?)+)\] = ([^;]+);', destr, text)
        # R17 (built in, use sites): X_RANGE.start / X_RANGE.end
        def rng(mt):
            self.rewrite_counts['R17'] = self.rewrite_counts.get('R17', 0) + 1
            return '%s_%s' % (mt.group(1), mt.group(2).upper())
        text = re.sub(r'\b(\w+_RANGE)\.(start|end)\b', rng, text)
        # R11 (built in): fold `<lit>_<uN>.pow(<lit>)` integer-literal powers to a literal
        def fold(mt):
            self.rewrite_counts['R11'] = self.rewrite_counts.get('R11', 0) + 1
            return '%d_%s' % (int(mt.group(1).replace('_', '')) ** int(mt.group(3)), mt.group(2))
        text = re.sub(r'\b(\d[\d_]*?)_?(u8|u16|u32|u64|usize)\.pow\((\d+)\)', fold, text)
        for rid, rx, repl in self.rewrites:
            def sub(mt, repl=repl, rid=rid):
                new = mt.expand(repl)
                d = mt.group(0).count('\n') - new.count('\n')
                if d < 0:
                    # keep the line count: fold the surplus newlines of the replacement into spaces
                    if '//' in new:
                        raise WeaveError('rewrite %s adds newlines around a comment' % rid)
                    parts = new.rsplit('\n', -d)
                    new = ' '.join(parts)
                    d = 0
                self.rewrite_counts[rid] = self.rewrite_counts.get(rid, 0) + 1
                return new + '\n' * d
            text = re.sub(rx, sub, text, flags=re.S)
        return text

    def label_of(self, path, file=None):
        parts = []
        if file and not any(el.strip().startswith('impl') for el in path):
            # free items: prefix with the module (file stem, or directory for mod.rs)
            segs = file.split('/')
            stem = segs[-1][:-3]
            parts.append(segs[-2] if stem in ('mod', 'lib') and len(segs) > 1 else stem)
        for el in path:
            el = el.strip()
            if el.startswith('impl'):
                # 'impl<H> Process<H>' -> Process ; 'impl A for B' -> B as A
                t = re.sub(r'^impl(<[^>]*>)?\s*', '', el)
                t = re.sub(r'<[^>]*>', '', t)
                if ' for ' in t:
                    a, b = t.split(' for ', 1)
                    t = '%s as %s' % (b.strip(), a.strip())
                parts.append(t.strip())
            else:
                parts.append(el.split(' ', 1)[1].strip())
        return '::'.join(parts)

    def get_item(self, spec, constfn=False):
        file, *path = [s.strip() for s in spec.split(' :: ')]
        if constfn and path[-1].startswith('fn '):
            path[-1] = 'const ' + path[-1][3:]
        # re-join path elements that were split inside e.g. 'impl From<u32> for ContextId'
        try:
            it = self.rf(file).get(path)
        except ScanError as e:
            raise WeaveError(str(e))
        return file, path, it

    def widen(self, text, nopub):
        if nopub:
            return text
        text = re.sub(r'^(\s*)pub\s*\([^)]*\)\s+', r'\1pub ', text, count=1)
        if not re.match(r'\s*pub\b', text):
            text = 'pub ' + text
        return text

    def widen_fields(self, text):
        # struct fields: make every field pub (R9)
        def fix(mt):
            return mt.group(1) + 'pub ' + mt.group(2)
        body_start = text.find('{')
        if body_start < 0:
            # tuple struct
            return re.sub(r'\(\s*(?!pub\b)', lambda m: m.group(0) + 'pub ', text, count=1)
        head, body = text[:body_start + 1], text[body_start + 1:]
        body = re.sub(r'(^|\n)(\s*)pub\s*\([^)]*\)\s+', r'\1\2pub ', body)
        body = re.sub(r'(^|\n)(\s*)(?!pub\b|//|#|\})([A-Za-z_]\w*\s*:)', r'\1\2pub \3', body)
        return head + body

    def keep_attrs(self, attrs):
        out = []
        for a in attrs:
            if NOISE_ATTR.match(a):
                self.rewrite_counts['R4'] = self.rewrite_counts.get('R4', 0) + 1
                continue
            out.append(a)
        return out

    # ---------------------------------------------------------------------------------------
    def emit_item(self, spec, flags):
        file, path, it = self.get_item(spec)
        label = self.label_of(path, file)
        text = it.text
        mr = re.match(r'(?s)\s*(?:pub )?const (\w+): Range<usize> =\s*(?:range|create_range)\((.*),\s*(.*?)\);\s*$', text) if it.kind == 'const' else None
        mr2 = re.match(r'(?s)\s*(?:pub )?const (\w+): Range<usize> =\s*Range\s*\{\s*start:\s*(.*?),\s*end:\s*(.*?),?\s*\};\s*$', text) if it.kind == 'const' else None
        if mr2:
            # R17: `const X: Range<usize> = Range { start: a, end: b }` -> `const X_START = a; const X_END = b;`
            self.rewrite_counts['R17'] = self.rewrite_counts.get('R17', 0) + 1
            a_, b_ = self.apply_rewrites(mr2.group(2).strip()), self.apply_rewrites(mr2.group(3).strip())
            self.out.add_repo('pub const %s_START: usize = %s; pub const %s_END: usize = %s;' % (mr2.group(1), a_, mr2.group(1), b_), file, label, it.line)
            self.items.append({'label': label, 'file': file, 'kind': it.kind, 'sha': hashlib.sha256(text.encode()).hexdigest()[:16], 'contracted': False})
            return
        if mr:
            # R17: `const X: Range<usize> = range(a, n)` -> `const X_START = a; const X_END = a + n;`
            self.rewrite_counts['R17'] = self.rewrite_counts.get('R17', 0) + 1
            a_, n_ = self.apply_rewrites(mr.group(2).strip()), self.apply_rewrites(mr.group(3).strip())
            self.out.add_repo('pub const %s_START: usize = %s; pub const %s_END: usize = %s + %s;' % (mr.group(1), a_, mr.group(1), a_, n_), file, label, it.line)
            self.items.append({'label': label, 'file': file, 'kind': it.kind, 'sha': hashlib.sha256(text.encode()).hexdigest()[:16], 'contracted': False})
            return
        sha = hashlib.sha256(text.encode()).hexdigest()[:16]
        text = self.apply_rewrites(text)
        if it.kind in ('struct',) and 'nopub' not in flags:
            text = self.widen_fields(text)
        if it.kind in ('struct', 'enum', 'const', 'fn', 'trait', 'type', 'static'):
            text = self.widen(text, 'nopub' in flags)
        for a in self.keep_attrs(it.attrs):
            if 'keepattrs' in flags:
                self.out.add(a, {'k': 'lit'})
        for fl in flags:
            if fl.startswith('attr='):
                self.out.add(fl[5:], {'k': 'lit'})
        self.out.add_repo(text, file, label, it.line)
        self.items.append({'label': label, 'file': file, 'kind': it.kind, 'sha': sha, 'contracted': False})

    def emit_fn(self, spec, flags, sections):
        file, path, it = self.get_item(spec, 'constfn' in flags)
        label = self.label_of(path, file)
        raw = it.text
        sha = hashlib.sha256(raw.encode()).hexdigest()[:16]
        text = self.apply_rewrites(raw)
        if 'constfn' in flags:
            # R13: `pub const NAME: T = E;` -> `pub fn NAME() -> T { E }` (uses rewritten to NAME())
            mt = re.match(r'(?s)\s*(pub(?:\s*\([^)]*\))?\s+)?const\s+(\w+)\s*:\s*(.*?)=\s*(.*);\s*$', text)
            if not mt:
                raise WeaveError('%s: constfn flag on a non-const item' % spec)
            text = '%sfn %s() -> %s {\n %s \n}' % (mt.group(1) or '', mt.group(2), mt.group(3).strip(), mt.group(4))
            self.rewrite_counts['R13'] = self.rewrite_counts.get('R13', 0) + 1
        if 'mutself' in flags:
            # R10: fn f(mut self, ..) {B}  ->  fn f(self, ..) { let mut self_ = self; B[self -> self_] }
            mm = mask(text)
            hb = mm.index('{')
            head, rest = text[:hb + 1], text[hb + 1:]
            if not re.search(r'\(\s*mut self\b', head):
                raise WeaveError('%s: mutself flag but no `mut self` parameter' % spec)
            head = re.sub(r'\(\s*mut self\b', '(self', head, count=1)
            rm = mask(rest)
            out_chars = []
            last = 0
            for mt in re.finditer(r'\bself\b', rm):
                out_chars.append(rest[last:mt.start()])
                out_chars.append('self_')
                last = mt.end()
            out_chars.append(rest[last:])
            text = head + ' let mut self_ = self;' + ''.join(out_chars)
            self.rewrite_counts['R10'] = self.rewrite_counts.get('R10', 0) + 1
        m = mask(text)
        # header end
        depth = 0
        he = None
        for k, ch in enumerate(m):
            if ch in '([':
                depth += 1
            elif ch in ')]':
                depth -= 1
            elif ch == '{' and depth == 0:
                he = k
                break
            elif ch == ';' and depth == 0:
                he = k
                break
        if he is None:
            raise WeaveError('no body: %s' % spec)
        header = text[:he].rstrip()
        has_body = m[he] == '{'
        body = text[he + 1:text.rfind('}')] if has_body else None
        body_off_line = it.line + text[:he + 1].count('\n')
        # name the return value
        retname = 'r'
        for fl in flags:
            if fl.startswith('ret='):
                retname = fl[4:]
        if 'noret' not in flags:
            hm = mask(header)
            depth = 0
            arrow = None
            for k in range(len(hm) - 1):
                ch = hm[k]
                if ch in '([<':
                    depth += 1
                elif ch in ')]':
                    depth -= 1
                elif ch == '>' and hm[k - 1] != '-':
                    depth -= 1
                elif ch == '-' and hm[k + 1] == '>' and depth == 0:
                    arrow = k
            if arrow is not None:
                # return type runs to 'where' or end
                rest = header[arrow + 2:]
                wm = re.search(r'\bwhere\b', mask(rest))
                rty = rest[:wm.start()] if wm else rest
                tail = rest[wm.start():] if wm else ''
                nl = rty.count('\n')
                header = header[:arrow] + '-> (%s: %s)' % (retname, ' '.join(rty.split())) + '\n' * nl + (' ' + tail if tail else '')
        header = self.widen(header, 'nopub' in flags)
        for a in self.keep_attrs(it.attrs):
            self.out.add(a, {'k': 'lit'})
        for a in sections.get('attr', []):
            self.out.add(a[1], {'k': 'lit'})
        trusted = 'external_body' in flags
        if trusted:
            self.out.add('#[verifier::external_body]', {'k': 'lit'})
            self.trusted.append('external_body: %s (%s) — contract assumed, body not verified' % (label, file))
        self.out.add_repo(header, file, label, it.line)
        for sec in ('requires', 'ensures', 'decreases', 'recommends'):
            if sec in sections:
                if sec == 'ensures' and sections.get('returns'):
                    pass
                self.out.add('    ' + sec, {'k': 'contract', 'item': label, 'sec': sec, 'idx': -1})
                for idx, (vu_line, ln) in enumerate(sections[sec]):
                    self.out.add(ln, {'k': 'contract', 'item': label, 'sec': sec, 'idx': idx, 'vu': vu_line, 'text': ln.strip()})
                    self.clauses += 1
        if not has_body:
            self.out.add(';', {'k': 'lit'})
        elif trusted:
            # contract-only: the body is not part of this unit (verified elsewhere or out of reach)
            self.out.add('{ unimplemented!() }', {'k': 'lit'})
        else:
            bm = mask(body)
            inserts = []   # (pos, text, origin)
            loops = find_loops(bm)
            for key, val in sections.items():
                if isinstance(key, tuple) and key[0] == 'loop':
                    k = key[1]
                    if k >= len(loops):
                        raise WeaveError('%s: contract names loop %d but body has %d loops' % (label, k, len(loops)))
                    inserts.append((loops[k][2], val, {'k': 'contract', 'item': label, 'sec': 'loop%d' % k}))
                if isinstance(key, tuple) and key[0] in ('proof', 'ghost'):
                    kind, where, n, needle = key
                    if where == 'end':
                        # end of the function body, before a trailing expression is not supported:
                        # inserted after the last statement terminator ';' or '}' of the body
                        stripped = bm.rstrip()
                        if stripped.endswith('Ok(())'):
                            at = len(stripped) - len('Ok(())')
                        elif not (stripped.endswith(';') or stripped.endswith('}')):
                            # tail expression: insert between the last statement and the tail
                            at = max(stripped.rfind(';'), stripped.rfind('}')) + 1
                            if at <= 0:
                                raise WeaveError('%s: proof end: body is a single tail expression' % label)
                        else:
                            at = len(stripped)
                    else:
                        pos = -1
                        start = 0
                        for _ in range(n + 1):
                            pos = body.find(needle, start)
                            if pos < 0:
                                raise WeaveError('%s: proof anchor not found: %r' % (label, needle))
                            start = pos + 1
                        at = pos + len(needle) if where == 'after' else pos
                    val2 = [(v, l) for v, l in val]
                    if kind == 'proof':
                        val2 = [(-1, 'proof {')] + val2 + [(-1, '}')]
                    inserts.append((at, val2, {'k': 'contract', 'item': label, 'sec': 'proof'}))
            n_loop_secs = sum(1 for k in sections if isinstance(k, tuple) and k[0] == 'loop')
            inserts.sort(key=lambda x: x[0])
            self.out.add('{', {'k': 'lit'})
            for bp in self.body_prelude:
                self.out.add(bp, {'k': 'lit'})
            cur = 0
            cur_line = body_off_line
            for pos, lines, origin in inserts:
                piece = body[cur:pos]
                self.out.add_repo(piece, file, label, cur_line)
                cur_line += piece.count('\n')
                for idx, (vu_line, ln) in enumerate(lines):
                    o = dict(origin)
                    o.update({'idx': idx, 'vu': vu_line, 'text': ln.strip()})
                    self.out.add(ln, o)
                    if origin['sec'] != 'proof':
                        self.clauses += 1
                cur = pos
            self.out.add_repo(body[cur:], file, label, cur_line)
            self.out.add('}', {'k': 'lit'})
            nloops = len(loops)
        self.items.append({'label': label, 'file': file, 'kind': 'fn', 'sha': sha, 'contracted': True,
                           'trusted': trusted, 'line': it.line,
                           'requires': [ln.strip().rstrip(',') for _, ln in sections.get('requires', []) if ln.strip() and not ln.strip().startswith('//')]})

    # ---------------------------------------------------------------------------------------
    def expand_includes(self, path, depth=0):
        out = []
        for ln in open(path).read().split('\n'):
            t = ln.strip()
            if t.startswith('//@include-vu '):
                if depth > 5:
                    raise WeaveError('include-vu nesting too deep')
                out.extend(self.expand_includes(os.path.join(self.verif, t[len('//@include-vu '):].strip()), depth + 1))
            else:
                out.append(ln)
        return out

    def build(self, template_path):
        src = self.expand_includes(template_path)
        i = 0
        canary_id = 0
        while i < len(src):
            ln = src[i]
            s = ln.strip()
            if not s.startswith('//@'):
                self.out.add(ln, {'k': 'lit', 'vu': i + 1})
                i += 1
                continue
            d = s[3:].strip()
            cmd, _, arg = d.partition(' ')
            arg = arg.strip()
            if cmd == 'include':
                p = os.path.join(self.verif, arg)
                self.out.add(open(p).read().rstrip('\n'), {'k': 'lit', 'inc': arg})
            elif cmd == 'rewrite':
                rid, _, rest = arg.partition(' ')
                rx, _, repl = rest.partition(' ==> ')
                self.rewrites.append((rid, rx.strip(), repl.strip() if repl.strip() != '<empty>' else ''))
            elif cmd == 'rewrite-off':
                self.rewrites = [r for r in self.rewrites if r[0] != arg]
            elif cmd in ('unit', 'serves', 'note'):
                pass
            elif cmd == 'gen-opflags':
                # stand-in for OpFlags<Felt>: one uninterpreted flag value per accessor found in
                # /repo's op_flags/mod.rs *now* (accessor contracts are assumed: A-flags)
                rf = self.rf('air/src/constraints/stack/op_flags/mod.rs')
                fns = re.findall(r'pub fn (\w+)\(&self(?:, (\w+): usize)?\) -> E \{', rf.src)
                lines = ['#[verifier::external_body]', 'pub struct OpFlags { _p: u8 }', 'impl OpFlags {']
                for name, idx in fns:
                    if idx:
                        lines.append('    pub uninterp spec fn sp_%s(self, i: int) -> Felt;' % name)
                        lines.append('    #[verifier::external_body]')
                        lines.append('    pub fn %s(&self, %s: usize) -> (r: Felt) requires %s < 16, ensures r == self.sp_%s(%s as int) { unimplemented!() }' % (name, idx, idx, name, idx))
                    else:
                        lines.append('    pub uninterp spec fn sp_%s(self) -> Felt;' % name)
                        lines.append('    #[verifier::external_body]')
                        lines.append('    pub fn %s(&self) -> (r: Felt) ensures r == self.sp_%s() { unimplemented!() }' % (name, name))
                lines.append('}')
                self.out.add('\n'.join(lines), {'k': 'lit'})
                self.trusted.append('A-flags: OpFlags accessor values are uninterpreted here (%d accessors found); OpFlags::new is the subject of unit op_flags' % len(fns))
            elif cmd == 'masm-lemmas':
                import e2gen
                try:
                    text, index, info = e2gen.generate(arg, self.repo, self.verif)
                except e2gen.E2Error as e:
                    raise WeaveError('E2: %s' % e)
                tl = text.split('\n')
                for name, off, n in index:
                    for ln in tl[off:off + n]:
                        self.out.lines.append(ln)
                        self.out.origin.append({'k': 'contract', 'item': 'masm::' + name, 'sec': 'lemma', 'idx': 0, 'text': ln.strip()})
                    self.items.append({'label': 'masm::' + name, 'file': arg, 'kind': 'masm-lemma', 'sha': '', 'contracted': True})
                self.e2_info = getattr(self, 'e2_info', []) + info
                self.clauses += len(index)
            elif cmd == 'gen-instr-enc':
                import astgen
                try:
                    text, info = astgen.generate(self.repo)
                except (astgen.AstGenError, ScanError) as e:
                    raise WeaveError('astgen: %s' % e)
                self.out.add(text, {'k': 'lit'})
                self.trusted.append('astgen: opcode_val / enc_instr are derived mechanically from enum OpCode and the arms of Instruction::write_into (%d opcodes, %d arms); the decoder contract is the theorem' % (info['opcodes'], info['encoder_arms']))
            elif cmd == 'body-prelude':
                self.body_prelude.append(arg)
            elif cmd == 'body-prelude-off':
                self.body_prelude = []
            elif cmd == 'trusted':
                self.trusted.append(arg)
            elif cmd == 'item':
                spec, flags = self.split_flags(arg)
                self.emit_item(spec, flags)
            elif cmd == 'canary':
                canary_id += 1
                self.out.add('proof fn verif_canary_%d() ensures false {}' % canary_id, {'k': 'canary'})
            elif cmd == 'fn':
                spec, flags = self.split_flags(arg)
                sections = {}
                cursec = None
                i += 1
                while i < len(src) and src[i].strip() != '//@end':
                    t = src[i].strip()
                    if t.startswith('//@'):
                        c, _, a = t[3:].strip().partition(' ')
                        a = a.strip()
                        if c == 'loop':
                            cursec = ('loop', int(a))
                        elif c in ('proof', 'ghost'):
                            where, _, rest = a.partition(' ')
                            n, _, needle = rest.partition(' ')
                            cursec = (c, where, int(n) if n else 0, needle)
                        elif c == 'attr':
                            sections.setdefault('attr', []).append((i + 1, a))
                            cursec = None
                            i += 1
                            continue
                        else:
                            cursec = c
                        sections.setdefault(cursec, [])
                    elif cursec is not None:
                        if t and not t.startswith('//'):
                            sections[cursec].append((i + 1, src[i]))
                    i += 1
                if i >= len(src):
                    raise WeaveError('unterminated //@fn %s' % spec)
                for fl in flags:
                    if fl.startswith('from='):
                        imported = self.import_contract(fl[5:], spec)
                        for k in ('requires', 'ensures'):
                            if k in imported and k not in sections:
                                sections[k] = imported[k]
                        self.trusted.append('imported contract: %s — proved in unit %s, assumed here (external_body)' % (spec.split(' :: ', 1)[1], fl[5:]))
                self.emit_fn(spec, flags, sections)
            else:
                raise WeaveError('unknown directive %s' % cmd)
            i += 1
        return '\n'.join(self.out.lines) + '\n'

    def import_contract(self, unit, spec):
        """requires/ensures of the same //@fn in another unit template"""
        src = open(os.path.join(self.verif, 'units', unit + '.vu')).read().split('\n')
        want = ' '.join(spec.split())
        i = 0
        while i < len(src):
            t = src[i].strip()
            if t.startswith('//@fn '):
                sp, _ = self.split_flags(t[6:].strip())
                if ' '.join(sp.split()) == want:
                    sections = {}
                    cur = None
                    i += 1
                    while src[i].strip() != '//@end':
                        u = src[i].strip()
                        if u.startswith('//@'):
                            cur = u[3:].strip().split(' ')[0]
                            if cur in ('requires', 'ensures'):
                                sections[cur] = []
                            else:
                                cur = None
                        elif cur and u and not u.startswith('//'):
                            sections[cur].append((i + 1, src[i]))
                        i += 1
                    return sections
            i += 1
        raise WeaveError('imported contract not found: %s in unit %s' % (spec, unit))

    @staticmethod
    def split_flags(arg):
        parts = arg.split(' [', 1)
        spec = parts[0].strip()
        flags = []
        if len(parts) > 1:
            body = parts[1].rstrip()
            assert body.endswith(']')
            body = body[:-1]
            depth = 0
            cur = ''
            for ch in body:
                if ch in '([':
                    depth += 1
                elif ch in ')]':
                    depth -= 1
                if ch == ',' and depth == 0:
                    flags.append(cur.strip())
                    cur = ''
                else:
                    cur += ch
            if cur.strip():
                flags.append(cur.strip())
        return spec, flags
