#!/bin/sh
# offline setup: nothing to fetch. Warms the Verus installation (first run is slower) and builds
# helper tools from files on disk.
set -e
cd "$(dirname "$0")"
mkdir -p .gen .cache evidence replays
if [ -x tools/build.sh ]; then tools/build.sh; fi
exit 0
