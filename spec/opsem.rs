// ---- spec/opsem.rs : hub — per-operation stack transition relations R_op -----------------------
// Written from docs/src/design/stack/{field_ops,u32_ops,stack_ops,io_ops,system_ops}.md and
// docs/src/user_docs/assembly/*.md, NOT from the code.  A stack state is a Seq<Felt> of length
// >= 16 (position 0 = top).  The same definitions are used by the processor units (the real
// op_* functions *ensure* them), the AIR units and the MAST-lemma engine.

pub open spec fn fe(v: int) -> Felt { felt_of(v) }
/// element shifted in at the bottom when the stack is at its minimum depth
pub open spec fn zf(s: Seq<Felt>) -> Seq<Felt> { if s.len() <= 16 { seq![felt_of(0)] } else { Seq::<Felt>::empty() } }
/// consume n, produce `out` (|out| = n - 1): left shift
pub open spec fn shl_with(s: Seq<Felt>, out: Seq<Felt>, n: int) -> Seq<Felt> { out + s.skip(n) + zf(s) }
/// consume n, produce `out` (|out| = n or n + 1)
pub open spec fn keep_with(s: Seq<Felt>, out: Seq<Felt>, n: int) -> Seq<Felt> { out + s.skip(n) }
pub open spec fn is_bin(x: Felt) -> bool { x.val() == 0 || x.val() == 1 }
pub open spec fn b2f(b: bool) -> Felt { if b { felt_of(1) } else { felt_of(0) } }

// ---- field operations (docs/src/design/stack/field_ops.md) -------------------------------------
pub open spec fn sem_add(s: Seq<Felt>) -> Seq<Felt> { shl_with(s, seq![fe(fadd(s[1].val(), s[0].val()))], 2) }
pub open spec fn sem_neg(s: Seq<Felt>) -> Seq<Felt> { keep_with(s, seq![fe(fneg(s[0].val()))], 1) }
pub open spec fn sem_mul(s: Seq<Felt>) -> Seq<Felt> { shl_with(s, seq![fe(fmul(s[1].val(), s[0].val()))], 2) }
pub open spec fn fail_inv(s: Seq<Felt>) -> bool { s[0].val() == 0 }
pub open spec fn sem_inv(s: Seq<Felt>) -> Seq<Felt> { keep_with(s, seq![fe(finv(s[0].val()))], 1) }
pub open spec fn sem_incr(s: Seq<Felt>) -> Seq<Felt> { keep_with(s, seq![fe(fadd(s[0].val(), 1))], 1) }
pub open spec fn fail_and(s: Seq<Felt>) -> bool { !is_bin(s[0]) || !is_bin(s[1]) }
pub open spec fn sem_and(s: Seq<Felt>) -> Seq<Felt> { shl_with(s, seq![b2f(s[0].val() == 1 && s[1].val() == 1)], 2) }
pub open spec fn sem_or(s: Seq<Felt>) -> Seq<Felt> { shl_with(s, seq![b2f(s[0].val() == 1 || s[1].val() == 1)], 2) }
pub open spec fn fail_not(s: Seq<Felt>) -> bool { !is_bin(s[0]) }
pub open spec fn sem_not(s: Seq<Felt>) -> Seq<Felt> { keep_with(s, seq![b2f(s[0].val() == 0)], 1) }
pub open spec fn sem_eq(s: Seq<Felt>) -> Seq<Felt> { shl_with(s, seq![b2f(s[0] == s[1])], 2) }
pub open spec fn sem_eqz(s: Seq<Felt>) -> Seq<Felt> { keep_with(s, seq![b2f(s[0].val() == 0)], 1) }
/// EXPACC: [bit, base, acc, b, ...] -> [b & 1, base^2, acc * (b&1 ? base : 1), b >> 1, ...]
pub open spec fn sem_expacc(s: Seq<Felt>) -> Seq<Felt> {
    let bit = s[3].val() % 2;
    keep_with(s, seq![fe(bit), fe(fmul(s[1].val(), s[1].val())),
                     fe(fmul(s[2].val(), if bit == 1 { s[1].val() } else { 1 })), fe(s[3].val() / 2)], 4)
}

// ---- stack manipulation (docs/src/design/stack/stack_ops.md) -----------------------------------
pub open spec fn sem_pad(s: Seq<Felt>) -> Seq<Felt> { seq![fe(0)] + s }
pub open spec fn sem_drop(s: Seq<Felt>) -> Seq<Felt> { s.skip(1) + zf(s) }
pub open spec fn sem_dup(s: Seq<Felt>, n: int) -> Seq<Felt> { seq![s[n]] + s }
pub open spec fn sem_swap(s: Seq<Felt>) -> Seq<Felt> { seq![s[1], s[0]] + s.skip(2) }
pub open spec fn sem_swapw(s: Seq<Felt>) -> Seq<Felt> { s.subrange(4, 8) + s.subrange(0, 4) + s.skip(8) }
pub open spec fn sem_swapw2(s: Seq<Felt>) -> Seq<Felt> { s.subrange(8, 12) + s.subrange(4, 8) + s.subrange(0, 4) + s.skip(12) }
pub open spec fn sem_swapw3(s: Seq<Felt>) -> Seq<Felt> { s.subrange(12, 16) + s.subrange(4, 12) + s.subrange(0, 4) + s.skip(16) }
pub open spec fn sem_swapdw(s: Seq<Felt>) -> Seq<Felt> { s.subrange(8, 16) + s.subrange(0, 8) + s.skip(16) }
pub open spec fn sem_movup(s: Seq<Felt>, n: int) -> Seq<Felt> { seq![s[n]] + s.take(n) + s.skip(n + 1) }
pub open spec fn sem_movdn(s: Seq<Felt>, n: int) -> Seq<Felt> { s.subrange(1, n + 1) + seq![s[0]] + s.skip(n + 1) }
pub open spec fn fail_cswap(s: Seq<Felt>) -> bool { !is_bin(s[0]) }
pub open spec fn sem_cswap(s: Seq<Felt>) -> Seq<Felt> {
    shl_with(s, if s[0].val() == 1 { seq![s[2], s[1]] } else { seq![s[1], s[2]] }, 3)
}
pub open spec fn sem_cswapw(s: Seq<Felt>) -> Seq<Felt> {
    shl_with(s, if s[0].val() == 1 { s.subrange(5, 9) + s.subrange(1, 5) } else { s.subrange(1, 5) + s.subrange(5, 9) }, 9)
}

// ---- u32 operations (docs/src/design/stack/u32_ops.md, user_docs/assembly/u32_operations.md) ----
pub open spec fn B32() -> int { 0x1_0000_0000 }
pub open spec fn is_u32(x: Felt) -> bool { x.val() < B32() }
pub open spec fn hi_lo(v: int) -> Seq<Felt> { seq![fe(v / B32()), fe(v % B32())] }
pub open spec fn sem_u32split(s: Seq<Felt>) -> Seq<Felt> { keep_with(s, hi_lo(s[0].val()), 1) }
pub open spec fn fail_u32assert2(s: Seq<Felt>) -> bool { !is_u32(s[0]) || !is_u32(s[1]) }
/// the arithmetic u32 operations are specified for u32 operands only ("undefined otherwise")
pub open spec fn pre_u32_2(s: Seq<Felt>) -> bool { is_u32(s[0]) && is_u32(s[1]) }
pub open spec fn pre_u32_3(s: Seq<Felt>) -> bool { is_u32(s[0]) && is_u32(s[1]) && is_u32(s[2]) }
pub open spec fn sem_u32add(s: Seq<Felt>) -> Seq<Felt> { keep_with(s, hi_lo(s[1].val() + s[0].val()), 2) }
pub open spec fn sem_u32add3(s: Seq<Felt>) -> Seq<Felt> { shl_with(s, hi_lo(s[2].val() + s[1].val() + s[0].val()), 3) }
pub open spec fn sem_u32sub(s: Seq<Felt>) -> Seq<Felt> {
    keep_with(s, seq![b2f(s[1].val() < s[0].val()), fe((s[1].val() - s[0].val()) % B32())], 2)
}
pub open spec fn sem_u32mul(s: Seq<Felt>) -> Seq<Felt> { keep_with(s, hi_lo(s[1].val() * s[0].val()), 2) }
pub open spec fn sem_u32madd(s: Seq<Felt>) -> Seq<Felt> { shl_with(s, hi_lo(s[1].val() * s[0].val() + s[2].val()), 3) }
pub open spec fn fail_u32div(s: Seq<Felt>) -> bool { s[0].val() == 0 }
pub open spec fn sem_u32div(s: Seq<Felt>) -> Seq<Felt> { keep_with(s, seq![fe(s[1].val() % s[0].val()), fe(s[1].val() / s[0].val())], 2) }
pub open spec fn sem_u32and(s: Seq<Felt>) -> Seq<Felt> { shl_with(s, seq![fe(((s[1].val() as u64) & (s[0].val() as u64)) as int)], 2) }
pub open spec fn sem_u32xor(s: Seq<Felt>) -> Seq<Felt> { shl_with(s, seq![fe(((s[1].val() as u64) ^ (s[0].val() as u64)) as int)], 2) }
/// helper registers of a u32 op (C03): 16-bit limbs of lo and hi, and m = 1/(2^32 - 1 - hi) or 0
pub open spec fn u32_helpers(lo: int, hi: int, check: bool) -> Seq<Felt> {
    seq![fe(lo % 0x10000), fe(lo / 0x10000), fe(hi % 0x10000), fe(hi / 0x10000),
         if check { fe(finv(fsub(0xFFFF_FFFF, hi))) } else { fe(0) }]
}

// ---- system / io / ext2 operations (docs/src/design/stack/{system_ops,io_ops,field_ops}.md) ----
pub open spec fn fail_assert(s: Seq<Felt>) -> bool { s[0].val() != 1 }
pub open spec fn sem_assert(s: Seq<Felt>) -> Seq<Felt> { s.skip(1) + zf(s) }
pub open spec fn sem_fmpadd(s: Seq<Felt>, fmp: int) -> Seq<Felt> { keep_with(s, seq![fe(fadd(fmp, s[0].val()))], 1) }
pub open spec fn fmp_new(s: Seq<Felt>, fmp: int) -> int { fadd(fmp, s[0].val()) }
/// FMPUPDATE fails unless 2^30 <= fmp + s0 <= 3 * 2^30 - 1
pub open spec fn fail_fmpupdate(s: Seq<Felt>, fmp: int) -> bool { fmp_new(s, fmp) < 0x4000_0000 || fmp_new(s, fmp) > 0xBFFF_FFFF }
pub open spec fn sem_sdepth(s: Seq<Felt>) -> Seq<Felt> { seq![fe(s.len() as int)] + s }
pub open spec fn sem_clk(s: Seq<Felt>, clk: int) -> Seq<Felt> { seq![fe(clk)] + s }
/// CALLER overwrites the top word with the hash of the calling function (element 3 of the word on top)
pub open spec fn sem_caller(s: Seq<Felt>, h: Seq<Felt>) -> Seq<Felt> { keep_with(s, seq![h[3], h[2], h[1], h[0]], 4) }
pub open spec fn sem_push(s: Seq<Felt>, v: Felt) -> Seq<Felt> { seq![v] + s }
/// ADVPOPW overwrites the top word with the word popped from the advice stack
pub open spec fn sem_advpopw(s: Seq<Felt>, w: Seq<Felt>) -> Seq<Felt> { keep_with(s, seq![w[3], w[2], w[1], w[0]], 4) }
/// EXT2MUL: [b1, b0, a1, a0, ...] -> [b1, b0, c1, c0, ...], (c0, c1) = (a0, a1) * (b0, b1) in F_p[x]/(x^2 - x + 2)
pub open spec fn sem_ext2mul(s: Seq<Felt>) -> Seq<Felt> {
    let b1 = s[0].val(); let b0 = s[1].val(); let a1 = s[2].val(); let a0 = s[3].val();
    keep_with(s, seq![s[0], s[1],
        fe(fsub(fmul(fadd(b0, b1), fadd(a1, a0)), fmul(b0, a0))),
        fe(fsub(fmul(b0, a0), fmul(fmul(2, b1), a1)))], 4)
}

// ---- one VM step as a relation over (stack view, system registers) -----------------------------
pub open spec fn same_regs_but_clk(g: Regs, g2: Regs) -> bool {
    g2.fmp == g.fmp && g2.ctx == g.ctx && g2.in_syscall == g.in_syscall && g2.fn_hash == g.fn_hash
}
/// operations whose effect on the stack is not fixed by the hub in this unit (memory, hasher
/// chiplet, FRI/comb helpers): constrained in their own units (C07, C09)
pub open spec fn op_external(op: Operation) -> bool {
    op is MLoadW || op is MStoreW || op is MLoad || op is MStore || op is MStream || op is Pipe
    || op is HPerm || op is MpVerify || op is MrUpdate || op is FriE2F4 || op is RCombBase
}
pub open spec fn op_shifts_right(op: Operation) -> bool {
    op is Pad || op is Dup0 || op is Dup1 || op is Dup2 || op is Dup3 || op is Dup4 || op is Dup5 || op is Dup6
    || op is Dup7 || op is Dup9 || op is Dup11 || op is Dup13 || op is Dup15 || op is Push || op is AdvPop
    || op is SDepth || op is Clk || op is U32split
}
/// documented operand precondition ("undefined otherwise") of the unchecked u32 arithmetic ops
pub open spec fn op_pre(op: Operation, s: Seq<Felt>) -> bool {
    match op {
        Operation::U32add | Operation::U32sub | Operation::U32mul => pre_u32_2(s),
        Operation::U32add3 | Operation::U32madd => pre_u32_3(s),
        _ => true,
    }
}
/// failure condition fixed by the documentation
pub open spec fn op_fail(op: Operation, s: Seq<Felt>, g: Regs) -> bool {
    match op {
        Operation::Assert(_) => fail_assert(s),
        Operation::Inv => fail_inv(s),
        Operation::And | Operation::Or => fail_and(s),
        Operation::Not => fail_not(s),
        Operation::U32assert2(_) | Operation::U32and | Operation::U32xor => fail_u32assert2(s),
        Operation::U32div => fail_u32div(s),
        Operation::CSwap | Operation::CSwapW => fail_cswap(s),
        Operation::FmpUpdate => fail_fmpupdate(s, g.fmp.val()),
        Operation::Caller => !g.in_syscall,
        _ => false,
    }
}
/// operations that may also fail for reasons outside the hub (host / chiplets)
pub open spec fn op_may_fail(op: Operation) -> bool { op_external(op) || op is AdvPop || op is AdvPopW }

/// successful step: stack s -> s2 (registers g -> g2, clk advanced by the caller)
pub open spec fn op_rel(op: Operation, s: Seq<Felt>, g: Regs, s2: Seq<Felt>, g2: Regs) -> bool {
    &&& (op is FmpUpdate || same_regs_but_clk(g, g2))
    &&& match op {
        Operation::Noop => s2 =~= s,
        Operation::Assert(_) => s2 =~= sem_assert(s),
        Operation::FmpAdd => s2 =~= sem_fmpadd(s, g.fmp.val()),
        Operation::FmpUpdate => s2 =~= sem_drop(s) && g2.fmp.val() == fmp_new(s, g.fmp.val())
            && g2.ctx == g.ctx && g2.in_syscall == g.in_syscall && g2.fn_hash == g.fn_hash,
        Operation::SDepth => s2 =~= sem_sdepth(s),
        Operation::Caller => s2 =~= sem_caller(s, g.fn_hash),
        Operation::Clk => s2 =~= sem_clk(s, g.clk),
        Operation::Add => s2 =~= sem_add(s),
        Operation::Neg => s2 =~= sem_neg(s),
        Operation::Mul => s2 =~= sem_mul(s),
        Operation::Inv => s2 =~= sem_inv(s),
        Operation::Incr => s2 =~= sem_incr(s),
        Operation::And => s2 =~= sem_and(s),
        Operation::Or => s2 =~= sem_or(s),
        Operation::Not => s2 =~= sem_not(s),
        Operation::Eq => s2 =~= sem_eq(s),
        Operation::Eqz => s2 =~= sem_eqz(s),
        Operation::Expacc => s2 =~= sem_expacc(s),
        Operation::Ext2Mul => s2 =~= sem_ext2mul(s),
        Operation::U32split => s2 =~= sem_u32split(s),
        Operation::U32add => s2 =~= sem_u32add(s),
        Operation::U32add3 => s2 =~= sem_u32add3(s),
        Operation::U32sub => s2 =~= sem_u32sub(s),
        Operation::U32mul => s2 =~= sem_u32mul(s),
        Operation::U32madd => s2 =~= sem_u32madd(s),
        Operation::U32div => s2 =~= sem_u32div(s),
        Operation::U32and => s2 =~= sem_u32and(s),
        Operation::U32xor => s2 =~= sem_u32xor(s),
        Operation::U32assert2(_) => s2 =~= s,
        Operation::Pad => s2 =~= sem_pad(s),
        Operation::Drop => s2 =~= sem_drop(s),
        Operation::Dup0 => s2 =~= sem_dup(s, 0), Operation::Dup1 => s2 =~= sem_dup(s, 1),
        Operation::Dup2 => s2 =~= sem_dup(s, 2), Operation::Dup3 => s2 =~= sem_dup(s, 3),
        Operation::Dup4 => s2 =~= sem_dup(s, 4), Operation::Dup5 => s2 =~= sem_dup(s, 5),
        Operation::Dup6 => s2 =~= sem_dup(s, 6), Operation::Dup7 => s2 =~= sem_dup(s, 7),
        Operation::Dup9 => s2 =~= sem_dup(s, 9), Operation::Dup11 => s2 =~= sem_dup(s, 11),
        Operation::Dup13 => s2 =~= sem_dup(s, 13), Operation::Dup15 => s2 =~= sem_dup(s, 15),
        Operation::Swap => s2 =~= sem_swap(s),
        Operation::SwapW => s2 =~= sem_swapw(s), Operation::SwapW2 => s2 =~= sem_swapw2(s),
        Operation::SwapW3 => s2 =~= sem_swapw3(s), Operation::SwapDW => s2 =~= sem_swapdw(s),
        Operation::MovUp2 => s2 =~= sem_movup(s, 2), Operation::MovUp3 => s2 =~= sem_movup(s, 3),
        Operation::MovUp4 => s2 =~= sem_movup(s, 4), Operation::MovUp5 => s2 =~= sem_movup(s, 5),
        Operation::MovUp6 => s2 =~= sem_movup(s, 6), Operation::MovUp7 => s2 =~= sem_movup(s, 7),
        Operation::MovUp8 => s2 =~= sem_movup(s, 8),
        Operation::MovDn2 => s2 =~= sem_movdn(s, 2), Operation::MovDn3 => s2 =~= sem_movdn(s, 3),
        Operation::MovDn4 => s2 =~= sem_movdn(s, 4), Operation::MovDn5 => s2 =~= sem_movdn(s, 5),
        Operation::MovDn6 => s2 =~= sem_movdn(s, 6), Operation::MovDn7 => s2 =~= sem_movdn(s, 7),
        Operation::MovDn8 => s2 =~= sem_movdn(s, 8),
        Operation::CSwap => s2 =~= sem_cswap(s),
        Operation::CSwapW => s2 =~= sem_cswapw(s),
        Operation::Push(v) => s2 =~= sem_push(s, v),
        Operation::AdvPop => exists|v: Felt| s2 =~= #[trigger] sem_push(s, v),
        Operation::AdvPopW => exists|w: Seq<Felt>| w.len() == 4 && s2 =~= #[trigger] sem_advpopw(s, w),
        _ => !is_control(op),   // op_external: see the memory / crypto units
    }
}
