// ---- spec/asm_run.rs : running a list of operations over the hub semantics (needs opsem.rs, masm_hub.rs) -----
// The instruction-expansion functions of the assembler (assembly/src/assembler/instruction/*.rs) append
// operations to a span builder.  `run` gives the meaning of such a list for the deterministic, register-free
// operations those functions emit; `lemma_op_fn_is_op_rel` ties the per-operation function to the hub relation
// op_rel that the processor's op_* functions are proved against (C05 L2).
pub open spec fn op_supported(op: Operation) -> bool {
    op is Noop || op is Push || op is Pad || op is Drop || op is Incr || op is Add || op is Mul || op is Neg || op is Inv
        || op is Eqz || op is Eq || op is Swap || op is Dup0 || op is Dup1 || op is MovUp2 || op is MovUp3 || op is Expacc || op is Assert
        || op is U32mul || op is U32div || op is U32add || op is U32sub || op is U32split || op is Not || op is And || op is Or
}
pub open spec fn op_fn(op: Operation, s: Seq<Felt>) -> Seq<Felt> {
    match op {
        Operation::Noop => s,
        Operation::Push(v) => sem_push(s, v),
        Operation::Pad => sem_pad(s),
        Operation::Drop => sem_drop(s),
        Operation::Incr => sem_incr(s),
        Operation::Add => sem_add(s),
        Operation::Mul => sem_mul(s),
        Operation::Neg => sem_neg(s),
        Operation::Inv => sem_inv(s),
        Operation::Eqz => sem_eqz(s),
        Operation::Eq => sem_eq(s),
        Operation::Swap => sem_swap(s),
        Operation::Dup0 => sem_dup(s, 0),
        Operation::Dup1 => sem_dup(s, 1),
        Operation::MovUp2 => sem_movup(s, 2),
        Operation::MovUp3 => sem_movup(s, 3),
        Operation::Expacc => sem_expacc(s),
        Operation::Assert(_) => sem_assert(s),
        Operation::U32mul => sem_u32mul(s),
        Operation::U32div => sem_u32div(s),
        Operation::U32add => sem_u32add(s),
        Operation::U32sub => sem_u32sub(s),
        Operation::U32split => sem_u32split(s),
        Operation::Not => sem_not(s),
        Operation::And => sem_and(s),
        Operation::Or => sem_or(s),
        _ => s,
    }
}
pub open spec fn op_ok(op: Operation, s: Seq<Felt>) -> bool {
    match op {
        Operation::Assert(_) => !fail_assert(s),
        Operation::Inv => !fail_inv(s),
        Operation::And | Operation::Or => !fail_and(s),
        Operation::Not => !fail_not(s),
        Operation::U32div => !fail_u32div(s),
        _ => true,
    }
}
/// op_fn / op_ok are the hub relation restricted to the supported operations
pub proof fn lemma_op_fn_is_op_rel(op: Operation, s: Seq<Felt>, g: Regs, s2: Seq<Felt>, g2: Regs)
    requires op_supported(op)
    ensures op_rel(op, s, g, s2, g2) ==> s2 =~= op_fn(op, s), op_fail(op, s, g) == !op_ok(op, s)
{
}
pub open spec fn step(p: (Seq<Felt>, bool), op: Operation) -> (Seq<Felt>, bool) { (op_fn(op, p.0), p.1 && op_ok(op, p.0)) }
/// state after the operations `ops` started in p (the flag records that no operation failed)
pub open spec fn run_from(ops: Seq<Operation>, p: (Seq<Felt>, bool)) -> (Seq<Felt>, bool)
    decreases ops.len()
{
    if ops.len() == 0 { p } else { step(run_from(ops.drop_last(), p), ops.last()) }
}
pub open spec fn run(ops: Seq<Operation>, s: Seq<Felt>) -> (Seq<Felt>, bool) { run_from(ops, (s, true)) }
pub proof fn lemma_run_concat(a: Seq<Operation>, b: Seq<Operation>, p: (Seq<Felt>, bool))
    ensures run_from(a + b, p) == run_from(b, run_from(a, p))
    decreases b.len()
{
    if b.len() == 0 {
        assert(a + b =~= a);
    } else {
        lemma_run_concat(a, b.drop_last(), p);
        assert((a + b).drop_last() =~= a + b.drop_last());
        assert((a + b).last() == b.last());
    }
}
/// the same operation n times
pub open spec fn rep(op: Operation, n: int) -> Seq<Operation> { Seq::new(n as nat, |i: int| op) }
pub open spec fn iter_op(op: Operation, n: int, p: (Seq<Felt>, bool)) -> (Seq<Felt>, bool)
    decreases n
{
    if n <= 0 { p } else { step(iter_op(op, n - 1, p), op) }
}
pub proof fn lemma_run_rep(op: Operation, n: int, p: (Seq<Felt>, bool))
    requires n >= 0
    ensures run_from(rep(op, n), p) == iter_op(op, n, p)
    decreases n
{
    if n > 0 {
        lemma_run_rep(op, n - 1, p);
        assert(rep(op, n).drop_last() =~= rep(op, n - 1));
        assert(rep(op, n).last() == op);
    }
}
/// n EXPACC steps never fail and are expacc_iter
pub proof fn lemma_iter_expacc(n: int, p: (Seq<Felt>, bool))
    requires n >= 0
    ensures iter_op(Operation::Expacc, n, p) == (expacc_iter(p.0, n), p.1)
    decreases n
{
    reveal(expacc_iter);
    if n > 0 {
        lemma_iter_expacc(n - 1, p);
        lemma_expacc_iter_last(p.0, n);
    }
}
/// expacc_iter unfolds at the end as well as at the front
pub proof fn lemma_expacc_iter_last(s: Seq<Felt>, n: int)
    requires n >= 1
    ensures expacc_iter(s, n) == sem_expacc(expacc_iter(s, n - 1))
    decreases n
{
    reveal_with_fuel(expacc_iter, 3);
    if n > 1 {
        lemma_expacc_iter_last(sem_expacc(s), n - 1);
    }
}
/// a failure before a block stays a failure; otherwise the block decides
pub proof fn lemma_run_flag(b: Seq<Operation>, t: Seq<Felt>, f: bool)
    ensures run_from(b, (t, f)) == (run_from(b, (t, true)).0, f && run_from(b, (t, true)).1)
    decreases b.len()
{
    if b.len() > 0 {
        lemma_run_flag(b.drop_last(), t, f);
    }
}
pub proof fn lemma_run1(a: Operation, p: (Seq<Felt>, bool))
    ensures run_from(seq![a], p) == step(p, a)
{
    reveal_with_fuel(run_from, 2);
    assert(seq![a].drop_last() =~= Seq::<Operation>::empty());
}
pub proof fn lemma_run2(a: Operation, b: Operation, p: (Seq<Felt>, bool))
    ensures run_from(seq![a, b], p) == step(step(p, a), b)
{
    lemma_run1(a, p);
    assert(seq![a, b].drop_last() =~= seq![a]);
}
pub proof fn lemma_run3(a: Operation, b: Operation, c: Operation, p: (Seq<Felt>, bool))
    ensures run_from(seq![a, b, c], p) == step(step(step(p, a), b), c)
{
    lemma_run2(a, b, p);
    assert(seq![a, b, c].drop_last() =~= seq![a, b]);
}
pub proof fn lemma_run4(a: Operation, b: Operation, c: Operation, d: Operation, p: (Seq<Felt>, bool))
    ensures run_from(seq![a, b, c, d], p) == step(step(step(step(p, a), b), c), d)
{
    lemma_run3(a, b, c, p);
    assert(seq![a, b, c, d].drop_last() =~= seq![a, b, c]);
}
pub proof fn lemma_run5(a: Operation, b: Operation, c: Operation, d: Operation, e: Operation, p: (Seq<Felt>, bool))
    ensures run_from(seq![a, b, c, d, e], p) == step(step(step(step(step(p, a), b), c), d), e)
{
    lemma_run4(a, b, c, d, p);
    assert(seq![a, b, c, d, e].drop_last() =~= seq![a, b, c, d]);
}

