// ---- spec/mem_model.rs : hub — memory as zero-initialised word RAM per execution context (C07) -----
// Written from docs/src/design/stack/io_ops.md, docs/src/design/chiplets/memory.md and
// docs/src/user_docs/assembly/{io_operations,execution_contexts}.md, NOT from the code.
// Memory is a total function (context id, address) -> word; never-written cells hold four zeros.
pub type Mem = spec_fn(int, int) -> Seq<Felt>;
pub open spec fn mget(m: Mem, c: int, a: int) -> Seq<Felt> { m(c, a) }
pub open spec fn mput(m: Mem, c: int, a: int, w: Seq<Felt>) -> Mem {
    |c2: int, a2: int| if c2 == c && a2 == a { w } else { m(c2, a2) }
}
pub open spec fn zero_word() -> Seq<Felt> { seq![felt_of(0), felt_of(0), felt_of(0), felt_of(0)] }
pub open spec fn mem_init() -> Mem { |c: int, a: int| zero_word() }

/// C07 isolation: a step / block run in context `ctx` starting at clock `clk` leaves alone every
/// cell of every context that existed before (ids <= clk) other than `ctx` itself and the root
/// context (reachable through syscalls only)
pub open spec fn mem_frame(m: Mem, m2: Mem, ctx: int, clk: int) -> bool {
    forall|c: int, a: int| c != ctx && c != 0 && c <= clk ==> #[trigger] mget(m2, c, a) == mget(m, c, a)
}
