// ---- spec/masm_pow2.rs : hub — powers of two and the operation sequence of `pow2` (needs masm_hub.rs, opsem.rs)
// ---- powers of two and the `pow2` instruction's operation sequence ---------------------------------
/// 2^n for n >= 0 (1 for n <= 0)
pub open spec fn p2(n: int) -> int
    decreases n
{
    if n <= 0 { 1 } else { 2 * p2(n - 1) }
}
pub proof fn lemma_p2_add(a: int, b: int)
    requires a >= 0, b >= 0
    ensures p2(a + b) == p2(a) * p2(b), p2(a) >= 1
    decreases a
{
    if a > 0 {
        lemma_p2_add(a - 1, b);
        assert(p2(a + b) == 2 * p2(a - 1 + b));
        assert(2 * (p2(a - 1) * p2(b)) == (2 * p2(a - 1)) * p2(b)) by (nonlinear_arith);
    }
}
pub proof fn lemma_p2_consts()
    ensures p2(0) == 1, p2(1) == 2, p2(2) == 4, p2(3) == 8, p2(4) == 16, p2(5) == 32, p2(6) == 64, p2(8) == 256, p2(16) == 65536,
        p2(32) == 0x1_0000_0000, p2(31) == 0x8000_0000, p2(63) == 0x8000_0000_0000_0000, p2(64) == 0x1_0000_0000_0000_0000,
{
    assert(p2(0) == 1 && p2(1) == 2 && p2(2) == 4 && p2(3) == 8 && p2(4) == 16 && p2(5) == 32 && p2(6) == 64 && p2(8) == 256) by (compute_only);
    assert(p2(16) == 65536) by (compute_only);
    assert(p2(32) == 0x1_0000_0000) by (compute_only);
    assert(p2(31) == 0x8000_0000) by (compute_only);
    assert(p2(63) == 0x8000_0000_0000_0000) by (compute_only);
    assert(p2(64) == 0x1_0000_0000_0000_0000) by (compute_only);
}
/// the operation sequence the assembler emits for `pow2` (and inside u32shl, u64::shl, ...):
/// Push(2) Pad Incr Swap Pad Expacc x6 Drop Drop Swap Eqz Assert(0); returns (final stack, ok).
/// Opaque: clients use lemma_pow2_chain only.
#[verifier::opaque]
pub open spec fn pow2_chain(s: Seq<Felt>) -> (Seq<Felt>, bool) {
    let s1 = sem_push(s, fe(2)); let s2 = sem_pad(s1); let s3 = sem_incr(s2); let s4 = sem_swap(s3); let s5 = sem_pad(s4);
    let s6 = sem_expacc(s5); let s7 = sem_expacc(s6); let s8 = sem_expacc(s7); let s9 = sem_expacc(s8);
    let s10 = sem_expacc(s9); let s11 = sem_expacc(s10);
    let s12 = sem_drop(s11); let s13 = sem_drop(s12); let s14 = sem_swap(s13); let s15 = sem_eqz(s14);
    (sem_assert(s15), !fail_assert(s15))
}
/// product of the factors 2^(2^i) selected by the low six bits of n
pub open spec fn p2_bits(n: int) -> int {
    (if n % 2 == 1 { 2int } else { 1 }) * (if (n / 2) % 2 == 1 { 4int } else { 1 }) * (if (n / 4) % 2 == 1 { 16int } else { 1 })
        * (if (n / 8) % 2 == 1 { 256int } else { 1 }) * (if (n / 16) % 2 == 1 { 65536int } else { 1 }) * (if (n / 32) % 2 == 1 { 0x1_0000_0000int } else { 1 })
}
pub open spec fn p2_bits_upto(k: int) -> bool
    decreases k
{
    if k < 0 { true } else if k == 0 { p2(0) == p2_bits(0) } else { p2(k) == p2_bits(k) && p2_bits_upto(k - 1) }
}
pub proof fn lemma_p2_bits_ind(k: int, n: int)
    requires p2_bits_upto(k), 0 <= n <= k
    ensures p2(n) == p2_bits(n)
    decreases k
{
    if n < k { lemma_p2_bits_ind(k - 1, n); }
}
pub proof fn lemma_p2_bits(n: int)
    requires 0 <= n <= 63
    ensures p2(n) == p2_bits(n), 1 <= p2(n) <= 0x8000_0000_0000_0000,
{
    assert(p2_bits_upto(63)) by (compute_only);
    lemma_p2_bits_ind(63, n);
    lemma_p2_consts();
    lemma_p2_add(n, 63 - n);
    lemma_p2_add(63 - n, 0);
    assert(p2(n) <= p2(63)) by (nonlinear_arith) requires p2(63) == p2(n) * p2(63 - n), p2(n) >= 1, p2(63 - n) >= 1;
}
pub proof fn lemma_fmul_consts()
    ensures fmul(2, 2) == 4, fmul(4, 4) == 16, fmul(16, 16) == 256, fmul(256, 256) == 65536, fmul(65536, 65536) == 0x1_0000_0000,
{
}
/// product below the modulus: no reduction
pub proof fn lemma_fmul_small(x: int, y: int)
    requires 0 <= x, 0 <= y, x * y < P()
    ensures fmul(x, y) == x * y
{
    assert(0 <= x * y) by (nonlinear_arith) requires 0 <= x, 0 <= y;
}
/// one EXPACC step on [_, base, acc, b] + rest
pub proof fn lemma_expacc_step(t: Seq<Felt>, base: int, acc: int, b: int, rest: Seq<Felt>)
    requires t.len() >= 4, t[1] == fe(base), t[2] == fe(acc), t[3].val() == b, t.skip(4) =~= rest, 0 <= base < P(), 0 <= acc < P(), 0 <= b
    ensures sem_expacc(t) =~= seq![fe(b % 2), fe(fmul(base, base)), fe(fmul(acc, if b % 2 == 1 { base } else { 1 })), fe(b / 2)] + rest
{
}
/// the pow2 sequence leaves 2^a in place of a and fails exactly when a > 63
pub broadcast proof fn lemma_pow2_chain(s: Seq<Felt>)
    requires s.len() >= 16
    ensures ({
        let c = #[trigger] pow2_chain(s);
        &&& c.1 == (s[0].val() <= 63)
        &&& (c.1 ==> c.0 =~= keep_with(s, seq![fe(p2(s[0].val()))], 1))
    })
{
    hide(sem_expacc);
    reveal(pow2_chain);
    let a = s[0].val();
    let rest = s.skip(1);
    let s1 = sem_push(s, fe(2)); let s2 = sem_pad(s1); let s3 = sem_incr(s2); let s4 = sem_swap(s3); let s5 = sem_pad(s4);
    assert(s5 =~= seq![fe(0), fe(2), fe(1), s[0]] + rest);
    let f0 = if a % 2 == 1 { 2int } else { 1 };
    let f1 = if (a / 2) % 2 == 1 { 4int } else { 1 };
    let f2 = if (a / 4) % 2 == 1 { 16int } else { 1 };
    let f3 = if (a / 8) % 2 == 1 { 256int } else { 1 };
    let f4 = if (a / 16) % 2 == 1 { 65536int } else { 1 };
    let f5 = if (a / 32) % 2 == 1 { 0x1_0000_0000int } else { 1 };
    assert((a / 2) / 2 == a / 4 && (a / 4) / 2 == a / 8 && (a / 8) / 2 == a / 16 && (a / 16) / 2 == a / 32 && (a / 32) / 2 == a / 64);
    lemma_fmul_consts();
    let e1 = f0 * f1; let e2 = e1 * f2; let e3 = e2 * f3; let e4 = e3 * f4; let e5 = e4 * f5;
    assert(1 <= f0 <= 2 && 1 <= e1 <= 8 && 1 <= e2 <= 128 && 1 <= e3 <= 32768 && 1 <= e4 <= 0x8000_0000 && 1 <= e5 <= 0x8000_0000_0000_0000) by (nonlinear_arith)
        requires 1 <= f0 <= 2, 1 <= f1 <= 4, 1 <= f2 <= 16, 1 <= f3 <= 256, 1 <= f4 <= 65536, 1 <= f5 <= 0x1_0000_0000,
            e1 == f0 * f1, e2 == e1 * f2, e3 == e2 * f3, e4 == e3 * f4, e5 == e4 * f5;
    lemma_fmul_small(1, f0); lemma_fmul_small(f0, f1); lemma_fmul_small(e1, f2); lemma_fmul_small(e2, f3); lemma_fmul_small(e3, f4);
    assert(e4 * f5 < P()) by (nonlinear_arith) requires 1 <= e4 <= 0x8000_0000, 1 <= f5 <= 0x1_0000_0000;
    lemma_fmul_small(e4, f5);
    lemma_fmul_small(f0, 1); lemma_fmul_small(e1, 1); lemma_fmul_small(e2, 1); lemma_fmul_small(e3, 1); lemma_fmul_small(e4, 1);
    lemma_expacc_step(s5, 2, 1, a, rest);
    let s6 = sem_expacc(s5);
    assert(s6 =~= seq![fe(a % 2), fe(4), fe(f0), fe(a / 2)] + rest);
    lemma_expacc_step(s6, 4, f0, a / 2, rest);
    let s7 = sem_expacc(s6);
    assert(s7 =~= seq![fe((a / 2) % 2), fe(16), fe(e1), fe(a / 4)] + rest);
    lemma_expacc_step(s7, 16, e1, a / 4, rest);
    let s8 = sem_expacc(s7);
    assert(s8 =~= seq![fe((a / 4) % 2), fe(256), fe(e2), fe(a / 8)] + rest);
    lemma_expacc_step(s8, 256, e2, a / 8, rest);
    let s9 = sem_expacc(s8);
    assert(s9 =~= seq![fe((a / 8) % 2), fe(65536), fe(e3), fe(a / 16)] + rest);
    lemma_expacc_step(s9, 65536, e3, a / 16, rest);
    let s10 = sem_expacc(s9);
    assert(s10 =~= seq![fe((a / 16) % 2), fe(0x1_0000_0000), fe(e4), fe(a / 32)] + rest);
    lemma_expacc_step(s10, 0x1_0000_0000, e4, a / 32, rest);
    let s11 = sem_expacc(s10);
    assert(s11[2] == fe(e5) && s11[3] == fe(a / 64) && s11.skip(4) =~= rest);
    let s12 = sem_drop(s11); let s13 = sem_drop(s12); let s14 = sem_swap(s13); let s15 = sem_eqz(s14);
    assert(s14 =~= seq![fe(a / 64), fe(e5)] + rest);
    assert(e5 == p2_bits(a));
    if a <= 63 { lemma_p2_bits(a); }
}
