// ---- spec/control_sem.rs : hub — documented control-flow semantics of MAST execution ------------
// Source: docs/src/user_docs/assembly/flow_control.md, docs/src/design/programs.md,
// docs/src/design/decoder/main.md.  The semantics is the LEAST relation closed under the rules
// below.  `exec_rel` / `iter_rel` (and `rows_rel` in span_sem.rs) are uninterpreted; the rules are introduction
// axioms.  The executors prove `exec_rel(block, before, after, trace)` for every successful run,
// i.e. membership in every relation closed under the rules, hence in the least one.  (No rule lets
// a split take the branch the condition does not select, or a loop continue on anything but 1.)
// `trace` is the sequence of operations the decoder records for the run (C13).
pub struct PState { pub s: Seq<Felt>, pub g: Regs, pub m: Mem }

/// one more cycle, nothing else changes (JOIN / END / SPAN / RESPAN ... rows)
pub open spec fn tick(p: PState) -> PState {
    PState { s: p.s, g: Regs { clk: p.g.clk + 1, fmp: p.g.fmp, ctx: p.g.ctx, in_syscall: p.g.in_syscall, fn_hash: p.g.fn_hash }, m: p.m }
}
/// one cycle in which the top of the stack is dropped (SPLIT / LOOP / REPEAT / END-of-loop rows)
pub open spec fn drop_tick(p: PState) -> PState {
    PState { s: sem_drop(p.s), g: tick(p).g, m: p.m }
}
pub uninterp spec fn exec_rel(b: CodeBlock, p0: PState, p1: PState, tr: Seq<Operation>) -> bool;
/// iterations of a loop body: starts with a body execution, ends when the body leaves 0 on top
pub uninterp spec fn iter_rel(body: CodeBlock, p0: PState, p1: PState, tr: Seq<Operation>) -> bool;
/// one user operation takes exactly one cycle; its effect is op_rel whenever the documented
/// operand precondition holds ("undefined otherwise")
pub open spec fn step_ok(op: Operation, p0: PState, p1: PState) -> bool {
    &&& p1.g.clk == p0.g.clk + 1
    &&& !is_control(op)
    &&& (op_pre(op, p0.s) ==> op_rel(op, p0.s, p0.g, p1.s, p1.g))
    &&& mem_rel(op, p0.s, p0.g.ctx, p0.m, p1.s, p1.m)
}

#[verifier::external_body]
pub proof fn rule_join(j: Join, p0: PState, p1: PState, p2: PState, t1: Seq<Operation>, t2: Seq<Operation>)
    requires exec_rel(j.body[0], tick(p0), p1, t1), exec_rel(j.body[1], p1, p2, t2)
    ensures exec_rel(CodeBlock::Join(j), p0, tick(p2), seq![Operation::Join] + t1 + t2 + seq![Operation::End]) {}
#[verifier::external_body]
pub proof fn rule_split_true(sp: Split, p0: PState, p2: PState, t: Seq<Operation>)
    requires p0.s[0].val() == 1, exec_rel(sp.branches[0], drop_tick(p0), p2, t)
    ensures exec_rel(CodeBlock::Split(sp), p0, tick(p2), seq![Operation::Split] + t + seq![Operation::End]) {}
#[verifier::external_body]
pub proof fn rule_split_false(sp: Split, p0: PState, p2: PState, t: Seq<Operation>)
    requires p0.s[0].val() == 0, exec_rel(sp.branches[1], drop_tick(p0), p2, t)
    ensures exec_rel(CodeBlock::Split(sp), p0, tick(p2), seq![Operation::Split] + t + seq![Operation::End]) {}
#[verifier::external_body]
pub proof fn rule_loop_skip(l: Loop, p0: PState)
    requires p0.s[0].val() == 0
    ensures exec_rel(CodeBlock::Loop(l), p0, tick(drop_tick(p0)), seq![Operation::Loop, Operation::End]) {}
#[verifier::external_body]
pub proof fn rule_loop_enter(l: Loop, p0: PState, p1: PState, t: Seq<Operation>)
    requires p0.s[0].val() == 1, iter_rel(*l.body, drop_tick(p0), p1, t)
    ensures exec_rel(CodeBlock::Loop(l), p0, p1, seq![Operation::Loop] + t) {}
/// the body left 0 on top: END row, the 0 is dropped
#[verifier::external_body]
pub proof fn rule_iter_exit(body: CodeBlock, p0: PState, pa: PState, t: Seq<Operation>)
    requires exec_rel(body, p0, pa, t), pa.s[0].val() == 0
    ensures iter_rel(body, p0, drop_tick(pa), t + seq![Operation::End]) {}
/// the body left 1 on top: REPEAT row drops it and the body runs again
#[verifier::external_body]
pub proof fn rule_iter_repeat(body: CodeBlock, p0: PState, pa: PState, p1: PState, t: Seq<Operation>, t2: Seq<Operation>)
    requires exec_rel(body, p0, pa, t), pa.s[0].val() == 1, iter_rel(body, drop_tick(pa), p1, t2)
    ensures iter_rel(body, p0, p1, t + seq![Operation::Repeat] + t2) {}

// ---- calls, syscalls and dynamic execution (C07) ------------------------------------------------
// Source: docs/src/user_docs/assembly/execution_contexts.md, code_organization.md (dynexec/dyncall),
// docs/src/design/decoder/main.md (CALL / SYSCALL / DYN blocks).
/// the static environment of a run: the code-block table (MAST roots of every call / procref
/// target) and the kernel's procedure set.  It is arbitrary but fixed: `the_env()` is uninterpreted,
/// the executors are proved for a table and kernel equal to it, hence for every environment.
pub struct Env { pub cbt: spec_fn(Digest) -> Option<CodeBlock>, pub kernel: spec_fn(Digest) -> bool }
pub uninterp spec fn the_env() -> Env;
/// T4: a digest is four field elements; `digest_of_word` is the conversion Word -> Digest
pub uninterp spec fn digest_of_word(w: Seq<Felt>) -> Digest;
/// the word on top of the stack (element 3 of a word is on top)
pub open spec fn top_word(s: Seq<Felt>) -> Seq<Felt> { seq![s[3], s[2], s[1], s[0]] }
/// state in which the body of a `call` starts: a fresh context (id = the clock value of the CALL
/// row + 1, never used before) that sees only the top 16 elements, fmp = 2^30, `caller` = the callee
pub open spec fn call_entry(p0: PState, fn_hash: Seq<Felt>) -> PState {
    PState { s: p0.s.take(16), g: Regs { clk: p0.g.clk + 1, fmp: felt_of(0x4000_0000), ctx: p0.g.clk + 1, in_syscall: false, fn_hash: fn_hash }, m: p0.m }
}
/// state in which a kernel procedure starts: root context, locals region at 2^31, `caller` value
/// (hash of the calling procedure) unchanged
pub open spec fn syscall_entry(p0: PState) -> PState {
    PState { s: p0.s.take(16), g: Regs { clk: p0.g.clk + 1, fmp: felt_of(0x8000_0000), ctx: 0, in_syscall: true, fn_hash: p0.g.fn_hash }, m: p0.m }
}
/// state after the END row of a call / syscall whose body ended in `pc` with depth exactly 16:
/// the caller's deeper stack, fmp, context and fn_hash are exactly as before the call
pub open spec fn call_return(p0: PState, pc: PState) -> PState {
    PState { s: pc.s + p0.s.skip(16), g: Regs { clk: pc.g.clk + 1, fmp: p0.g.fmp, ctx: p0.g.ctx, in_syscall: false, fn_hash: p0.g.fn_hash }, m: pc.m }
}
/// the block a CALL / SYSCALL node runs: the dynamic-execution block for `dyncall`, otherwise the
/// table entry of its target
pub open spec fn callee_of(c: Call) -> Option<CodeBlock> {
    if c.fn_hash == dyn_constant_spec() { Some(CodeBlock::Dyn(Dyn {})) } else { (the_env().cbt)(c.fn_hash) }
}
/// `caller` yields "the hash of the procedure which initiated the parent context"
/// (execution_contexts.md): the target named by the CALL node, or - for dyncall - the MAST root on
/// top of the stack when the call is made
pub open spec fn entered_hash(c: Call, s: Seq<Felt>) -> Seq<Felt> {
    if c.fn_hash == dyn_constant_spec() { top_word(s) } else { c.fn_hash.word()@ }
}
#[verifier::external_body]
pub proof fn rule_call(c: Call, body: CodeBlock, p0: PState, pc: PState, t: Seq<Operation>)
    requires !c.is_syscall, !p0.g.in_syscall, callee_of(c) == Some(body),
        exec_rel(body, call_entry(p0, entered_hash(c, p0.s)), pc, t), pc.s.len() == 16
    ensures exec_rel(CodeBlock::Call(c), p0, call_return(p0, pc), seq![Operation::Call] + t + seq![Operation::End]) {}
/// a syscall reaches kernel procedures only
#[verifier::external_body]
pub proof fn rule_syscall(c: Call, body: CodeBlock, p0: PState, pc: PState, t: Seq<Operation>)
    requires c.is_syscall, !p0.g.in_syscall, (the_env().kernel)(c.fn_hash), callee_of(c) == Some(body),
        exec_rel(body, syscall_entry(p0), pc, t), pc.s.len() == 16
    ensures exec_rel(CodeBlock::Call(c), p0, call_return(p0, pc), seq![Operation::SysCall] + t + seq![Operation::End]) {}
/// DYN runs the table entry whose root is the word on top of the stack, in the current context;
/// the stack itself is not changed by the DYN / END rows
#[verifier::external_body]
pub proof fn rule_dyn(d: Dyn, body: CodeBlock, p0: PState, p1: PState, t: Seq<Operation>)
    requires (the_env().cbt)(digest_of_word(top_word(p0.s))) == Some(body), exec_rel(body, tick(p0), p1, t)
    ensures exec_rel(CodeBlock::Dyn(d), p0, tick(p1), seq![Operation::Dyn] + t + seq![Operation::End]) {}
