// ---- spec/stack_spec.rs : hub — abstract views and representation invariants of the processor
// stack (StackTrace columns, OverflowTable, Stack).  Included by unit `stack` (which proves the
// primitives against it) and by every unit that uses the stack through those contracts.
// ---- abstract view of the stack trace columns ---------------------------------------------------
impl StackTrace {
    pub open spec fn len(self) -> int { self.stack[0]@.len() as int }
    pub open spec fn wf(self) -> bool {
        &&& self.len() <= usize::MAX
        &&& forall|i: int| 0 <= i < 16 ==> (#[trigger] self.stack[i])@.len() == self.len()
        &&& forall|j: int| 0 <= j < 3 ==> (#[trigger] self.helpers[j])@.len() == self.len()
    }
    /// the 16 top-of-stack cells of a row
    pub open spec fn top(self, row: int) -> Seq<Felt> { Seq::new(16, |i: int| self.stack[i]@[row]) }
    pub open spec fn b0(self, row: int) -> Felt { self.helpers[0]@[row] }
    pub open spec fn b1(self, row: int) -> Felt { self.helpers[1]@[row] }
    pub open spec fn h0(self, row: int) -> Felt { self.helpers[2]@[row] }
    /// all 19 cells of a row coincide
    pub open spec fn row_eq(self, o: StackTrace, row: int) -> bool {
        &&& forall|i: int| 0 <= i < 16 ==> (#[trigger] self.stack[i])@[row] == o.stack[i]@[row]
        &&& forall|j: int| 0 <= j < 3 ==> (#[trigger] self.helpers[j])@[row] == o.helpers[j]@[row]
    }
    /// every row except `row` is unchanged and lengths are unchanged
    pub open spec fn same_except_row(self, o: StackTrace, row: int) -> bool {
        &&& self.len() == o.len()
        &&& forall|r: int| 0 <= r < self.len() && r != row ==> #[trigger] self.row_eq(o, r)
    }
    /// the helper cells of row `row` hold (depth, overflow address, depth - 16)
    pub open spec fn helpers_are(self, row: int, depth: Felt, addr: Felt) -> bool {
        self.b0(row) == depth && self.b1(row) == addr && self.h0(row).val() == fsub(depth.val(), 16)
    }
}

pub open spec fn prefix_eq(a: Seq<Felt>, b: Seq<Felt>, n: int) -> bool {
    a.len() >= n && b.len() >= n && forall|i: int| 0 <= i < n ==> a[i] == b[i]
}


impl OverflowTable {
    pub open spec fn n(self) -> int { self.active_rows@.len() as int }
    pub open spec fn wf(self) -> bool {
        &&& self.all_rows@.len() < 0xFFFF_FFFF
        &&& forall|i: int| 0 <= i < self.n() ==> (#[trigger] self.active_rows@[i] as int) < self.all_rows@.len()
        &&& forall|i: int| 0 <= i < self.all_rows@.len() ==> (#[trigger] self.all_rows@[i]).clk.val() != 0
    }
    /// i-th active row counted from the top of the table (0 = most recently pushed)
    pub open spec fn row(self, i: int) -> OverflowTableRow { self.all_rows@[self.active_rows@[self.n() - 1 - i] as int] }
    /// values of the active rows, newest first
    pub open spec fn vals(self) -> Seq<Felt> { Seq::new(self.n() as nat, |i: int| self.row(i).val) }
    /// the history map records, per clock, the values of the active rows oldest first
    pub open spec fn snapshot(self) -> Seq<Felt> { Seq::new(self.n() as nat, |i: int| self.all_rows@[self.active_rows@[i] as int].val) }
    pub open spec fn same_except_trace(self, o: OverflowTable) -> bool {
        self.all_rows == o.all_rows && self.active_rows == o.active_rows && self.trace_enabled == o.trace_enabled
        && self.num_init_rows == o.num_init_rows && self.last_row_addr == o.last_row_addr
    }
}

/// prev-link of the i-th visible row (0 = top) when v rows are visible: points at the next
/// visible row, the oldest visible row points at ZERO.  Opaque: used as a trigger marker only.
#[verifier::opaque]
pub open spec fn link(rows: Seq<OverflowTableRow>, act: Seq<usize>, i: int, v: int) -> bool {
    row_of(rows, act, i).prev == (if i + 1 < v { row_of(rows, act, i + 1).clk } else { felt_of(0) })
}
pub open spec fn row_of(rows: Seq<OverflowTableRow>, act: Seq<usize>, i: int) -> OverflowTableRow {
    rows[act[act.len() - 1 - i] as int]
}

impl Stack {
    /// number of overflow rows visible in the current context
    pub open spec fn vis(self) -> int { self.active_depth as int - 16 }
    /// rows hidden by enclosing contexts: the bottom `full - active` active rows, oldest first, as
    /// full rows (value, clock, prev link) — the part of the stack a callee can neither see nor
    /// change (C07)
    pub open spec fn hidden(self) -> Seq<OverflowTableRow> {
        Seq::new((self.full_depth as int - self.active_depth as int) as nat, |i: int| self.overflow.all_rows@[self.overflow.active_rows@[i] as int])
    }

    /// bookkeeping invariant that does not mention the trace helper columns
    pub open spec fn core_ok(self) -> bool {
        &&& self.trace.wf() && self.overflow.wf()
        &&& (self.clk as int) < self.trace.len() <= 0xFFFF_FFFF
        &&& 16 <= self.active_depth <= self.full_depth
        &&& self.full_depth < 0x4000_0000
        &&& self.overflow.n() == self.full_depth as int - 16
        // the overflow address register points at the top visible row (ZERO iff none is visible)
        &&& (self.vis() > 0 ==> self.overflow.last_row_addr == self.overflow.row(0).clk)
        &&& (self.vis() == 0 ==> self.overflow.last_row_addr.val() == 0)
        // prev-links of the visible rows chain down to ZERO
        &&& forall|i: int| 0 <= i < self.vis() ==> #[trigger] link(self.overflow.all_rows@, self.overflow.active_rows@, i, self.vis())
    }
    /// helper columns b0, b1, h0 of `row` describe the current depth / overflow address
    pub open spec fn helpers_ok(self, row: int) -> bool {
        &&& self.trace.b0(row).val() == self.active_depth as int
        &&& self.trace.b1(row) == self.overflow.last_row_addr
        &&& self.trace.h0(row).val() == self.active_depth as int - 16
    }
    pub open spec fn wf(self) -> bool { self.core_ok() && self.helpers_ok(self.clk as int) }
    pub open spec fn has_room(self) -> bool { (self.clk as int) + 1 < self.trace.len() }

    /// C05: the stack as a sequence: top 16 cells of row `row` followed by the visible overflow
    /// values, newest first
    pub open spec fn view_at(self, row: int) -> Seq<Felt> {
        self.trace.top(row) + self.overflow.vals().take(self.vis())
    }
    pub open spec fn view(self) -> Seq<Felt> { self.view_at(self.clk as int) }
    /// the state being built in row clk+1
    pub open spec fn next_view(self) -> Seq<Felt> { self.view_at(self.clk as int + 1) }

    /// nothing but row clk+1 of the trace may differ
    pub open spec fn same_history(self, o: Stack) -> bool {
        self.clk == o.clk && self.trace.same_except_row(o.trace, self.clk as int + 1)
    }
    /// cells 0..k of row clk+1 are untouched
    pub open spec fn next_cells_below_untouched(self, o: Stack, k: int) -> bool {
        forall|i: int| 0 <= i < k && i < 16 ==> (#[trigger] self.trace.stack[i])@[self.clk as int + 1] == o.trace.stack[i]@[self.clk as int + 1]
    }
}

impl Stack {
    /// what the saved (depth, address) pair must satisfy to be restorable (established by
    /// start_context and preserved by every operation executed in the callee: `hidden` is a frame)
    pub open spec fn restorable(self, depth: int, addr: Felt) -> bool {
        let v = depth - 16;
        &&& 16 <= depth <= self.full_depth as int
        &&& (v > 0 ==> addr == self.overflow.row(0).clk)
        &&& (v == 0 ==> addr.val() == 0)
        &&& forall|i: int| 0 <= i < v ==> #[trigger] link(self.overflow.all_rows@, self.overflow.active_rows@, i, v)
    }
}

/// same_except_row is transitive (used as a broadcast lemma by the operation units: an operation
/// is a short sequence of stack primitives, each of which only touches row clk+1)
pub broadcast proof fn lemma_same_except_row_trans(a: StackTrace, b: StackTrace, c: StackTrace, k: int)
    requires #[trigger] a.same_except_row(b, k), #[trigger] b.same_except_row(c, k)
    ensures a.same_except_row(c, k)
{
    assert forall|r: int| 0 <= r < a.len() && r != k implies #[trigger] a.row_eq(c, r) by {
        assert(a.row_eq(b, r));
        assert(b.row_eq(c, r));
    }
}
