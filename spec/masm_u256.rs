// ---- 256-bit values as eight 32-bit limbs, most significant first (stack order) ----------------------
pub open spec fn TWO256() -> int { 0x1_0000_0000_0000_0000_0000_0000_0000_0000_0000_0000_0000_0000_0000_0000_0000_0000int }
/// value of l[0] .. l[7] with l[0] the most significant limb
pub open spec fn u256v(l: Seq<Felt>) -> int {
    l[7].val() + 0x1_0000_0000 * (l[6].val() + 0x1_0000_0000 * (l[5].val() + 0x1_0000_0000 * (l[4].val()
        + 0x1_0000_0000 * (l[3].val() + 0x1_0000_0000 * (l[2].val() + 0x1_0000_0000 * (l[1].val() + 0x1_0000_0000 * l[0].val()))))))
}
pub proof fn lemma_u256_unfold(l: Seq<Felt>)
    ensures u256v(l) == l[7].val() + 0x1_0000_0000 * (l[6].val() + 0x1_0000_0000 * (l[5].val() + 0x1_0000_0000 * (l[4].val()
        + 0x1_0000_0000 * (l[3].val() + 0x1_0000_0000 * (l[2].val() + 0x1_0000_0000 * (l[1].val() + 0x1_0000_0000 * l[0].val()))))))
{}
