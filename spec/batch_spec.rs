// ---- spec/batch_spec.rs : hub — operation-group encoding (7 bits per opcode), immediates, sums;
// definitions + lemmas (docs/src/design/programs.md, decoder/main.md)
// ------------------------------------------------------------------------------------------------
// Hub: group encoding.  A group value is sum_k opcode_k * 128^k (documented: "7 bits per opcode").
// ------------------------------------------------------------------------------------------------
pub open spec fn pow128(k: int) -> int
    decreases k
{ if k <= 0 { 1 } else { 128 * pow128(k - 1) } }

/// value of the group formed by ops[lo..hi)
pub open spec fn enc(ops: Seq<Operation>, lo: int, hi: int) -> int
    decreases hi - lo
{
    if hi <= lo { 0 } else { enc(ops, lo, hi - 1) + opcode_spec(ops[hi - 1]) * pow128(hi - 1 - lo) }
}

/// k-th 7-bit digit of g
pub open spec fn digit(g: int, k: int) -> int { (g / pow128(k)) % 128 }

pub open spec fn is_push(op: Operation) -> bool { op is Push }
pub open spec fn imm_spec(op: Operation) -> Option<Felt> {
    match op { Operation::Push(v) => Some(v), _ => None }
}

/// number of immediate-carrying ops in ops[lo..hi)
pub open spec fn npush(ops: Seq<Operation>, lo: int, hi: int) -> int
    decreases hi - lo
{
    if hi <= lo { 0 } else { npush(ops, lo, hi - 1) + if is_push(ops[hi - 1]) { 1int } else { 0int } }
}

/// sum of counts[0..j)  (counts always has BATCH_SIZE = 8 entries)
#[verifier::opaque]
pub open spec fn csum(c: Seq<usize>, j: int) -> int {
    (if j > 0 { c[0] as int } else { 0 }) + (if j > 1 { c[1] as int } else { 0 })
    + (if j > 2 { c[2] as int } else { 0 }) + (if j > 3 { c[3] as int } else { 0 })
    + (if j > 4 { c[4] as int } else { 0 }) + (if j > 5 { c[5] as int } else { 0 })
    + (if j > 6 { c[6] as int } else { 0 }) + (if j > 7 { c[7] as int } else { 0 })
}

pub proof fn lemma_csum_basic()
    ensures forall|c: Seq<usize>| #[trigger] csum(c, 0) == 0
{ reveal(csum); }
/// csum(j) only reads entries below j
pub proof fn lemma_csum_update(c: Seq<usize>, i: int, v: usize, j: int)
    requires c.len() == 8, 0 <= i < 8, 0 <= j <= i
    ensures csum(c.update(i, v), j) == csum(c, j)
{ reveal(csum); }
/// one entry set, zeros behind it
pub proof fn lemma_csum_extend(c: Seq<usize>, i: int, k: int)
    requires c.len() == 8, 0 <= i < k <= 8, forall|t: int| i < t < k ==> c[t] == 0
    ensures csum(c, k) == csum(c, i) + c[i] as int
{ reveal(csum); }
pub proof fn lemma_csum_nonneg(c: Seq<usize>, j: int)
    requires c.len() == 8
    ensures csum(c, j) >= 0
{ reveal(csum); }

pub proof fn lemma_pow128_vals()
    ensures pow128(0) == 1, pow128(1) == 0x80, pow128(2) == 0x4000, pow128(3) == 0x20_0000,
        pow128(4) == 0x1000_0000, pow128(5) == 0x8_0000_0000, pow128(6) == 0x400_0000_0000,
        pow128(7) == 0x2_0000_0000_0000, pow128(8) == 0x100_0000_0000_0000, pow128(9) == 0x8000_0000_0000_0000,
{
    reveal_with_fuel(pow128, 11);
}

pub proof fn lemma_opcode_range(op: Operation)
    ensures 0 <= opcode_spec(op) < 128
{}

/// opcodes are injective on variants (two ops with the same opcode are the same variant)
pub proof fn lemma_opcode_injective(a: Operation, b: Operation)
    requires opcode_spec(a) == opcode_spec(b)
    ensures (a is Push <==> b is Push), (a is Noop <==> b is Noop), (a is Assert <==> b is Assert),
        (a is U32assert2 <==> b is U32assert2),
        (!(a is Push) && !(a is Assert) && !(a is U32assert2)) ==> a == b,
{}

pub proof fn lemma_shift_or(g: u64, o: u64, k: u64)
    requires k <= 8, o < 128, g < (1u64 << (7 * k)),
    ensures (g | (o << (7 * k))) == g + o * (1u64 << (7 * k)),
        g + o * (1u64 << (7 * k)) < (1u64 << (7 * (k + 1))),
{
    assert((g | (o << (7 * k))) == g + o * (1u64 << (7 * k))
        && g + o * (1u64 << (7 * k)) < (1u64 << (7 * (k + 1)))) by (bit_vector)
        requires k <= 8, o < 128, g < (1u64 << (7 * k));
}

pub proof fn lemma_shl_pow128(k: u64)
    requires k <= 9
    ensures (1u64 << (7 * k)) as int == pow128(k as int)
{
    lemma_pow128_vals();
    assert(k <= 9 ==> ((k == 0 ==> (1u64 << (7 * k)) == 1) && (k == 1 ==> (1u64 << (7 * k)) == 0x80)
        && (k == 2 ==> (1u64 << (7 * k)) == 0x4000) && (k == 3 ==> (1u64 << (7 * k)) == 0x20_0000)
        && (k == 4 ==> (1u64 << (7 * k)) == 0x1000_0000) && (k == 5 ==> (1u64 << (7 * k)) == 0x8_0000_0000)
        && (k == 6 ==> (1u64 << (7 * k)) == 0x400_0000_0000) && (k == 7 ==> (1u64 << (7 * k)) == 0x2_0000_0000_0000)
        && (k == 8 ==> (1u64 << (7 * k)) == 0x100_0000_0000_0000) && (k == 9 ==> (1u64 << (7 * k)) == 0x8000_0000_0000_0000))) by (bit_vector);
}

/// enc depends only on the ops in [lo,hi)
pub proof fn lemma_enc_frame(a: Seq<Operation>, b: Seq<Operation>, lo: int, hi: int)
    requires 0 <= lo, hi <= a.len(), hi <= b.len(), forall|i: int| lo <= i < hi ==> a[i] == b[i]
    ensures enc(a, lo, hi) == enc(b, lo, hi)
    decreases hi - lo
{
    if hi > lo { lemma_enc_frame(a, b, lo, hi - 1); }
}
pub proof fn lemma_npush_frame(a: Seq<Operation>, b: Seq<Operation>, lo: int, hi: int)
    requires 0 <= lo, hi <= a.len(), hi <= b.len(), forall|i: int| lo <= i < hi ==> a[i] == b[i]
    ensures npush(a, lo, hi) == npush(b, lo, hi)
    decreases hi - lo
{
    if hi > lo { lemma_npush_frame(a, b, lo, hi - 1); }
}
pub proof fn lemma_enc_bound(a: Seq<Operation>, lo: int, hi: int)
    requires 0 <= lo <= hi <= a.len()
    ensures 0 <= enc(a, lo, hi) < pow128(hi - lo)
    decreases hi - lo
{
    if hi > lo {
        lemma_enc_bound(a, lo, hi - 1);
        lemma_opcode_range(a[hi - 1]);
        let p = pow128(hi - 1 - lo);
        let o = opcode_spec(a[hi - 1]);
        assert(pow128(hi - lo) == 128 * p);
        assert(o * p <= 127 * p) by (nonlinear_arith) requires 0 <= o <= 127, p >= 0;
        assert(o * p >= 0) by (nonlinear_arith) requires 0 <= o, p >= 0;
    } else {
        assert(pow128(0) == 1);
    }
}
/// frame for every sub-range at once
pub proof fn lemma_frames(a: Seq<Operation>, b: Seq<Operation>, n: int)
    requires 0 <= n <= a.len(), n <= b.len(), forall|i: int| 0 <= i < n ==> a[i] == b[i]
    ensures forall|lo: int, hi: int| 0 <= lo && hi <= n ==> #[trigger] enc(b, lo, hi) == enc(a, lo, hi),
            forall|lo: int, hi: int| 0 <= lo && hi <= n ==> #[trigger] npush(b, lo, hi) == npush(a, lo, hi),
{
    assert forall|lo: int, hi: int| 0 <= lo && hi <= n implies #[trigger] enc(b, lo, hi) == enc(a, lo, hi) by {
        lemma_enc_frame(a, b, lo, hi);
    }
    assert forall|lo: int, hi: int| 0 <= lo && hi <= n implies #[trigger] npush(b, lo, hi) == npush(a, lo, hi) by {
        lemma_npush_frame(a, b, lo, hi);
    }
}
/// npush is monotone; a push at p is counted strictly after p
pub proof fn lemma_npush_mono(a: Seq<Operation>, lo: int, p: int, hi: int)
    requires 0 <= lo <= p <= hi <= a.len()
    ensures 0 <= npush(a, lo, p) <= npush(a, lo, hi),
            (p < hi && is_push(a[p])) ==> npush(a, lo, p) < npush(a, lo, hi),
            npush(a, lo, hi) <= hi - lo,
    decreases hi - lo
{
    if hi > p { lemma_npush_mono(a, lo, p, hi - 1); }
    else if hi > lo { lemma_npush_mono(a, lo, p - 1, hi - 1); }
}
pub proof fn lemma_npush_mono_all(a: Seq<Operation>, lo: int, hi: int)
    requires 0 <= lo <= hi <= a.len()
    ensures forall|p: int| lo <= p <= hi ==> 0 <= #[trigger] npush(a, lo, p) <= npush(a, lo, hi),
            forall|p: int| lo <= p < hi && is_push(a[p]) ==> #[trigger] npush(a, lo, p) < npush(a, lo, hi),
            npush(a, lo, hi) <= hi - lo,
{
    assert forall|p: int| lo <= p <= hi implies 0 <= #[trigger] npush(a, lo, p) <= npush(a, lo, hi) by { lemma_npush_mono(a, lo, p, hi); }
    assert forall|p: int| lo <= p < hi && is_push(a[p]) implies #[trigger] npush(a, lo, p) < npush(a, lo, hi) by { lemma_npush_mono(a, lo, p, hi); }
    lemma_npush_mono(a, lo, lo, hi);
}

/// Decodability (C08: "groups decode back to the operation sequence up to NOOP padding"):
/// the k-th 7-bit digit of a group value is the opcode of its k-th op, and 0 (= NOOP) beyond.
pub proof fn lemma_digit_of_enc(a: Seq<Operation>, lo: int, hi: int, k: int)
    requires 0 <= lo <= hi <= a.len(), 0 <= k
    ensures digit(enc(a, lo, hi), k) == if k < hi - lo { opcode_spec(a[lo + k]) } else { 0 }
    decreases hi - lo
{
    lemma_enc_bound(a, lo, hi);
    if hi <= lo {
        lemma_pow128_pos(k);
        assert(0int / pow128(k) == 0) by (nonlinear_arith) requires pow128(k) > 0;
    } else {
        let n = hi - 1 - lo;
        let e = enc(a, lo, hi - 1);
        let o = opcode_spec(a[hi - 1]);
        lemma_opcode_range(a[hi - 1]);
        lemma_enc_bound(a, lo, hi - 1);
        lemma_digit_of_enc(a, lo, hi - 1, k);
        lemma_digit_add(e, o, n, k);
    }
}
pub proof fn lemma_pow128_pos(k: int)
    ensures pow128(k) > 0
    decreases k
{ if k > 0 { lemma_pow128_pos(k - 1); } }

pub proof fn lemma_pow128_add(a: int, b: int)
    requires a >= 0, b >= 0
    ensures pow128(a + b) == pow128(a) * pow128(b)
    decreases a
{
    if a > 0 {
        lemma_pow128_add(a - 1, b);
        assert(128 * (pow128(a - 1) * pow128(b)) == (128 * pow128(a - 1)) * pow128(b)) by (nonlinear_arith);
    } else {
        assert(pow128(0) == 1);
    }
}

/// digits of e + o*128^n where e < 128^n and o < 128
pub proof fn lemma_digit_add(e: int, o: int, n: int, k: int)
    requires 0 <= e < pow128(n), 0 <= o < 128, n >= 0, k >= 0
    ensures digit(e + o * pow128(n), k) == if k < n { digit(e, k) } else if k == n { o } else { 0 }
{
    let pn = pow128(n);
    let pk = pow128(k);
    lemma_pow128_pos(n);
    lemma_pow128_pos(k);
    if k < n {
        // pn = pk * 128^(n-k), and 128 | 128^(n-k)
        lemma_pow128_add(k, n - k);
        let q = pow128(n - k);
        assert(q == 128 * pow128(n - k - 1));
        let q1 = pow128(n - k - 1);
        assert(pn == pk * q);
        // (e + o*pk*q)/pk == e/pk + o*q
        assert((e + o * pn) == e + (o * q) * pk) by (nonlinear_arith) requires pn == pk * q;
        vstd::arithmetic::div_mod::lemma_fundamental_div_mod(e, pk);
        vstd::arithmetic::div_mod::lemma_div_multiples_vanish_fancy(o * q, e % pk, pk) ;
        lemma_div_add_multiple(e, o * q, pk);
        assert((e + o * pn) / pk == e / pk + o * q);
        assert(o * q == (o * q1) * 128) by (nonlinear_arith) requires q == 128 * q1;
        vstd::arithmetic::div_mod::lemma_mod_multiples_vanish(o * q1, e / pk, 128);
    } else if k == n {
        lemma_div_add_multiple(e, o, pn);
        assert(e / pn == 0) by { vstd::arithmetic::div_mod::lemma_basic_div(e, pn); }
        assert((e + o * pn) / pn == o);
        assert(o % 128 == o) by { vstd::arithmetic::div_mod::lemma_small_mod(o as nat, 128); }
    } else {
        // e + o*pn < 128^(n+1) <= 128^k
        lemma_pow128_add(n + 1, k - n - 1);
        lemma_pow128_pos(k - n - 1);
        assert(pow128(n + 1) == 128 * pn);
        assert(e + o * pn < 128 * pn) by (nonlinear_arith) requires e < pn, o <= 127, pn > 0;
        assert(e + o * pn >= 0) by (nonlinear_arith) requires e >= 0, o >= 0, pn > 0;
        let r = pow128(k - n - 1);
        assert(pk == pow128(n + 1) * r);
        assert(pk >= pow128(n + 1)) by (nonlinear_arith) requires pk == pow128(n + 1) * r, r >= 1, pow128(n + 1) > 0;
        vstd::arithmetic::div_mod::lemma_basic_div(e + o * pn, pk);
    }
}
pub proof fn lemma_div_add_multiple(e: int, m: int, d: int)
    requires d > 0
    ensures (e + m * d) / d == e / d + m
{
    vstd::arithmetic::div_mod::lemma_div_plus_one(e, d);
    vstd::arithmetic::div_mod::lemma_fundamental_div_mod(e, d);
    let q = e / d;
    let r = e % d;
    assert(e + m * d == (q + m) * d + r) by (nonlinear_arith) requires e == d * q + r;
    vstd::arithmetic::div_mod::lemma_fundamental_div_mod_converse(e + m * d, d, q + m, r);
}

