// ---- spec/masm_shift.rs : hub — arithmetic facts behind the u64 shift / rotate procedures ------------
/// 2^b (b <= 63) split into 32-bit limbs: exactly one limb is a power of two, the other is 0
pub proof fn lemma_p2_split(b: int)
    requires 0 <= b <= 63
    ensures
        1 <= p2(b) <= 0x8000_0000_0000_0000,
        b < 32 ==> p2(b) / 0x1_0000_0000 == 0 && p2(b) % 0x1_0000_0000 == p2(b) && p2(b) <= 0x8000_0000,
        b >= 32 ==> p2(b) / 0x1_0000_0000 == p2(b - 32) && p2(b) % 0x1_0000_0000 == 0 && 1 <= p2(b - 32) <= 0x8000_0000,
{
    lemma_p2_bits(b);
    lemma_p2_consts();
    if b < 32 {
        lemma_p2_add(b, 31 - b);
        lemma_p2_add(31 - b, 0);
        assert(p2(b) <= p2(31)) by (nonlinear_arith) requires p2(31) == p2(b) * p2(31 - b), p2(b) >= 1, p2(31 - b) >= 1;
    } else {
        lemma_p2_add(32, b - 32);
        lemma_p2_add(b - 32, 63 - b);
        lemma_p2_add(63 - b, 0);
        assert(p2(b) == 0x1_0000_0000 * p2(b - 32));
        assert(p2(b - 32) <= p2(31)) by (nonlinear_arith) requires p2(31) == p2(b - 32) * p2(63 - b), p2(b - 32) >= 1, p2(63 - b) >= 1;
    }
}
/// facts for u64::shl: limb products of a with the limbs of 2^b, and the schoolbook identity
pub proof fn lemma_shl_core(b: int, ah: int, al: int)
    requires 0 <= b <= 63, 0 <= ah < 0x1_0000_0000, 0 <= al < 0x1_0000_0000
    ensures ({
        let ph = p2(b) / 0x1_0000_0000; let pl = p2(b) % 0x1_0000_0000;
        &&& 0 <= ph < 0x1_0000_0000 && 0 <= pl < 0x1_0000_0000 && p2(b) == ph * 0x1_0000_0000 + pl && 1 <= p2(b) < P()
        &&& 0 <= al * pl <= 0xFFFF_FFFE_0000_0001 && 0 <= ah * pl <= 0xFFFF_FFFE_0000_0001
        &&& 0 <= al * ph <= 0xFFFF_FFFE_0000_0001 && 0 <= ah * ph <= 0xFFFF_FFFE_0000_0001
        &&& al * pl == pl * al && ah * pl == pl * ah && al * ph == ph * al && ah * ph == ph * ah
        &&& (ah * 0x1_0000_0000 + al) * p2(b)
            == al * pl + 0x1_0000_0000 * (ah * pl) + 0x1_0000_0000 * (al * ph) + 0x1_0000_0000_0000_0000 * (ah * ph)
    })
{
    lemma_p2_split(b);
    let ph = p2(b) / 0x1_0000_0000; let pl = p2(b) % 0x1_0000_0000;
    lemma_limb_mul(al, pl); lemma_limb_mul(ah, pl); lemma_limb_mul(al, ph); lemma_limb_mul(ah, ph);
    lemma_mul64(ah, al, ph, pl);
}
