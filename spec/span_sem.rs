// ---- spec/span_sem.rs : hub — the operation stream of a span (C13) -----------------------------
// docs/src/design/decoder/main.md: operations of a batch are executed in order; a NOOP follows an
// operation ONLY (i) when that operation carries an immediate and is the last one of its group,
// and (ii) once per missing group up to the next power of two of the batch's group count.
// Batches are separated by a RESPAN row; the span is framed by SPAN ... END.
pub open spec fn ends_group(b: OpBatch, k: int) -> bool {
    exists|j: int| 0 <= j < 8 && (#[trigger] b.op_counts[j]) > 0 && csum(b.op_counts@, j) + b.op_counts[j] as int - 1 == k
}
/// opaque: the executor proofs go through lemma_stream_ops / lemma_stream_rows only, so a code change
/// that breaks the stream fails a lemma precondition instead of sending the solver into unfolding
#[verifier::opaque]
pub open spec fn stream_upto(b: OpBatch, i: int) -> Seq<Operation>
    decreases i
{
    if i <= 0 { Seq::<Operation>::empty() } else {
        stream_upto(b, i - 1) + seq![b.ops@[i - 1]]
            + (if ends_group(b, i - 1) && is_push(b.ops@[i - 1]) { seq![Operation::Noop] } else { Seq::<Operation>::empty() })
    }
}
pub open spec fn noops(n: int) -> Seq<Operation> { Seq::new(n as nat, |i: int| Operation::Noop) }
pub open spec fn pow2_ceil8(n: int) -> int { if n <= 1 { 1 } else if n <= 2 { 2 } else if n <= 4 { 4 } else { 8 } }
pub open spec fn batch_stream(b: OpBatch) -> Seq<Operation> {
    stream_upto(b, b.ops@.len() as int) + noops(pow2_ceil8(b.num_groups as int) - b.num_groups as int)
}
/// streams of batches[0..k) joined by RESPAN
pub open spec fn batches_stream(bs: Seq<OpBatch>, k: int) -> Seq<Operation>
    decreases k
{
    if k <= 0 { Seq::<Operation>::empty() }
    else if k == 1 { batch_stream(bs[0]) }
    else { batches_stream(bs, k - 1) + seq![Operation::Respan] + batch_stream(bs[k - 1]) }
}
pub open spec fn span_stream(sp: Span) -> Seq<Operation> {
    seq![Operation::Span] + batches_stream(sp.op_batches@, sp.op_batches@.len() as int) + seq![Operation::End]
}
/// a span is well formed when every batch obeys the batching rules (established by Span::new /
/// with_decorators, unit span_batch) and contains no control-flow operation
pub open spec fn span_ok(sp: Span) -> bool {
    &&& sp.op_batches@.len() >= 1
    &&& forall|i: int| 0 <= i < sp.op_batches@.len() ==> (#[trigger] sp.op_batches@[i]).batch_ok()
    &&& forall|i: int, k: int| 0 <= i < sp.op_batches@.len() && 0 <= k < sp.op_batches@[i].ops@.len() ==> !is_control(#[trigger] sp.op_batches@[i].ops@[k])
}

/// one decoder row: SPAN / RESPAN / END rows only advance the clock, user operations are steps
pub open spec fn row_ok(op: Operation, p0: PState, p1: PState) -> bool {
    if op is Span || op is Respan || op is End { p1 == tick(p0) } else { step_ok(op, p0, p1) }
}
pub uninterp spec fn rows_rel(ops: Seq<Operation>, p0: PState, p1: PState) -> bool;
#[verifier::external_body]
pub proof fn rule_rows_nil(p: PState)
    ensures rows_rel(Seq::<Operation>::empty(), p, p) {}
#[verifier::external_body]
pub proof fn rule_rows_snoc(ops: Seq<Operation>, op: Operation, p0: PState, pm: PState, p1: PState)
    requires rows_rel(ops, p0, pm), row_ok(op, pm, p1)
    ensures rows_rel(ops.push(op), p0, p1) {}
/// a span runs its row stream
#[verifier::external_body]
pub proof fn rule_span(sp: Span, p0: PState, p1: PState)
    requires rows_rel(span_stream(sp), p0, p1)
    ensures exec_rel(CodeBlock::Span(sp), p0, p1, span_stream(sp)) {}
