// ---- spec/system_spec_regs.rs : the register record used by the step relation (units without System)
pub struct Regs { pub clk: int, pub fmp: Felt, pub ctx: int, pub in_syscall: bool, pub fn_hash: Seq<Felt> }
