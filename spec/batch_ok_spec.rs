// ---- spec/batch_ok_spec.rs : hub — the C08 batching rules as a predicate on a finished OpBatch.
// Established by batch_ops / into_batch (unit span_batch), consumed by execute_op_batch (unit executor).
impl OpBatch {
    /// op group j of a finished batch: value, immediates right behind it in order, successor
    pub open spec fn group_ok(self, j: int) -> bool {
        let ops = self.ops@;
        let s = csum(self.op_counts@, j);
        let c = self.op_counts[j] as int;
        let np = npush(ops, s, s + c);
        &&& 0 <= s && s + c <= ops.len()
        &&& self.groups[j].val() == enc(ops, s, s + c)
        &&& j + 1 + np <= self.num_groups as int
        &&& forall|k: int| j < k <= j + np ==> #[trigger] self.op_counts[k] == 0
        &&& (j + 1 + np < self.num_groups as int ==> self.op_counts[j + 1 + np] > 0)
        &&& forall|p: int| s <= p < s + c && is_push(#[trigger] ops[p]) ==>
                self.groups[j + 1 + npush(ops, s, p)] == ops[p]->Push_0
        &&& (c == 9 ==> !is_push(ops[s + 8]))
    }
    /// C08 batching rules for one batch
    pub open spec fn batch_ok(self) -> bool {
        let ops = self.ops@;
        let ng = self.num_groups as int;
        &&& 1 <= ng <= 8
        &&& ops.len() >= 1
        &&& csum(self.op_counts@, 8) == ops.len()
        &&& self.op_counts[0] > 0
        &&& forall|j: int| 0 <= j < 8 ==> #[trigger] self.op_counts[j] <= 9
        &&& forall|j: int| ng <= j < 8 ==> #[trigger] self.op_counts[j] == 0
        &&& forall|j: int| ng <= j < 8 ==> (#[trigger] self.groups[j]).val() == 0
        &&& forall|j: int| 0 <= j < ng && #[trigger] self.op_counts[j] > 0 ==> self.group_ok(j)
    }
}
