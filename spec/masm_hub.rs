// ---- spec/masm_hub.rs : hub — vocabulary of the masm-level specifications (E2) --------------------
pub open spec fn TWO64() -> int { 0x1_0000_0000_0000_0000 }
/// a 64-bit value given as two 32-bit limbs
pub open spec fn u64v(hi: Felt, lo: Felt) -> int { hi.val() * 0x1_0000_0000 + lo.val() }
/// "leaves the rest of the stack untouched": `consumed` elements replaced by `produced`, everything
/// below keeps its order; zeros are shifted in when the depth would fall below 16
pub open spec fn rest_ok(s0: Seq<Felt>, r: Seq<Felt>, consumed: int, produced: int) -> bool {
    &&& r.len() == (if s0.len() - consumed + produced >= 16 { s0.len() - consumed + produced } else { 16 })
    &&& forall|i: int| produced <= i < r.len() ==> #[trigger] r[i] == (if i - produced + consumed < s0.len() { s0[i - produced + consumed] } else { fe(0) })
}
/// limb-wise bitwise functions on u32 values
pub open spec fn band(a: Felt, b: Felt) -> int { ((a.val() as u64) & (b.val() as u64)) as int }
pub open spec fn bxor(a: Felt, b: Felt) -> int { ((a.val() as u64) ^ (b.val() as u64)) as int }
pub open spec fn bor(a: Felt, b: Felt) -> int { ((a.val() as u64) | (b.val() as u64)) as int }
/// a OR b = a + b - (a AND b) on 32-bit values (the expansion the assembler uses for u32or)
pub proof fn lemma_or_via_and(a: Felt, b: Felt)
    requires is_u32(a), is_u32(b)
    ensures bor(a, b) == a.val() + b.val() - band(a, b), 0 <= band(a, b) < 0x1_0000_0000, band(a, b) <= a.val(), band(a, b) <= b.val()
{
    let x = a.val() as u64; let y = b.val() as u64;
    assert(x < 0x1_0000_0000 && y < 0x1_0000_0000 ==> (x | y) == x + y - (x & y) && (x & y) < 0x1_0000_0000 && (x & y) <= x && (x & y) <= y) by (bit_vector);
}
/// the term the lemma generator's normal form carries for one limb of the OR expansion
pub open spec fn or_form(a: Felt, b: Felt) -> Felt {
    fe(fadd(a.val(), fe(fadd(b.val(), fe(fneg(fe(((a.val() as u64) & (b.val() as u64)) as int).val())).val())).val()))
}
/// one limb of the OR expansion (DUP1 DUP1 U32AND NEG ADD ADD): a + (b + (-(a AND b))) in the field is a OR b
pub proof fn lemma_or_limb(a: Felt, b: Felt)
    requires is_u32(a), is_u32(b)
    ensures
        fadd(a.val(), fadd(b.val(), fneg(band(a, b)))) == bor(a, b),
        fadd(b.val(), fadd(a.val(), fneg(band(a, b)))) == bor(a, b),
        band(a, b) == band(b, a), bor(a, b) == bor(b, a), 0 <= band(a, b) < 0x1_0000_0000, 0 <= bor(a, b) < 0x1_0000_0000,
        or_form(a, b).val() == bor(a, b),
{
    lemma_or_via_and(a, b);
    lemma_bits_u32(a, b);
    let n = band(a, b);
    let x = a.val(); let y = b.val();
    assert(fneg(n) == (if n == 0 { 0int } else { P() - n }));
    assert(fadd(y, fneg(n)) == y - n);
    assert(fadd(x, fneg(n)) == x - n);
    assert(fadd(x, y - n) == x + y - n);
    assert(fadd(y, x - n) == x + y - n);
    let u = x as u64; let v = y as u64;
    assert(u < 0x1_0000_0000 && v < 0x1_0000_0000 ==> (u | v) < 0x1_0000_0000) by (bit_vector);
}
pub proof fn lemma_bits_u32(a: Felt, b: Felt)
    requires is_u32(a), is_u32(b)
    ensures 0 <= band(a, b) < 0x1_0000_0000, 0 <= bxor(a, b) < 0x1_0000_0000,
        band(a, b) == band(b, a), bxor(a, b) == bxor(b, a), bor(a, b) == bor(b, a)
{
    let x = a.val() as u64; let y = b.val() as u64;
    assert(x < 0x1_0000_0000 && y < 0x1_0000_0000 ==> (x & y) < 0x1_0000_0000 && (x ^ y) < 0x1_0000_0000) by (bit_vector);
    assert((x & y) == (y & x) && (x ^ y) == (y ^ x) && (x | y) == (y | x)) by (bit_vector);
}
/// product of two 32-bit limbs
pub proof fn lemma_limb_mul(x: int, y: int)
    requires 0 <= x < 0x1_0000_0000, 0 <= y < 0x1_0000_0000
    ensures 0 <= x * y <= 0xFFFF_FFFE_0000_0001, x * y == y * x
{
    assert(0 <= x * y <= 0xFFFF_FFFF * 0xFFFF_FFFF) by (nonlinear_arith) requires 0 <= x <= 0xFFFF_FFFF, 0 <= y <= 0xFFFF_FFFF;
    assert(x * y == y * x) by (nonlinear_arith);
}
/// schoolbook expansion of a 64 x 64 bit product over 32-bit limbs
pub proof fn lemma_mul64(ah: int, al: int, bh: int, bl: int)
    ensures (ah * 0x1_0000_0000 + al) * (bh * 0x1_0000_0000 + bl)
        == al * bl + 0x1_0000_0000 * (ah * bl) + 0x1_0000_0000 * (al * bh) + 0x1_0000_0000_0000_0000 * (ah * bh)
{
    assert((ah * 0x1_0000_0000 + al) * (bh * 0x1_0000_0000 + bl)
        == al * bl + 0x1_0000_0000 * (ah * bl) + 0x1_0000_0000 * (al * bh) + 0x1_0000_0000_0000_0000 * (ah * bh)) by (nonlinear_arith);
}
pub proof fn lemma_mul_limbs_all(s0: Seq<Felt>)
    requires s0.len() >= 4, is_u32(s0[0]), is_u32(s0[1]), is_u32(s0[2]), is_u32(s0[3])
    ensures ({
        let bh = s0[0].val(); let bl = s0[1].val(); let ah = s0[2].val(); let al = s0[3].val();
        &&& 0 <= al * bl <= 0xFFFF_FFFE_0000_0001 && 0 <= ah * bl <= 0xFFFF_FFFE_0000_0001
        &&& 0 <= al * bh <= 0xFFFF_FFFE_0000_0001 && 0 <= ah * bh <= 0xFFFF_FFFE_0000_0001
        &&& al * bl == bl * al && ah * bl == bl * ah && al * bh == bh * al && ah * bh == bh * ah
        &&& u64v(s0[2], s0[3]) * u64v(s0[0], s0[1])
            == al * bl + 0x1_0000_0000 * (ah * bl) + 0x1_0000_0000 * (al * bh) + 0x1_0000_0000_0000_0000 * (ah * bh)
    })
{
    let bh = s0[0].val(); let bl = s0[1].val(); let ah = s0[2].val(); let al = s0[3].val();
    lemma_limb_mul(al, bl); lemma_limb_mul(ah, bl); lemma_limb_mul(al, bh); lemma_limb_mul(ah, bh);
    lemma_mul64(ah, al, bh, bl);
}
/// T2 (P prime): a product of two field elements is 0 only if a factor is 0
#[verifier::external_body]
pub proof fn axiom_no_zero_divisors_m(a: int, b: int)
    requires 0 <= a < P(), 0 <= b < P()
    ensures fmul(a, b) == 0 <==> (a == 0 || b == 0) {}

/// core of the u64 division check (stdlib div / mod / divmod): the limb equations enforced by the
/// in-VM assertions force q = a / b and r = a % b, for ANY hinted (q, r)
pub proof fn lemma_div_core(bh: int, bl: int, ah: int, al: int, q0: int, q1: int, r0: int, r1: int)
    requires
        0 <= bh < 0x1_0000_0000, 0 <= bl < 0x1_0000_0000, 0 <= ah < 0x1_0000_0000, 0 <= al < 0x1_0000_0000,
        0 <= q0 < 0x1_0000_0000, 0 <= q1 < 0x1_0000_0000, 0 <= r0 < 0x1_0000_0000, 0 <= r1 < 0x1_0000_0000,
        // q * b fits into 64 bits: the three carry checks
        (bh * q0 + (bl * q0) / 0x1_0000_0000) / 0x1_0000_0000 == 0,
        (bl * q1 + (bh * q0 + (bl * q0) / 0x1_0000_0000) % 0x1_0000_0000) / 0x1_0000_0000 == 0,
        fmul(bh, q1) == 0,
        // r < b
        r1 * 0x1_0000_0000 + r0 < bh * 0x1_0000_0000 + bl,
        // q * b + r == a, limb by limb, no carry out
        (r0 + (bl * q0) % 0x1_0000_0000) % 0x1_0000_0000 == al,
        (((r0 + (bl * q0) % 0x1_0000_0000) / 0x1_0000_0000) + (bl * q1 + (bh * q0 + (bl * q0) / 0x1_0000_0000) % 0x1_0000_0000) % 0x1_0000_0000 + r1) % 0x1_0000_0000 == ah,
        (((r0 + (bl * q0) % 0x1_0000_0000) / 0x1_0000_0000) + (bl * q1 + (bh * q0 + (bl * q0) / 0x1_0000_0000) % 0x1_0000_0000) % 0x1_0000_0000 + r1) / 0x1_0000_0000 == 0,
    ensures
        bh * 0x1_0000_0000 + bl > 0,
        q1 * 0x1_0000_0000 + q0 == (ah * 0x1_0000_0000 + al) / (bh * 0x1_0000_0000 + bl),
        r1 * 0x1_0000_0000 + r0 == (ah * 0x1_0000_0000 + al) % (bh * 0x1_0000_0000 + bl),
{
    let B = 0x1_0000_0000int;
    let p0 = bl * q0; let p1 = bh * q0; let p2 = bl * q1; let p3 = bh * q1;
    lemma_limb_mul(bl, q0); lemma_limb_mul(bh, q0); lemma_limb_mul(bl, q1); lemma_limb_mul(bh, q1);
    axiom_no_zero_divisors_m(bh, q1);
    assert(p3 == 0) by (nonlinear_arith) requires p3 == bh * q1, bh == 0 || q1 == 0;
    let c1 = p1 + p0 / B;
    let c2 = p2 + c1 % B;
    assert(c1 < B && c2 < B);
    let a = ah * B + al; let b = bh * B + bl; let q = q1 * B + q0; let r = r1 * B + r0;
    lemma_mul64(q1, q0, bh, bl);
    assert(q * b == q0 * bl + B * (q1 * bl) + B * (q0 * bh) + 0x1_0000_0000_0000_0000 * (q1 * bh));
    assert(q0 * bl == p0 && q1 * bl == p2 && q0 * bh == p1 && q1 * bh == p3) by (nonlinear_arith)
        requires p0 == bl * q0, p1 == bh * q0, p2 == bl * q1, p3 == bh * q1;
    assert(q * b == p0 % B + B * c2);
    assert(q * b + r == a);
    assert(b * q + r == a) by (nonlinear_arith) requires q * b + r == a;
    vstd::arithmetic::div_mod::lemma_fundamental_div_mod_converse(a, b, q, r);
}
/// the stack seen as `top` followed by the original stack from position c on, zeros below, cut at depth d
pub open spec fn stk(top: Seq<Felt>, s0: Seq<Felt>, c: int, d: int) -> Seq<Felt> {
    Seq::new(d as nat, |i: int| if i < top.len() { top[i] } else if i - top.len() + c < s0.len() { s0[i - top.len() + c] } else { fe(0) })
}
/// element i of the stack seen as s ++ 0^inf (positions beyond the depth read as the zeros that are shifted in)
pub open spec fn sx(s: Seq<Felt>, i: int) -> Felt { if i < s.len() { s[i] } else { fe(0) } }
pub open spec fn max16(d: int) -> int { if d >= 16 { d } else { 16 } }
/// depth after a net change `delta` whose lowest intermediate value was `mind` (zeros are padded in
/// whenever the depth would fall below 16 and stay on the stack afterwards)
pub open spec fn depth_after(len: int, delta: int, mind: int) -> int { len + delta + (if 16 - len - mind > 0 { 16 - len - mind } else { 0 }) }
