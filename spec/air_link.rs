// ---- spec/air_link.rs : hub — an honest row pair satisfies the documented stack constraints (C03) ----
// Pure field arithmetic (no code involved).  `honest(f, s, sn)`: the two rows of the frame hold the
// top 16 elements of the stack state s before and sn after the operation.  For each operation X the
// lemma complete_X shows: if sn = sem_X(s) (the hub relation of spec/opsem.rs, which the processor's
// op_* functions ensure) and the helper registers hold what the processor's contract says it writes,
// then every documented constraint polynomial of X (the ones the AIR functions are proved to
// compute, units air_field / air_u32) evaluates to 0.  This is the converse of spec/air_sound.rs.
pub open spec fn honest(f: EvaluationFrame, s: Seq<Felt>, sn: Seq<Felt>) -> bool {
    &&& s.len() >= 16 && sn.len() >= 16
    &&& forall|i: int| 0 <= i < 16 ==> f.s(i) == #[trigger] s[i]
    &&& forall|i: int| 0 <= i < 16 ==> f.sn(i) == #[trigger] sn[i]
}
/// the first n helper registers of the current row hold hs
pub open spec fn helpers_are(f: EvaluationFrame, hs: Seq<Felt>, n: int) -> bool {
    hs.len() >= n && forall|i: int| 0 <= i < n ==> f.h(i) == #[trigger] hs[i]
}
pub proof fn lemma_honest_at(f: EvaluationFrame, s: Seq<Felt>, sn: Seq<Felt>)
    requires honest(f, s, sn)
    ensures
        f.s(0) == s[0], f.s(1) == s[1], f.s(2) == s[2], f.s(3) == s[3],
        f.sn(0) == sn[0], f.sn(1) == sn[1], f.sn(2) == sn[2], f.sn(3) == sn[3],
{}

// ---- modular arithmetic helpers ---------------------------------------------------------------------
pub proof fn lemma_mod_add(a: int, b: int)
    ensures ((a % P()) + b) % P() == (a + b) % P(), (a + (b % P())) % P() == (a + b) % P(),
            ((a % P()) - b) % P() == (a - b) % P(), (a - (b % P())) % P() == (a - b) % P(),
{
    vstd::arithmetic::div_mod::lemma_add_mod_noop(a, b, P());
    vstd::arithmetic::div_mod::lemma_sub_mod_noop(a, b, P());
    vstd::arithmetic::div_mod::lemma_mod_twice(a, P());
    vstd::arithmetic::div_mod::lemma_mod_twice(b, P());
    vstd::arithmetic::div_mod::lemma_add_mod_noop(a % P(), b, P());
    vstd::arithmetic::div_mod::lemma_add_mod_noop(a, b % P(), P());
    vstd::arithmetic::div_mod::lemma_sub_mod_noop(a % P(), b, P());
    vstd::arithmetic::div_mod::lemma_sub_mod_noop(a, b % P(), P());
}
pub proof fn lemma_mod_mul(a: int, b: int)
    ensures ((a % P()) * b) % P() == (a * b) % P(), (a * (b % P())) % P() == (a * b) % P(),
{
    vstd::arithmetic::div_mod::lemma_mul_mod_noop_left(a, b, P());
    vstd::arithmetic::div_mod::lemma_mul_mod_noop_right(a, b, P());
}
pub proof fn lemma_small(a: int)
    requires 0 <= a < P()
    ensures a % P() == a
{
    vstd::arithmetic::div_mod::lemma_small_mod(a as nat, P() as nat);
}
pub proof fn lemma_self_sub(a: int)
    ensures fsub(a, a) == 0
{}

// ---- field operations -------------------------------------------------------------------------------
pub proof fn complete_add(f: EvaluationFrame, s: Seq<Felt>)
    requires honest(f, s, sem_add(s))
    ensures fsub(fadd(f.s(0).val(), f.s(1).val()), f.sn(0).val()) == 0
{
    lemma_honest_at(f, s, sem_add(s));
    assert(sem_add(s)[0] == fe(fadd(s[1].val(), s[0].val())));
    assert(s[1].val() + s[0].val() == s[0].val() + s[1].val());
}
pub proof fn complete_neg(f: EvaluationFrame, s: Seq<Felt>)
    requires honest(f, s, sem_neg(s))
    ensures fsub(fadd(f.s(0).val(), f.sn(0).val()), 0) == 0
{
    lemma_honest_at(f, s, sem_neg(s));
    assert(sem_neg(s)[0] == fe(fneg(s[0].val())));
    lemma_mod_add(s[0].val(), 0 - s[0].val());
}
pub proof fn complete_mul(f: EvaluationFrame, s: Seq<Felt>)
    requires honest(f, s, sem_mul(s))
    ensures fsub(fmul(f.s(0).val(), f.s(1).val()), f.sn(0).val()) == 0
{
    lemma_honest_at(f, s, sem_mul(s));
    assert(sem_mul(s)[0] == fe(fmul(s[1].val(), s[0].val())));
    assert(s[1].val() * s[0].val() == s[0].val() * s[1].val()) by (nonlinear_arith);
}
pub proof fn complete_inv(f: EvaluationFrame, s: Seq<Felt>)
    requires honest(f, s, sem_inv(s)), !fail_inv(s)
    ensures fsub(fmul(f.s(0).val(), f.sn(0).val()), 1) == 0
{
    lemma_honest_at(f, s, sem_inv(s));
    assert(sem_inv(s)[0] == fe(finv(s[0].val())));
    felt_inv_ax(s[0].val());
}
pub proof fn complete_incr(f: EvaluationFrame, s: Seq<Felt>)
    requires honest(f, s, sem_incr(s))
    ensures fsub(fadd(f.s(0).val(), 1), f.sn(0).val()) == 0
{
    lemma_honest_at(f, s, sem_incr(s));
    assert(sem_incr(s)[0] == fe(fadd(s[0].val(), 1)));
}
pub proof fn complete_not(f: EvaluationFrame, s: Seq<Felt>)
    requires honest(f, s, sem_not(s)), !fail_not(s)
    ensures fsub(fadd(f.s(0).val(), f.sn(0).val()), 1) == 0
{
    lemma_honest_at(f, s, sem_not(s));
    assert(sem_not(s)[0] == b2f(s[0].val() == 0));
}
pub proof fn complete_and(f: EvaluationFrame, s: Seq<Felt>)
    requires honest(f, s, sem_and(s)), !fail_and(s)
    ensures
        fsub(fmul(f.s(1).val(), f.s(1).val()), f.s(1).val()) == 0,
        fsub(f.sn(0).val(), fmul(f.s(0).val(), f.s(1).val())) == 0,
{
    lemma_honest_at(f, s, sem_and(s));
    assert(sem_and(s)[0] == b2f(s[0].val() == 1 && s[1].val() == 1));
    let a = s[0].val(); let b = s[1].val();
    assert(b * b == b) by (nonlinear_arith) requires b == 0 || b == 1;
    assert(a * b == (if a == 1 && b == 1 { 1int } else { 0int })) by (nonlinear_arith) requires a == 0 || a == 1, b == 0 || b == 1;
}
pub proof fn complete_or(f: EvaluationFrame, s: Seq<Felt>)
    requires honest(f, s, sem_or(s)), !fail_and(s)
    ensures
        fsub(fmul(f.s(1).val(), f.s(1).val()), f.s(1).val()) == 0,
        fsub(f.sn(0).val(), fsub(fadd(f.s(0).val(), f.s(1).val()), fmul(f.s(0).val(), f.s(1).val()))) == 0,
{
    lemma_honest_at(f, s, sem_or(s));
    assert(sem_or(s)[0] == b2f(s[0].val() == 1 || s[1].val() == 1));
    let a = s[0].val(); let b = s[1].val();
    assert(b * b == b) by (nonlinear_arith) requires b == 0 || b == 1;
    assert(a * b == (if a == 1 && b == 1 { 1int } else { 0int })) by (nonlinear_arith) requires a == 0 || a == 1, b == 0 || b == 1;
}
/// EQ: the processor writes h0 = 1 / (s0 - s1) when the operands differ (any value otherwise)
pub proof fn complete_eq(f: EvaluationFrame, s: Seq<Felt>)
    requires
        honest(f, s, sem_eq(s)),
        s[0] != s[1] ==> fmul(fsub(s[0].val(), s[1].val()), f.h(0).val()) == 1,
    ensures
        fsub(fmul(fsub(f.s(0).val(), f.s(1).val()), f.sn(0).val()), 0) == 0,
        fsub(f.sn(0).val(), fsub(1, fmul(fsub(f.s(0).val(), f.s(1).val()), f.h(0).val()))) == 0,
{
    lemma_honest_at(f, s, sem_eq(s));
    assert(sem_eq(s)[0] == b2f(s[0] == s[1]));
    let d = fsub(s[0].val(), s[1].val());
    if s[0] == s[1] {
        assert(d == 0);
        assert(0 * f.h(0).val() == 0) by (nonlinear_arith);
        assert(0 * 1 == 0) by (nonlinear_arith);
    } else {
        assert(f.sn(0).val() == 0);
        assert(d * 0 == 0) by (nonlinear_arith);
    }
}
pub proof fn complete_eqz(f: EvaluationFrame, s: Seq<Felt>)
    requires
        honest(f, s, sem_eqz(s)),
        s[0].val() != 0 ==> fmul(s[0].val(), f.h(0).val()) == 1,
    ensures
        fsub(fmul(f.s(0).val(), f.sn(0).val()), 0) == 0,
        fsub(f.sn(0).val(), fsub(1, fmul(f.s(0).val(), f.h(0).val()))) == 0,
{
    lemma_honest_at(f, s, sem_eqz(s));
    assert(sem_eqz(s)[0] == b2f(s[0].val() == 0));
    if s[0].val() == 0 {
        assert(0 * f.h(0).val() == 0) by (nonlinear_arith);
        assert(0 * 1 == 0) by (nonlinear_arith);
    } else {
        assert(s[0].val() * 0 == 0) by (nonlinear_arith);
    }
}
/// EXPACC: the processor writes h0 = (b & 1 ? base : 1)
pub proof fn complete_expacc(f: EvaluationFrame, s: Seq<Felt>)
    requires
        honest(f, s, sem_expacc(s)),
        f.h(0).val() == (if s[3].val() % 2 == 1 { s[1].val() } else { 1 }),
    ensures
        fsub(f.sn(1).val(), fmul(f.s(1).val(), f.s(1).val())) == 0,
        fsub(fsub(f.h(0).val(), 1), fmul(fsub(f.s(1).val(), 1), f.sn(0).val())) == 0,
        fsub(f.sn(2).val(), fmul(f.s(2).val(), f.h(0).val())) == 0,
        fsub(f.s(3).val(), fadd(fmul(f.sn(3).val(), 2), f.sn(0).val())) == 0,
{
    let sn = sem_expacc(s);
    lemma_honest_at(f, s, sn);
    let bit = s[3].val() % 2;
    assert(sn[0] == fe(bit) && sn[1] == fe(fmul(s[1].val(), s[1].val())) && sn[3] == fe(s[3].val() / 2));
    assert(sn[2] == fe(fmul(s[2].val(), if bit == 1 { s[1].val() } else { 1 })));
    let base = s[1].val();
    if bit == 1 {
        let t = fsub(base, 1);
        assert(t * 1 == t) by (nonlinear_arith);
        lemma_small(t);
        lemma_self_sub(t);
    } else {
        assert(fsub(base, 1) * 0 == 0) by (nonlinear_arith);
    }
    let b = s[3].val();
    assert((b / 2) * 2 + bit == b);
    lemma_small((b / 2) * 2);
    lemma_small(b);
}
/// EXT2MUL
pub proof fn complete_ext2mul(f: EvaluationFrame, s: Seq<Felt>)
    requires honest(f, s, sem_ext2mul(s))
    ensures
        fsub(f.sn(0).val(), f.s(0).val()) == 0,
        fsub(f.sn(1).val(), f.s(1).val()) == 0,
        fsub(f.sn(2).val(), fsub(fmul(fadd(f.s(3).val(), f.s(2).val()), fadd(f.s(0).val(), f.s(1).val())), fmul(f.s(3).val(), f.s(1).val()))) == 0,
        fsub(f.sn(3).val(), fsub(fmul(f.s(3).val(), f.s(1).val()), fmul(fmul(2, f.s(2).val()), f.s(0).val()))) == 0,
{
    let sn = sem_ext2mul(s);
    lemma_honest_at(f, s, sn);
    let b1 = s[0].val(); let b0 = s[1].val(); let a1 = s[2].val(); let a0 = s[3].val();
    assert(sn[0] == s[0] && sn[1] == s[1]);
    assert(sn[2] == fe(fsub(fmul(fadd(b0, b1), fadd(a1, a0)), fmul(b0, a0))));
    assert(sn[3] == fe(fsub(fmul(b0, a0), fmul(fmul(2, b1), a1))));
    assert(a0 + a1 == a1 + a0 && b1 + b0 == b0 + b1);
    assert(fadd(a0, a1) * fadd(b1, b0) == fadd(b0, b1) * fadd(a1, a0)) by (nonlinear_arith);
    assert(a0 * b0 == b0 * a0) by (nonlinear_arith);
    // (2 * a1 % P) * b1 % P == (2 * b1 % P) * a1 % P
    lemma_mod_mul(2 * a1, b1);
    lemma_mod_mul(2 * b1, a1);
    assert((2 * a1) * b1 == (2 * b1) * a1) by (nonlinear_arith);
}

// ---- u32 operations -----------------------------------------------------------------------------------
/// the limb compositions of a row whose helper registers hold u32_helpers(lo, hi, check) (what
/// Process::add_range_checks writes, unit ops_u32)
pub proof fn lemma_limbs(f: EvaluationFrame, lo: int, hi: int, check: bool)
    requires helpers_are(f, u32_helpers(lo, hi, check), 5), 0 <= lo < B32(), 0 <= hi < B32()
    ensures
        d_v_lo(f) == lo, d_v_hi(f) == hi,
        d_v48(f) == 0x1_0000_0000 * (hi % 0x10000) + lo,
        d_v64(f) == (0x1_0000_0000 * hi + lo) % P(),
        f.h(4).val() == (if check { finv(fsub(0xFFFF_FFFF, hi)) } else { 0 }),
{
    let hs = u32_helpers(lo, hi, check);
    assert(f.h(0) == hs[0] && f.h(1) == hs[1] && f.h(2) == hs[2] && f.h(3) == hs[3] && f.h(4) == hs[4]);
    let t0 = lo % 0x10000; let t1 = lo / 0x10000; let t2 = hi % 0x10000; let t3 = hi / 0x10000;
    assert(f.h(0).val() == t0 && f.h(1).val() == t1 && f.h(2).val() == t2 && f.h(3).val() == t3);
    assert(1 * t0 == t0 && 1 * t2 == t2) by (nonlinear_arith);
    assert(0x1_0000 * t1 + t0 == lo && 0x1_0000 * t3 + t2 == hi);
    lemma_small(0x1_0000 * t1); lemma_small(0x1_0000 * t3); lemma_small(t0); lemma_small(t2);
    lemma_small(lo); lemma_small(hi);
    lemma_small(0x1_0000_0000 * t2);
    lemma_small(0x1_0000_0000 * t2 + lo);
    lemma_mod_add(0x1_0000_0000_0000 * t3, 0x1_0000_0000 * t2 + lo);
    assert(0x1_0000_0000_0000 * t3 + (0x1_0000_0000 * t2 + lo) == 0x1_0000_0000 * hi + lo);
    felt_inv_ax(fsub(0xFFFF_FFFF, hi));
}
/// element validity: (1 - m * (2^32 - 1 - hi)) * lo = 0 when m = 1 / (2^32 - 1 - hi) (0 for hi = 2^32 - 1),
/// provided hi = 2^32 - 1 forces lo = 0 - which holds for every canonical field element 2^32 hi + lo < P
pub proof fn lemma_validity(m: int, lo: int, hi: int)
    requires 0 <= lo < B32(), 0 <= hi < B32(), m == finv(fsub(0xFFFF_FFFF, hi)), 0x1_0000_0000 * hi + lo < P()
    ensures fsub(fmul(fsub(1, fmul(m, fsub(fsub(0x1_0000_0000, 1), hi))), lo), 0) == 0
{
    let d = fsub(0xFFFF_FFFF, hi);
    lemma_small(0xFFFF_FFFF - hi);
    assert(fsub(0x1_0000_0000, 1) == 0xFFFF_FFFF) by { lemma_small(0xFFFF_FFFF); }
    felt_inv_ax(d);
    if hi == 0xFFFF_FFFF {
        assert(lo == 0);
        assert(fsub(1, fmul(m, d)) * 0 == 0) by (nonlinear_arith);
    } else {
        assert(d % P() != 0) by { lemma_small(d); }
        assert(fmul(d, m) == 1);
        assert(m * d == d * m) by (nonlinear_arith);
        assert(0 * lo == 0) by (nonlinear_arith);
    }
}
pub proof fn complete_u32split(f: EvaluationFrame, s: Seq<Felt>)
    requires
        honest(f, s, sem_u32split(s)),
        helpers_are(f, u32_helpers(s[0].val() % B32(), s[0].val() / B32(), true), 5),
    ensures
        fsub(f.s(0).val(), d_v64(f)) == 0,
        fsub(f.sn(1).val(), d_v_lo(f)) == 0, fsub(f.sn(0).val(), d_v_hi(f)) == 0,
        fsub(fmul(fsub(1, fmul(f.h(4).val(), fsub(fsub(0x1_0000_0000, 1), d_v_hi(f)))), d_v_lo(f)), 0) == 0,
{
    let sn = sem_u32split(s);
    lemma_honest_at(f, s, sn);
    let v = s[0].val(); let lo = v % B32(); let hi = v / B32();
    assert(sn[0] == fe(hi) && sn[1] == fe(lo));
    assert(0x1_0000_0000 * hi + lo == v);
    lemma_limbs(f, lo, hi, true);
    lemma_small(v);
    lemma_validity(f.h(4).val(), lo, hi);
}
pub proof fn complete_u32add(f: EvaluationFrame, s: Seq<Felt>)
    requires
        honest(f, s, sem_u32add(s)), pre_u32_2(s),
        helpers_are(f, u32_helpers(fadd(s[1].val(), s[0].val()) % B32(), fadd(s[1].val(), s[0].val()) / B32(), false), 5),
    ensures
        fsub(fadd(f.s(0).val(), f.s(1).val()), d_v48(f)) == 0,
        fsub(f.sn(1).val(), d_v_lo(f)) == 0, fsub(f.sn(0).val(), d_v_hi(f)) == 0,
{
    let sn = sem_u32add(s);
    lemma_honest_at(f, s, sn);
    let v = s[1].val() + s[0].val();
    lemma_small(v);
    assert(sn[0] == fe(v / B32()) && sn[1] == fe(v % B32()));
    lemma_limbs(f, v % B32(), v / B32(), false);
    assert(s[0].val() + s[1].val() == v);
}
pub proof fn complete_u32add3(f: EvaluationFrame, s: Seq<Felt>)
    requires
        honest(f, s, sem_u32add3(s)), pre_u32_3(s),
        helpers_are(f, u32_helpers((s[2].val() + s[1].val() + s[0].val()) % B32(), (s[2].val() + s[1].val() + s[0].val()) / B32(), false), 5),
    ensures
        fsub(fadd(fadd(f.s(0).val(), f.s(1).val()), f.s(2).val()), d_v48(f)) == 0,
        fsub(f.sn(1).val(), d_v_lo(f)) == 0, fsub(f.sn(0).val(), d_v_hi(f)) == 0,
{
    let sn = sem_u32add3(s);
    lemma_honest_at(f, s, sn);
    let v = s[2].val() + s[1].val() + s[0].val();
    assert(sn[0] == fe(v / B32()) && sn[1] == fe(v % B32()));
    lemma_limbs(f, v % B32(), v / B32(), false);
    lemma_small(s[0].val() + s[1].val());
    lemma_small(v);
}
pub proof fn complete_u32sub(f: EvaluationFrame, s: Seq<Felt>)
    requires
        honest(f, s, sem_u32sub(s)), pre_u32_2(s),
        helpers_are(f, u32_helpers((s[1].val() - s[0].val()) % B32(), 0, false), 5),
    ensures
        fsub(f.s(1).val(), fsub(fadd(f.s(0).val(), f.sn(1).val()), fmul(0x1_0000_0000, f.sn(0).val()))) == 0,
        fsub(fmul(f.sn(0).val(), f.sn(0).val()), f.sn(0).val()) == 0,
        fsub(f.sn(1).val(), d_v_lo(f)) == 0,
{
    let sn = sem_u32sub(s);
    lemma_honest_at(f, s, sn);
    let a = s[1].val(); let b = s[0].val();
    let c = (a - b) % B32();
    assert(sn[0] == b2f(a < b) && sn[1] == fe(c));
    lemma_limbs(f, c, 0, false);
    if a < b {
        assert(c == a - b + B32());
        assert(0x1_0000_0000 * 1 == 0x1_0000_0000) by (nonlinear_arith);
        lemma_small(0x1_0000_0000);
        lemma_small(b + c);
        lemma_small(b + c - 0x1_0000_0000);
        assert(1 * 1 == 1) by (nonlinear_arith);
    } else {
        assert(c == a - b);
        assert(0x1_0000_0000 * 0 == 0) by (nonlinear_arith);
        lemma_small(b + c);
        assert(0 * 0 == 0) by (nonlinear_arith);
    }
}
pub proof fn lemma_u32_prod(a: int, b: int, c: int)
    requires 0 <= a < B32(), 0 <= b < B32(), 0 <= c < B32()
    ensures 0 <= a * b <= 0xFFFF_FFFE_0000_0001, a * b + c < P(), a * b == b * a
{
    assert(0 <= a * b <= 0xFFFF_FFFF * 0xFFFF_FFFF) by (nonlinear_arith) requires 0 <= a <= 0xFFFF_FFFF, 0 <= b <= 0xFFFF_FFFF;
    assert(a * b == b * a) by (nonlinear_arith);
}
pub proof fn complete_u32mul(f: EvaluationFrame, s: Seq<Felt>)
    requires
        honest(f, s, sem_u32mul(s)), pre_u32_2(s),
        helpers_are(f, u32_helpers((s[1].val() * s[0].val()) % B32(), (s[1].val() * s[0].val()) / B32(), true), 5),
    ensures
        fsub(fmul(f.s(0).val(), f.s(1).val()), d_v64(f)) == 0,
        fsub(f.sn(1).val(), d_v_lo(f)) == 0, fsub(f.sn(0).val(), d_v_hi(f)) == 0,
        fsub(fmul(fsub(1, fmul(f.h(4).val(), fsub(fsub(0x1_0000_0000, 1), d_v_hi(f)))), d_v_lo(f)), 0) == 0,
{
    let sn = sem_u32mul(s);
    lemma_honest_at(f, s, sn);
    lemma_u32_prod(s[1].val(), s[0].val(), 0);
    let v = s[1].val() * s[0].val();
    assert(sn[0] == fe(v / B32()) && sn[1] == fe(v % B32()));
    assert(0x1_0000_0000 * (v / B32()) + v % B32() == v);
    lemma_limbs(f, v % B32(), v / B32(), true);
    lemma_validity(f.h(4).val(), v % B32(), v / B32());
}
pub proof fn complete_u32madd(f: EvaluationFrame, s: Seq<Felt>)
    requires
        honest(f, s, sem_u32madd(s)), pre_u32_3(s),
        helpers_are(f, u32_helpers((s[1].val() * s[0].val() + s[2].val()) % B32(), (s[1].val() * s[0].val() + s[2].val()) / B32(), true), 5),
    ensures
        fsub(fadd(fmul(f.s(0).val(), f.s(1).val()), f.s(2).val()), d_v64(f)) == 0,
        fsub(f.sn(1).val(), d_v_lo(f)) == 0, fsub(f.sn(0).val(), d_v_hi(f)) == 0,
        fsub(fmul(fsub(1, fmul(f.h(4).val(), fsub(fsub(0x1_0000_0000, 1), d_v_hi(f)))), d_v_lo(f)), 0) == 0,
{
    let sn = sem_u32madd(s);
    lemma_honest_at(f, s, sn);
    lemma_u32_prod(s[1].val(), s[0].val(), s[2].val());
    let v = s[1].val() * s[0].val() + s[2].val();
    assert(sn[0] == fe(v / B32()) && sn[1] == fe(v % B32()));
    assert(0x1_0000_0000 * (v / B32()) + v % B32() == v);
    lemma_limbs(f, v % B32(), v / B32(), true);
    lemma_validity(f.h(4).val(), v % B32(), v / B32());
    lemma_small(s[1].val() * s[0].val());
    lemma_mod_add(s[0].val() * s[1].val(), s[2].val());
}
pub proof fn complete_u32div(f: EvaluationFrame, s: Seq<Felt>)
    requires
        honest(f, s, sem_u32div(s)), pre_u32_2(s), !fail_u32div(s),
        helpers_are(f, u32_helpers(s[1].val() - s[1].val() / s[0].val(), s[0].val() - s[1].val() % s[0].val() - 1, false), 5),
    ensures
        fsub(fadd(fmul(f.s(0).val(), f.sn(1).val()), f.sn(0).val()), f.s(1).val()) == 0,
        fsub(fsub(f.s(1).val(), f.sn(1).val()), d_v_lo(f)) == 0,
        fsub(fsub(f.s(0).val(), f.sn(0).val()), fadd(d_v_hi(f), 1)) == 0,
{
    let sn = sem_u32div(s);
    lemma_honest_at(f, s, sn);
    let a = s[1].val(); let b = s[0].val();
    let q = a / b; let r = a % b;
    assert(sn[0] == fe(r) && sn[1] == fe(q));
    assert(0 <= r < b && 0 <= q <= a && b * q + r == a) by (nonlinear_arith) requires b > 0, a >= 0, q == a / b, r == a % b;
    lemma_limbs(f, a - q, b - r - 1, false);
    lemma_small(b * q);
    lemma_small(a);
    lemma_small(a - q);
    lemma_small(b - r);
}
/// U32ASSERT2: the helper limbs aggregate to the two asserted elements (F41)
pub proof fn complete_u32assert2(f: EvaluationFrame, s: Seq<Felt>)
    requires
        honest(f, s, s), !fail_u32assert2(s),
        helpers_are(f, u32_helpers(s[0].val(), s[1].val(), false), 5),
    ensures
        fsub(f.sn(0).val(), d_v_lo(f)) == 0, fsub(f.sn(1).val(), d_v_hi(f)) == 0,
{
    lemma_honest_at(f, s, s);
    lemma_limbs(f, s[0].val(), s[1].val(), false);
}
